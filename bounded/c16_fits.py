"""C16 FITS output -> input round trips (bounded stand-in; see docs/BOUNDED_GUIDE.md).

Every check works in a fresh directory made with tempfile.mkdtemp(dir="/var/tmp") that is removed afterwards, sets
`conf.instance["general"]["fits"]["flip_for_ds9"]` to the value under test and restores the previous value (and the
working directory, where it is changed) in a `finally`."""
import os
import shutil
import tempfile
from pathlib import Path
import numpy as np
from pyvc.bounded import bounded
from pyvc import gens


class _Env:
    """temp directory + DS9-flip setting (+ optional chdir into the temp directory), all restored on exit"""

    def __init__(self, flip, chdir=False):
        self.flip, self.chdir = bool(flip), chdir

    def __enter__(self):
        import autoarray  # noqa  (registers the library's config before it is touched)
        from autoconf import conf
        self.conf = conf
        self.old_flip = conf.instance["general"]["fits"]["flip_for_ds9"]
        conf.instance["general"]["fits"]["flip_for_ds9"] = self.flip
        self.dir = tempfile.mkdtemp(prefix="vf-c16-", dir="/var/tmp")
        self.cwd = os.getcwd()
        if self.chdir:
            os.chdir(self.dir)
        return self

    _NAME_FORMS = (".fits", ".fits", ".fit", ".FITS", ".fts", "")     # a file is named by its path, whatever its extension

    def path(self, *parts, as_path=False):
        # the last component keeps its stem; its extension rotates over the forms above (per environment: flip / call count)
        parts = list(parts)
        if parts and parts[-1].endswith(".fits"):
            self._n = getattr(self, "_n", 0) + 1
            parts[-1] = parts[-1][:-5] + self._NAME_FORMS[(self._n + len(parts[-1])) % len(self._NAME_FORMS)]
        p = os.path.join(self.dir, *parts)
        return Path(p) if as_path else p

    def __exit__(self, *exc):
        try:
            self.conf.instance["general"]["fits"]["flip_for_ds9"] = self.old_flip
        finally:
            try:
                os.chdir(self.cwd)
            finally:
                shutil.rmtree(self.dir, ignore_errors=True)
        return False


def _same(got, want):
    got, want = np.asarray(got), np.asarray(want)
    return got.shape == want.shape and np.array_equal(got, want)


def _scales_equal(got, want):
    try:
        got = tuple(float(x) for x in got)
    except TypeError:
        got = (float(got),)
    return len(got) == len(want) and all(abs(g - w) <= 1e-12 * max(1.0, abs(w)) for g, w in zip(got, want))


# ----------------------------------------------------------------------------------------------- generators

_SHAPES = [(1, 1), (1, 4), (4, 1), (2, 3), (3, 2), (1, 2), (2, 1), (3, 5), (5, 4), (4, 5), (2, 2), (3, 3), (5, 1), (1, 5)]
_ISO = [1.0, 0.1, 0.05, 2.5, 0.3, 1.0 / 3.0, 0.2 / 3.0, float(np.float32(0.05)), 0.03125]   # incl. scales that no short decimal represents
# clearly anisotropic and NEARLY isotropic pairs (differences 3e-7 .. 1e-5, far above the 1e-8 below which the library itself
# calls two scales equal, Mask.pixel_scale): a round trip must not merge them
_ANISO = [(1.0, 2.0), (0.5, 0.1), (0.05, 0.3), (2.0, 1.0), (0.05, 0.050004), (1.0, 1.00001), (2.0, 2.0000003), (0.1000002, 0.1), (1.0 / 3.0, 0.1), (0.7 / 9.0, 1.0 / 7.0)]
_ORIGINS = [(0.0, 0.0), (1.0, -3.0)]


def _values(rng, shape):
    v = gens.reals(rng, shape, -10.0, 10.0)
    if v.size > 1 and rng.random() < 0.2:
        v.reshape(-1)[rng.randrange(v.size)] = rng.choice([1e-300, -1e300, 3.0e-7, -0.5])
    return v


def _mask(rng, shape):
    while True:
        m = np.array([[rng.random() < 0.4 for _ in range(shape[1])] for _ in range(shape[0])], dtype=bool)
        if (~m).any():
            return m


def _gen_2d(rng, tier):
    n = 0
    for rep in range(gens.budget(tier, 8, 100)):
        for shape in _SHAPES:
            for flip in (False, True):
                n += 1
                yield {"values": _values(rng, shape), "mask": _mask(rng, shape), "flip": flip,
                       "pixel_scale": rng.choice(_ISO), "origin": rng.choice(_ORIGINS), "as_path": bool(n % 3 == 0)}


def _gen_aniso(rng, tier):
    for rep in range(gens.budget(tier, 8, 100)):
        for shape in _SHAPES:
            for flip in (False, True):
                yield {"values": _values(rng, shape), "mask": _mask(rng, shape), "flip": flip,
                       "pixel_scales": rng.choice(_ANISO), "kind": rng.choice(["array2d", "mask2d", "kernel2d"])}


def _gen_1d(rng, tier):
    for rep in range(gens.budget(tier, 20, 300)):
        for n in (1, 2, 3, 5, 7):
            for flip in (False, True):
                v = _values(rng, (n,))
                m = np.array([rng.random() < 0.4 for _ in range(n)], dtype=bool)
                if m.all():
                    m[rng.randrange(n)] = False
                yield {"values": v, "mask": m, "flip": flip, "pixel_scale": rng.choice(_ISO)}


_WRITERS = ["util2d", "util1d", "array2d", "mask2d", "kernel2d", "array1d", "mask1d"]


def _gen_paths(rng, tier):
    for rep in range(gens.budget(tier, 10, 120)):
        for writer in _WRITERS:
            for flip in (False, True):
                s1, s2 = rng.sample(_SHAPES, 2)
                yield {"writer": writer, "flip": flip, "old": _values(rng, s1), "new": _values(rng, s2),
                       "as_path": bool(rng.getrandbits(1))}


def _nt_2d(values, mask, flip, pixel_scale, origin, as_path):
    return values.shape[0] > 1 and not np.array_equal(values, np.flipud(values))


# ----------------------------------------------------------------------------------------------- 2D util functions

@bounded("C16", "fits-util-2d-roundtrip", gen=_gen_2d, nontrivial=_nt_2d)
def fits_util_2d_roundtrip(values, mask, flip, pixel_scale, origin, as_path):
    """C16: 'Writing an array ... to a FITS file or header-data unit and reading it back returns identical native values
    and shape ... for either setting of the DS9 flip option: the flip applied on output is undone on input ... missing
    output directories are created' -- array_2d_util.numpy_array_2d_to_fits (into a not-yet-existing nested directory) ->
    numpy_array_2d_via_fits_from / header_obj_from, hdu_for_output_from -> file with two HDUs read at hdu 0 and 1;
    bound: 14 shapes <= 5x5 incl. 1xN, Nx1, non-square; tiny/huge/negative values; str and Path."""
    from astropy.io import fits
    from autoarray.structures.arrays import array_2d_util as u
    with _Env(flip) as env:
        fp = env.path("not", "yet", "there", "a.fits", as_path=as_path)
        u.numpy_array_2d_to_fits(array_2d=values.copy(), file_path=fp, header_dict={"PIXSCALE": pixel_scale, "MYKEY": 7})
        if not os.path.isfile(str(fp)):
            return "file not created in the (previously missing) directory"
        back = u.numpy_array_2d_via_fits_from(file_path=fp, hdu=0)
        if not _same(back, values):
            return "flip=%s: read-back array differs: %r vs %r" % (flip, back, values)
        hdr = u.header_obj_from(file_path=fp, hdu=0)
        if hdr["PIXSCALE"] != pixel_scale or hdr["MYKEY"] != 7:
            return "header cards not read back as written"
        # header-data units: primary + one image extension built from the library's own output HDUs
        other = values[:, ::-1] * 2.0 + 1.0
        h0 = u.hdu_for_output_from(array_2d=values.copy(), header_dict={"PIXSCALE": pixel_scale})
        h1 = u.hdu_for_output_from(array_2d=other.copy())
        if h0.header["PIXSCALE"] != pixel_scale:
            return "hdu_for_output_from dropped the header card"
        fp2 = env.path("two.fits", as_path=as_path)
        fits.HDUList([h0, fits.ImageHDU(np.array(h1.data), header=h1.header)]).writeto(fp2)
        b0 = u.numpy_array_2d_via_fits_from(file_path=fp2, hdu=0)
        b1 = u.numpy_array_2d_via_fits_from(file_path=fp2, hdu=1)
        if not _same(b0, values) or not _same(b1, other):
            return "flip=%s: HDU 0 / HDU 1 of a two-HDU file not read back as the arrays written" % flip
    return None


# ----------------------------------------------------------------------------------------------- Array2D

@bounded("C16", "fits-array2d-file-roundtrip", gen=_gen_2d, nontrivial=_nt_2d)
def fits_array2d_file_roundtrip(values, mask, flip, pixel_scale, origin, as_path):
    """C16: 'Writing an array ... to a FITS file ... and reading it back returns identical native values and shape and,
    via the header, the same pixel scale, for either setting of the DS9 flip option ... Masked arrays read back with zeros
    at masked pixels' -- Array2D(masked).output_to_fits -> Array2D.from_fits (+ header PIXSCALE card); both storage
    modes; bound: 14 shapes <= 5x5, random masks, isotropic scales, two origins."""
    import autoarray as aa
    with _Env(flip) as env:
        mk = aa.Mask2D(mask=mask.copy(), pixel_scales=pixel_scale, origin=origin)
        want = np.where(mask, 0.0, values)
        base_want = want
        for store_native, derived in ((False, False), (True, False), (True, True), (False, True)):
            arr = aa.Array2D(values=values.copy(), mask=mk, store_native=store_native)
            want = base_want
            if derived:
                # "a masked array": also one that came out of arithmetic (its raw storage then holds non-zero numbers at masked
                # pixels; the array written is its native form)
                arr = (arr + 3.5) * 2.0
                want = np.where(mask, 0.0, (values + 3.5) * 2.0)
            fp = env.path("sub%d%d" % (store_native, derived), "arr.fits", as_path=as_path)
            arr.output_to_fits(file_path=fp)
            back = aa.Array2D.from_fits(file_path=fp, pixel_scales=pixel_scale, origin=origin, hdu=0)
            if tuple(back.shape_native) != values.shape:
                return "shape changed: %r vs %r" % (tuple(back.shape_native), values.shape)
            if not _same(back.native, want):
                return "flip=%s store_native=%s%s: native values differ: %r vs %r" % (
                    flip, store_native, " (array = (a + 3.5) * 2)" if derived else "", np.asarray(back.native), want)
            hb = aa.Array2D.from_primary_hdu(primary_hdu=arr.hdu_for_output, origin=origin)
            if not _same(hb.native, want):
                return "flip=%s store_native=%s%s: hdu_for_output holds %r, the native form is %r" % (
                    flip, store_native, " (array = (a + 3.5) * 2)" if derived else "", np.asarray(hb.native), want)
            if not _scales_equal([back.header.header_sci_obj["PIXSCALE"]], (pixel_scale,)):
                return "PIXSCALE card %r != pixel scale %r" % (back.header.header_sci_obj["PIXSCALE"], pixel_scale)
            if not _scales_equal(back.pixel_scales, (pixel_scale, pixel_scale)) or tuple(back.origin) != tuple(origin):
                return "pixel_scales/origin of the loaded array differ from those passed"
            if not derived:
                # second generation: the file is loaded as an array of ANOTHER pixel scale (re-binned / re-calibrated data) and written
                # again -- what is written is the array that is written, its header card is that array's pixel scale, not the old file's
                s2 = pixel_scale * 2.0
                again = aa.Array2D.from_fits(file_path=fp, pixel_scales=s2, origin=origin, hdu=0)
                fp2 = env.path("gen2_%d" % store_native, "arr.fits", as_path=as_path)
                again.output_to_fits(file_path=fp2)
                back2 = aa.Array2D.from_fits(file_path=fp2, pixel_scales=s2, origin=origin, hdu=0)
                if not _same(back2.native, want):
                    return "second write / read generation changes the values"
                if not _scales_equal([back2.header.header_sci_obj["PIXSCALE"]], (s2,)):
                    return ("file written at pixel scale %r, loaded as an array of pixel scale %r and written again: PIXSCALE card is %r"
                            % (pixel_scale, s2, back2.header.header_sci_obj["PIXSCALE"]))
                hb2 = aa.Array2D.from_primary_hdu(primary_hdu=again.hdu_for_output, origin=origin)
                if not _scales_equal(hb2.pixel_scales, (s2, s2)):
                    return "hdu_for_output of an array loaded at pixel scale %r carries pixel scales %r" % (s2, hb2.pixel_scales)
    return None


@bounded("C16", "fits-array2d-hdu-roundtrip", gen=_gen_2d, nontrivial=_nt_2d)
def fits_array2d_hdu_roundtrip(values, mask, flip, pixel_scale, origin, as_path):
    """C16: 'Writing an array ... to a ... header-data unit and reading it back returns identical native values and shape
    and, via the header, the same pixel scale, for either setting of the DS9 flip option' -- Array2D.hdu_for_output ->
    Array2D.from_primary_hdu, directly and after the HDU went through a file; bound: as fits-array2d-file-roundtrip."""
    import autoarray as aa
    from astropy.io import fits
    with _Env(flip) as env:
        mk = aa.Mask2D(mask=mask.copy(), pixel_scales=pixel_scale, origin=origin)
        arr = aa.Array2D(values=values.copy(), mask=mk)
        want = np.where(mask, 0.0, values)
        hdu = arr.hdu_for_output
        fp = env.path("h.fits", as_path=as_path)
        hdu.writeto(fp)
        with fits.open(fp) as hl:
            for label, h in (("direct", hdu), ("via file", hl[0])):
                back = aa.Array2D.from_primary_hdu(primary_hdu=h, origin=origin)
                if not _same(back.native, want):
                    return "flip=%s %s: native values differ: %r vs %r" % (flip, label, np.asarray(back.native), want)
                if not _scales_equal(back.pixel_scales, (pixel_scale, pixel_scale)):
                    return "%s: pixel scales %r != %r" % (label, back.pixel_scales, pixel_scale)
                if tuple(back.origin) != tuple(origin):
                    return "origin not applied"
    return None


# ----------------------------------------------------------------------------------------------- Mask2D / Kernel2D

@bounded("C16", "fits-mask2d-roundtrip", gen=_gen_2d,
         nontrivial=lambda values, mask, flip, pixel_scale, origin, as_path: mask.shape[0] > 1 and not np.array_equal(mask, np.flipud(mask)))
def fits_mask2d_roundtrip(values, mask, flip, pixel_scale, origin, as_path):
    """C16: 'masks read back as the same booleans', 'identical ... shape and, via the header, the same pixel scale, for
    either setting of the DS9 flip option' -- Mask2D.output_to_fits -> Mask2D.from_fits (plain and invert=True),
    Mask2D.hdu_for_output -> Mask2D.from_primary_hdu; bound: 14 shapes <= 5x5, random masks."""
    import autoarray as aa
    with _Env(flip) as env:
        mk = aa.Mask2D(mask=mask.copy(), pixel_scales=pixel_scale, origin=origin)
        fp = env.path("masks", "m.fits", as_path=as_path)
        mk.output_to_fits(file_path=fp)
        back = aa.Mask2D.from_fits(file_path=fp, pixel_scales=pixel_scale, origin=origin, hdu=0)
        if np.asarray(back).dtype != bool or not _same(back, mask):
            return "flip=%s: mask read back differs: %r vs %r" % (flip, np.asarray(back), mask)
        if not _scales_equal(back.pixel_scales, (pixel_scale, pixel_scale)) or tuple(back.origin) != tuple(origin):
            return "pixel scales / origin of loaded mask differ"
        inv = aa.Mask2D.from_fits(file_path=fp, pixel_scales=pixel_scale, origin=origin, hdu=0, invert=True)
        if not _same(inv, ~mask):
            return "flip=%s: invert=True is not the negation of the written mask" % flip
        back = aa.Mask2D.from_primary_hdu(primary_hdu=mk.hdu_for_output, origin=origin)
        if np.asarray(back).dtype != bool or not _same(back, mask):
            return "flip=%s: mask from HDU differs: %r vs %r" % (flip, np.asarray(back), mask)
        if not _scales_equal(back.pixel_scales, (pixel_scale, pixel_scale)):
            return "HDU pixel scales %r != %r" % (back.pixel_scales, pixel_scale)
    return None


@bounded("C16", "fits-kernel2d-roundtrip", gen=_gen_2d, nontrivial=_nt_2d)
def fits_kernel2d_roundtrip(values, mask, flip, pixel_scale, origin, as_path):
    """C16: 'Writing [a] kernel ... to a FITS file or header-data unit and reading it back returns identical native values
    and shape and, via the header, the same pixel scale, for either setting of the DS9 flip option' --
    Kernel2D.no_mask(...).output_to_fits -> Kernel2D.from_fits, Kernel2D.hdu_for_output -> Kernel2D.from_primary_hdu
    (normalize off); bound: 14 shapes <= 5x5."""
    import autoarray as aa
    with _Env(flip) as env:
        k = aa.Kernel2D.no_mask(values=values.copy(), pixel_scales=pixel_scale)
        fp = env.path("k.fits", as_path=as_path)
        k.output_to_fits(file_path=fp)
        back = aa.Kernel2D.from_fits(file_path=fp, hdu=0, pixel_scales=pixel_scale)
        if not isinstance(back, aa.Kernel2D) or not _same(back.native, values):
            return "flip=%s: kernel from file differs: %r vs %r" % (flip, np.asarray(back.native), values)
        if not _scales_equal([back.header.header_sci_obj["PIXSCALE"]], (pixel_scale,)):
            return "PIXSCALE card != pixel scale"
        back = aa.Kernel2D.from_primary_hdu(primary_hdu=k.hdu_for_output)
        if not isinstance(back, aa.Kernel2D) or not _same(back.native, values):
            return "flip=%s: kernel from HDU differs: %r vs %r" % (flip, np.asarray(back.native), values)
        if not _scales_equal(back.pixel_scales, (pixel_scale, pixel_scale)):
            return "HDU pixel scales %r != %r" % (back.pixel_scales, pixel_scale)
    return None


# ----------------------------------------------------------------------------------------------- anisotropic scales

@bounded("C16", "fits-anisotropic-pixel-scales", gen=_gen_aniso)
def fits_anisotropic_pixel_scales(values, mask, flip, pixel_scales, kind):
    """C16: 'reading it back returns ... via the header, the same pixel scale' (quantifier: 'isotropic and anisotropic
    pixel scales') -- Array2D / Mask2D / Kernel2D with (s_y != s_x): hdu_for_output -> from_primary_hdu must give back
    both scales; bound: 14 shapes <= 5x5, four anisotropic scale pairs."""
    import autoarray as aa
    with _Env(flip):
        if kind == "array2d":
            obj = aa.Array2D(values=values.copy(), mask=aa.Mask2D(mask=mask.copy(), pixel_scales=pixel_scales))
            back = aa.Array2D.from_primary_hdu(primary_hdu=obj.hdu_for_output)
            ok = _same(back.native, np.where(mask, 0.0, values))
        elif kind == "mask2d":
            obj = aa.Mask2D(mask=mask.copy(), pixel_scales=pixel_scales)
            back = aa.Mask2D.from_primary_hdu(primary_hdu=obj.hdu_for_output)
            ok = _same(back, mask)
        else:
            obj = aa.Kernel2D.no_mask(values=values.copy(), pixel_scales=pixel_scales)
            back = aa.Kernel2D.from_primary_hdu(primary_hdu=obj.hdu_for_output)
            ok = _same(back.native, values)
        if not ok:
            return "%s: values differ after HDU round trip" % kind
        if not _scales_equal(back.pixel_scales, pixel_scales):
            return "%s: pixel scales %r written, %r read back (header cards: %r)" % (
                kind, pixel_scales, tuple(back.pixel_scales),
                {k: v for k, v in obj.hdu_for_output.header.items() if k.startswith("PIXSCALE")})
    return None


# ----------------------------------------------------------------------------------------------- 1D

_nt_1d = lambda values, mask, flip, pixel_scale: values.size > 1 and not np.array_equal(values, values[::-1])


@bounded("C16", "fits-1d-file-roundtrip", gen=_gen_1d, nontrivial=_nt_1d)
def fits_1d_file_roundtrip(values, mask, flip, pixel_scale):
    """C16: 'Writing a ... 1D array to a FITS file ... and reading it back returns identical native values and shape and,
    via the header, the same pixel scale, for either setting of the DS9 flip option ... Masked arrays read back with zeros
    at masked pixels' -- array_1d_util.numpy_array_1d_to_fits (missing directory) -> numpy_array_1d_via_fits_from;
    Array1D(masked).output_to_fits -> Array1D.from_fits (+ PIXSCALE card); bound: lengths 1,2,3,5,7."""
    import autoarray as aa
    from autoarray.structures.arrays import array_1d_util as u1
    with _Env(flip) as env:
        fp = env.path("new", "dir", "u.fits")
        u1.numpy_array_1d_to_fits(array_1d=values.copy(), file_path=fp, header_dict={"PIXSCALE": pixel_scale})
        back = u1.numpy_array_1d_via_fits_from(file_path=fp, hdu=0)
        if not _same(back, values):
            return "flip=%s: 1D util round trip differs: %r vs %r" % (flip, np.asarray(back), values)
        mk = aa.Mask1D(mask=mask.copy(), pixel_scales=pixel_scale)
        arr = aa.Array1D(values=values.copy(), mask=mk)
        want = np.where(mask, 0.0, values)
        fp = env.path("a1.fits")
        arr.output_to_fits(file_path=fp)
        back = aa.Array1D.from_fits(file_path=fp, pixel_scales=pixel_scale, hdu=0)
        if not _same(back.native, want):
            return "flip=%s: Array1D file round trip differs: %r vs %r" % (flip, np.asarray(back.native), want)
        if not _scales_equal([back.header.header_sci_obj["PIXSCALE"]], (pixel_scale,)):
            return "Array1D file: PIXSCALE card != pixel scale"
        if not _scales_equal(back.pixel_scales, (pixel_scale,)):
            return "Array1D file: pixel scales of the loaded array differ from those passed"
    return None


@bounded("C16", "fits-array1d-hdu-roundtrip", gen=_gen_1d, nontrivial=_nt_1d)
def fits_array1d_hdu_roundtrip(values, mask, flip, pixel_scale):
    """C16: 'Writing a ... 1D array to a ... header-data unit and reading it back returns identical native values and
    shape and, via the header, the same pixel scale, for either setting of the DS9 flip option: the flip applied on output
    is undone on input' -- Array1D(masked).hdu_for_output -> Array1D.from_primary_hdu; bound: lengths 1,2,3,5,7."""
    import autoarray as aa
    with _Env(flip):
        mk = aa.Mask1D(mask=mask.copy(), pixel_scales=pixel_scale)
        arr = aa.Array1D(values=values.copy(), mask=mk)
        want = np.where(mask, 0.0, values)
        back = aa.Array1D.from_primary_hdu(primary_hdu=arr.hdu_for_output)
        if not _same(back.native, want):
            return "flip=%s: Array1D hdu_for_output -> from_primary_hdu differs: %r vs %r" % (flip, np.asarray(back.native), want)
        if not _scales_equal(back.pixel_scales, (pixel_scale,)):
            return "Array1D HDU pixel scales %r != %r" % (back.pixel_scales, pixel_scale)
    return None


@bounded("C16", "fits-mask1d-roundtrip", gen=_gen_1d,
         nontrivial=lambda values, mask, flip, pixel_scale: mask.size > 1 and not np.array_equal(mask, mask[::-1]))
def fits_mask1d_roundtrip(values, mask, flip, pixel_scale):
    """C16: 'masks read back as the same booleans ... via the header, the same pixel scale, for either setting of the DS9
    flip option' -- Mask1D.output_to_fits -> Mask1D.from_fits, Mask1D.hdu_for_output -> Mask1D.from_primary_hdu;
    bound: lengths 1,2,3,5,7."""
    import autoarray as aa
    with _Env(flip) as env:
        mk = aa.Mask1D(mask=mask.copy(), pixel_scales=pixel_scale)
        fp = env.path("m1.fits")
        mk.output_to_fits(file_path=fp)
        back = aa.Mask1D.from_fits(file_path=fp, pixel_scales=pixel_scale, hdu=0)
        if np.asarray(back).dtype != bool or not _same(back, mask):
            return "flip=%s: Mask1D file round trip differs: %r vs %r" % (flip, np.asarray(back), mask)
        back = aa.Mask1D.from_primary_hdu(primary_hdu=mk.hdu_for_output)
        if np.asarray(back).dtype != bool or not _same(back, mask):
            return "flip=%s: Mask1D HDU round trip differs: %r vs %r" % (flip, np.asarray(back), mask)
        if not _scales_equal(back.pixel_scales, (pixel_scale,)):
            return "Mask1D HDU pixel scales %r != %r" % (back.pixel_scales, pixel_scale)
    return None


# ----------------------------------------------------------------------------------------------- path semantics

def _io(writer, content):
    """(write(path, overwrite), read(path) -> ndarray, expected ndarray) for one writer kind; content is a 2D float array"""
    import autoarray as aa
    from autoarray.structures.arrays import array_2d_util as u2, array_1d_util as u1
    row = content[0].copy()
    if writer == "util2d":
        return (lambda p, ow: u2.numpy_array_2d_to_fits(array_2d=content.copy(), file_path=p, overwrite=ow),
                lambda p: u2.numpy_array_2d_via_fits_from(file_path=p, hdu=0), content)
    if writer == "util1d":
        return (lambda p, ow: u1.numpy_array_1d_to_fits(array_1d=row.copy(), file_path=p, overwrite=ow),
                lambda p: u1.numpy_array_1d_via_fits_from(file_path=p, hdu=0), row)
    if writer == "array2d":
        obj = aa.Array2D.no_mask(values=content.copy(), pixel_scales=0.5)
        return (lambda p, ow: obj.output_to_fits(file_path=p, overwrite=ow),
                lambda p: np.asarray(aa.Array2D.from_fits(file_path=p, pixel_scales=0.5).native), content)
    if writer == "kernel2d":
        obj = aa.Kernel2D.no_mask(values=content.copy(), pixel_scales=0.5)
        return (lambda p, ow: obj.output_to_fits(file_path=p, overwrite=ow),
                lambda p: np.asarray(aa.Kernel2D.from_fits(file_path=p, hdu=0, pixel_scales=0.5).native), content)
    if writer == "mask2d":
        obj = aa.Mask2D(mask=content > 0.0, pixel_scales=0.5)
        return (lambda p, ow: obj.output_to_fits(file_path=p, overwrite=ow),
                lambda p: np.asarray(aa.Mask2D.from_fits(file_path=p, pixel_scales=0.5)), content > 0.0)
    if writer == "array1d":
        obj = aa.Array1D.no_mask(values=row.copy(), pixel_scales=0.5)
        return (lambda p, ow: obj.output_to_fits(file_path=p, overwrite=ow),
                lambda p: np.asarray(aa.Array1D.from_fits(file_path=p, pixel_scales=0.5).native), row)
    if writer == "mask1d":
        obj = aa.Mask1D(mask=row > 0.0, pixel_scales=0.5)
        return (lambda p, ow: obj.output_to_fits(file_path=p, overwrite=ow),
                lambda p: np.asarray(aa.Mask1D.from_fits(file_path=p, pixel_scales=0.5)), row > 0.0)
    raise ValueError(writer)


@bounded("C16", "fits-overwrite-semantics", gen=_gen_paths)
def fits_overwrite_semantics(writer, flip, old, new, as_path):
    """C16: 'Writing to an existing path fails unless overwrite is requested, in which case the new content fully
    replaces the old; missing output directories are created' -- each of the seven writers (2D/1D util functions,
    Array2D, Kernel2D, Mask2D, Array1D, Mask1D .output_to_fits): write old content into a missing nested directory,
    second write without overwrite must raise, with overwrite=True the file holds exactly the new content (different
    shape) in a single HDU; overwrite=True on an absent path simply writes; bound: shapes <= 5x5, str and Path."""
    from astropy.io import fits
    with _Env(flip) as env:
        w_old, read, want_old = _io(writer, old)
        w_new, _, want_new = _io(writer, new)
        fp = env.path("a", "b", "out.fits", as_path=as_path)
        w_old(fp, False)
        if not os.path.isfile(str(fp)):
            return "missing directories not created / file not written"
        if not _same(read(fp), want_old):
            return "first write did not round trip"
        try:
            w_new(fp, False)
        except Exception:
            pass
        else:
            return "writing to an existing path without overwrite did not fail"
        w_new(fp, True)
        if not _same(read(fp), want_new):
            return "overwrite=True: read-back is not the new content: %r vs %r" % (np.asarray(read(fp)), want_new)
        with fits.open(fp) as hl:
            if len(hl) != 1 or tuple(hl[0].data.shape) != np.asarray(want_new).shape:
                return "overwrite=True: file still holds old material (HDUs %d, shape %r)" % (len(hl), hl[0].data.shape)
        fp2 = env.path("fresh", "out.fits", as_path=as_path)
        w_new(fp2, True)
        if not _same(read(fp2), want_new):
            return "overwrite=True on an absent path did not write the content"
    return None


@bounded("C16", "fits-bare-file-name", gen=_gen_paths)
def fits_bare_file_name(writer, flip, old, new, as_path):
    """C16: 'a bare file name writes into the current directory' -- each of the seven writers called with file_path
    'name.fits' (str or Path, no directory part) while the current directory is a fresh temp directory: the file must
    appear there and read back as written, also with overwrite=True on the second write; bound: shapes <= 5x5."""
    with _Env(flip, chdir=True) as env:
        w_old, read, want_old = _io(writer, old)
        w_new, _, want_new = _io(writer, new)
        name = Path("bare.fits") if as_path else "bare.fits"
        try:
            w_old(name, False)
        except Exception as e:
            return "%s: writing bare file name raised %s: %s" % (writer, type(e).__name__, e)
        if not os.path.isfile(os.path.join(env.dir, "bare.fits")):
            return "%s: file not found in the current directory" % writer
        if not _same(read(name), want_old):
            return "%s: bare-name file did not round trip" % writer
        try:
            w_new(name, True)
        except Exception as e:
            return "%s: overwriting bare file name raised %s: %s" % (writer, type(e).__name__, e)
        if not _same(read(name), want_new):
            return "%s: bare-name overwrite did not replace the content" % writer
    return None
