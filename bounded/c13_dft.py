"""C13 direct Fourier transform: transformer_util kernels, TransformerDFT class layer (loaded with a stand-in for the
absent optional `pylops` base class), interferometer data vector / curvature matrix (bounded stand-in; see
docs/BOUNDED_GUIDE.md).

`TransformerDFT.__init__` refuses to run when `pylops` is not installed (its base class is then a placeholder).  The
class-layer checks therefore execute the REAL source file autoarray/operators/transformer.py a second time under a
private module name while a two-line stub `pylops.LinearOperator` (an empty base class) is importable; every method
exercised is the repo's own code."""
import math
import numpy as np
from pyvc.bounded import bounded
from pyvc import gens

ARCSEC = math.pi / (180.0 * 3600.0)          # radians per arc-second

_TMOD = None


def _transformer_module():
    """the repo's transformer.py executed with a stub `pylops` (empty LinearOperator base class)"""
    global _TMOD
    if _TMOD is None:
        import sys, types, importlib.util
        import autoarray.operators.transformer as real
        stub = types.ModuleType("pylops")

        class LinearOperator:                # minimal stand-in for the optional base-class library
            def __init__(self, *a, **k):
                pass

        stub.LinearOperator = LinearOperator
        old = sys.modules.get("pylops")
        sys.modules["pylops"] = stub
        try:
            spec = importlib.util.spec_from_file_location("autoarray.operators._vf_transformer_stub", real.__file__)
            mod = importlib.util.module_from_spec(spec)
            spec.loader.exec_module(mod)
        finally:
            if old is None:
                del sys.modules["pylops"]
            else:
                sys.modules["pylops"] = old
        _TMOD = mod
    return _TMOD


# ----------------------------------------------------------------------------------------------- oracles

def _centres_radians(mask, pixel_scales, origin):
    """(y,x) centres of the unmasked pixels, row-major, in radians (row 0 is the top = largest y)"""
    h, w = mask.shape
    out = []
    for i in range(h):
        for j in range(w):
            if not mask[i, j]:
                y = origin[0] + ((h - 1) / 2.0 - i) * pixel_scales[0]
                x = origin[1] + (j - (w - 1) / 2.0) * pixel_scales[1]
                out.append((y * ARCSEC, x * ARCSEC))
    return np.array(out, dtype=float).reshape(-1, 2)


def _operator(grid_radians, uv):
    """A[k,p] = exp(-2 pi i (x_p u_k + y_p v_k))"""
    y, x = grid_radians[:, 0], grid_radians[:, 1]
    phase = np.outer(uv[:, 0], x) + np.outer(uv[:, 1], y)
    return np.exp(-2.0j * np.pi * phase)


def _close(a, b, scale):
    a, b = np.asarray(a), np.asarray(b)
    return a.shape == b.shape and bool(np.all(np.abs(a - b) <= 1e-9 * (1.0 + scale)))


def _close_rel(a, b, scale):
    """for results that are LINEAR in an input of arbitrary magnitude (`scale` = sum of its absolute values): no absolute floor,
    a result of order 1e-18 for a matrix of order 1e-18 is as much a result as one of order one"""
    a, b = np.asarray(a), np.asarray(b)
    return a.shape == b.shape and bool(np.all(np.abs(a - b) <= 1e-9 * scale + 1e-300))


# ----------------------------------------------------------------------------------------------- generators

def _baselines(rng, kmax=6):
    k = rng.randint(1, kmax)
    uv = np.zeros((k, 2))
    for i in range(k):
        r = rng.random()
        if r < 0.15:
            uv[i] = (0.0, 0.0)                                  # zero baseline
        elif r < 0.3 and i > 0:
            uv[i] = uv[rng.randrange(i)]                        # repeated baseline
        elif r < 0.4:
            uv[i] = (rng.uniform(-3e5, 3e5), 0.0)               # pure u
        elif r < 0.5:
            uv[i] = (0.0, rng.uniform(-3e5, 3e5))               # pure v
        else:
            uv[i] = (rng.uniform(-3e5, 3e5), rng.uniform(-3e5, 3e5))
    return uv


def _geometry(rng):
    ps = rng.choice([(1.0, 1.0), (0.5, 2.0), (2.0, 0.25), (0.1, 0.1), (0.05, 0.3)])
    origin = rng.choice([(0.0, 0.0), (1.0, -3.0), (-0.7, 0.4)])
    return ps, origin


_CANCEL = [[1.0, -1.0], [0.5, -0.5], [2.0, -2.0], [1.5, -1.5], [0.5, 0.25, -0.75], [1.0, 1.0, -2.0], [0.25, 0.25, -0.5],
           [2.0, -1.0, -1.0], [-0.25, -0.75, 1.0], [1.0, -0.5, -0.25, -0.25]]
_DYADIC = [1.0, -1.0, 0.5, -0.5, 0.25, -0.75, 2.0, -2.0, 1.5, -0.25]


def _cancelling(rng, n):
    """a length-n vector whose NON-ZERO entries sum to exactly zero (small dyadic values), n >= 2"""
    pat = rng.choice([q for q in _CANCEL if len(q) <= n])
    v = np.zeros(n)
    for pos, x in zip(rng.sample(range(n), len(pat)), pat):
        v[pos] = x
    return v


def _structured(rng, shape):
    """small dyadic values with the structures a sparsity / emptiness shortcut can get wrong: rows and columns whose
    non-zero entries cancel exactly, all-zero rows / columns, single-entry rows, all-negative rows"""
    r, c = shape
    m = np.array([[rng.choice(_DYADIC + [0.0, 0.0, 0.0]) for _ in range(c)] for _ in range(r)], dtype=float).reshape(r, c)
    if rng.random() < 0.3:
        m[rng.randrange(r), :] = 0.0
    if rng.random() < 0.3:
        m[:, rng.randrange(c)] = 0.0
    if rng.random() < 0.3:
        i = rng.randrange(r)
        m[i, :] = 0.0
        m[i, rng.randrange(c)] = rng.choice(_DYADIC)
    if rng.random() < 0.3:
        m[rng.randrange(r), :] = [-abs(rng.choice(_DYADIC)) for _ in range(c)]
    if r >= 2 and rng.random() < 0.6:
        m[:, rng.randrange(c)] = _cancelling(rng, r)
    if c >= 2:                                    # last, so that at least one cancelling row survives
        for i in rng.sample(range(r), rng.randint(1, max(1, r // 2))):
            m[i, :] = _cancelling(rng, c)
    return m


def _signed(rng, shape):
    """real matrix of any sign with zeros; moderate magnitudes; 40% structured (exactly cancelling rows / columns, empty
    rows / columns, single-entry and all-negative rows -- what an emptiness test on a row SUM gets wrong)"""
    if rng.random() < 0.4:
        return _structured(rng, shape)
    f = 1.0 if rng.random() < 0.75 else float(rng.choice([2.0 ** -60, 2.0 ** -90, 2.0 ** 40]))     # linear operator: any magnitude
    return f * gens.reals(rng, shape, -5.0, 5.0, special=False) * (np.array(
        [[rng.random() > 0.15 for _ in range(shape[1])] for _ in range(shape[0])], dtype=float))


def _masks(rng, tier):
    shapes = [(1, 1), (1, 2), (2, 1), (1, 3), (3, 1), (2, 2), (2, 3), (3, 2)]
    for m in gens.all_masks(6, shapes=shapes, min_unmasked=1):
        yield m
    for _ in range(gens.budget(tier, 250, 5000)):
        yield gens.random_mask(rng, 3, 3, min_unmasked=1)


def _gen_util(rng, tier):
    """arbitrary radian grids (not tied to a mask), baselines, images, signed matrices, complex visibilities"""
    for _ in range(gens.budget(tier, 2000, 40000)):
        p = rng.randint(1, 9)
        grid = gens.reals(rng, (p, 2), -3e-5, 3e-5, special=False)
        if rng.random() < 0.2:
            grid[rng.randrange(p)] = 0.0
        uv = _baselines(rng)
        n = rng.choice([1, 2, 2, 3, 3, 4])
        yield {"grid_radians": grid, "uv": uv, "image": gens.reals(rng, (p,), -5.0, 5.0, special=False),
               "matrix": _signed(rng, (p, n)),
               "vis": _zeroed(rng, gens.reals(rng, (uv.shape[0], 2), -5.0, 5.0, special=False))}


def _zeroed(rng, v):
    """some real parts exactly 0 next to a non-zero imaginary part and vice versa: 0 + 2i is a visibility like any other"""
    for k in range(v.shape[0]):
        r = rng.random()
        if r < 0.2:
            v[k, 0] = 0.0
        elif r < 0.3:
            v[k, 1] = 0.0
    return v


def _gen_class(rng, tier):
    for m in _masks(rng, tier):
        ps, origin = _geometry(rng)
        uv = _baselines(rng)
        p = int((~m).sum())
        n = rng.choice([1, 2, 2, 3, 3])
        yield {"mask": m, "pixel_scales": ps, "origin": origin, "uv": uv,
               "image": gens.reals(rng, m.shape, -5.0, 5.0, special=False),
               "matrix": _signed(rng, (p, n)),
               "vis": _zeroed(rng, gens.reals(rng, (uv.shape[0], 2), -5.0, 5.0, special=False))}


def _nt_util(grid_radians, uv, image, matrix, vis):
    return bool(np.any(uv != 0.0)) and grid_radians.shape[0] >= 2


def _nt_class(mask, pixel_scales, origin, uv, image, matrix, vis):
    return bool(np.any(uv != 0.0)) and int((~mask).sum()) >= 2


# ----------------------------------------------------------------------------------------------- util kernels

@bounded("C13", "dft-util-visibilities", gen=_gen_util, nontrivial=_nt_util)
def dft_util_visibilities(grid_radians, uv, image, matrix, vis):
    """C13: 'returns visibilities V_k = sum_p I_p exp(-2 pi i (x_p u_k + y_p v_k)) ... identically with and without
    preloaded transform tables' -- transformer_util.preload_real/imag_transforms, visibilities_via_preload_jit_from,
    visibilities_jit on arbitrary radian grids; bound: <= 9 points, <= 6 baselines (zero / repeated / pure-u / pure-v)."""
    from autoarray.operators import transformer_util as tu
    A = _operator(grid_radians, uv)
    want = A @ image
    scale = float(np.abs(image).sum())
    pr = tu.preload_real_transforms(grid_radians=grid_radians.copy(), uv_wavelengths=uv.copy())
    pi_ = tu.preload_imag_transforms(grid_radians=grid_radians.copy(), uv_wavelengths=uv.copy())
    if not _close(pr, A.real.T, 0.0) or not _close(pi_, A.imag.T, 0.0):
        return "preloaded tables != cos/sin(-2 pi (x u + y v)) per (pixel, baseline)"
    v_pre = tu.visibilities_via_preload_jit_from(image_1d=image.copy(), preloaded_reals=pr, preloaded_imags=pi_)
    v_dir = tu.visibilities_jit(image_1d=image.copy(), grid_radians=grid_radians.copy(), uv_wavelengths=uv.copy())
    if not _close(v_dir, want, scale):
        return "visibilities_jit != sum_p I_p exp(-2 pi i (x u + y v)): %r vs %r" % (np.asarray(v_dir), want)
    if not _close(v_pre, want, scale):
        return "visibilities_via_preload_jit_from != direct sum: %r vs %r" % (np.asarray(v_pre), want)
    return None


@bounded("C13", "dft-util-mapping-matrix-signed", gen=_gen_util, nontrivial=lambda grid_radians, uv, image, matrix, vis:
         bool(np.any(matrix < 0.0)))
def dft_util_mapping_matrix(grid_radians, uv, image, matrix, vis):
    """C13: 'The transformed mapping matrix equals this operator applied to each column of any real-valued matrix'
    (quantifier: 'real-valued mapping matrices of any sign') -- transformer_util.transformed_mapping_matrix_jit and
    transformed_mapping_matrix_via_preload_jit_from; bound: <= 9 pixels x <= 4 columns, <= 6 baselines."""
    from autoarray.operators import transformer_util as tu
    A = _operator(grid_radians, uv)
    want = A @ matrix
    scale = float(np.abs(matrix).sum())
    got = tu.transformed_mapping_matrix_jit(mapping_matrix=matrix.copy(), grid_radians=grid_radians.copy(),
                                            uv_wavelengths=uv.copy())
    if not _close(got, want, scale):
        return "transformed_mapping_matrix_jit != operator applied per column; max abs error %.3g" % float(
            np.abs(np.asarray(got) - want).max())
    pr = tu.preload_real_transforms(grid_radians=grid_radians.copy(), uv_wavelengths=uv.copy())
    pi_ = tu.preload_imag_transforms(grid_radians=grid_radians.copy(), uv_wavelengths=uv.copy())
    got = tu.transformed_mapping_matrix_via_preload_jit_from(mapping_matrix=matrix.copy(), preloaded_reals=pr,
                                                             preloaded_imags=pi_)
    if not _close(got, want, scale):
        return "transformed_mapping_matrix_via_preload_jit_from != operator applied per column; max abs error %.3g" % float(
            np.abs(np.asarray(got) - want).max())
    return None


@bounded("C13", "dft-util-adjoint", gen=_gen_util, nontrivial=_nt_util)
def dft_util_adjoint(grid_radians, uv, image, matrix, vis):
    """C13: 'the image returned from visibilities is the real part of the conjugate-transpose operator applied to
    them' -- transformer_util.image_via_jit_from; bound: <= 9 points, <= 6 baselines, complex visibilities as (re,im)."""
    from autoarray.operators import transformer_util as tu
    A = _operator(grid_radians, uv)
    v = vis[:, 0] + 1j * vis[:, 1]
    want = (A.conj().T @ v).real
    got = tu.image_via_jit_from(n_pixels=grid_radians.shape[0], grid_radians=grid_radians.copy(),
                                uv_wavelengths=uv.copy(), visibilities=vis.copy())
    if not _close(got, want, float(np.abs(v).sum())):
        return "image_via_jit_from != Re(A^H v): %r vs %r" % (np.asarray(got), want)
    return None


# ----------------------------------------------------------------------------------------------- TransformerDFT

def _setup(mask, pixel_scales, origin, uv, preload):
    import autoarray as aa
    mk = aa.Mask2D(mask=mask.copy(), pixel_scales=pixel_scales, origin=origin)
    t = _transformer_module().TransformerDFT(uv_wavelengths=uv.copy(), real_space_mask=mk, preload_transform=preload)
    return aa, mk, t


@bounded("C13", "dft-class-visibilities", gen=_gen_class, nontrivial=_nt_class)
def dft_class_visibilities(mask, pixel_scales, origin, uv, image, matrix, vis):
    """C13: 'For any real-space mask, image and set of (u,v) baselines the direct-Fourier transformer returns
    visibilities V_k = sum_p I_p exp(-2 pi i (x_p u_k + y_p v_k)), with (y_p, x_p) the unmasked pixel centres in
    radians, identically with and without preloaded transform tables' -- TransformerDFT.visibilities_from for
    preload_transform in {True, False}; bound: masks <= 3x3, anisotropic scales, non-zero origins, <= 6 baselines."""
    grid = _centres_radians(mask, pixel_scales, origin)
    A = _operator(grid, uv)
    want = A @ image[~mask]
    scale = float(np.abs(image[~mask]).sum())
    outs = []
    for preload in (True, False):
        aa, mk, t = _setup(mask, pixel_scales, origin, uv, preload)
        if not _close(np.asarray(t.grid), grid, 0.0):
            return "transformer grid != unmasked pixel centres in radians: %r vs %r" % (np.asarray(t.grid), grid)
        img = aa.Array2D(values=image.copy(), mask=mk)
        got = np.asarray(t.visibilities_from(image=img))
        if got.shape != (uv.shape[0],) or not np.iscomplexobj(got):
            return "visibilities are not one complex number per baseline (preload=%s): shape %r" % (preload, got.shape)
        if not _close(got, want, scale):
            return "visibilities_from (preload=%s) != direct sum: %r vs %r" % (preload, got, want)
        outs.append(got)
    if not np.allclose(outs[0], outs[1], rtol=1e-12, atol=1e-12 * (1.0 + scale)):
        return "preloaded and non-preloaded visibilities differ"
    # the caller re-uses its baseline buffer after building the transformer (next channel: uv *= r).  Whatever baselines the transformer
    # then stands for, it stands for ONE set: with and without preloaded tables the visibilities, and the adjoint image, agree
    outs, adj = [], []
    v = vis[:, 0] + 1j * vis[:, 1]
    for preload in (True, False):
        import autoarray as aa
        mk = aa.Mask2D(mask=mask.copy(), pixel_scales=pixel_scales, origin=origin)
        buf = uv.copy()
        t = _transformer_module().TransformerDFT(uv_wavelengths=buf, real_space_mask=mk, preload_transform=preload)
        buf *= 1.25
        outs.append(np.asarray(t.visibilities_from(image=aa.Array2D(values=image.copy(), mask=mk))))
        adj.append(np.asarray(t.image_from(visibilities=aa.Visibilities(visibilities=v.copy())).slim))
    if not np.allclose(outs[0], outs[1], rtol=1e-9, atol=1e-9 * (1.0 + scale)):
        return ("after the caller edited its baseline array in place (uv *= 1.25) the transformer answers differently with and without "
                "preloaded tables: %r vs %r" % (outs[0], outs[1]))
    if not np.allclose(adj[0], adj[1], rtol=1e-9, atol=1e-9 * (1.0 + float(np.abs(v).sum()))):
        return "after the caller edited its baseline array in place image_from differs with and without preloaded tables"
    return None


@bounded("C13", "dft-class-mapping-matrix-signed", gen=_gen_class,
         nontrivial=lambda mask, pixel_scales, origin, uv, image, matrix, vis: bool(np.any(matrix < 0.0)))
def dft_class_mapping_matrix(mask, pixel_scales, origin, uv, image, matrix, vis):
    """C13: 'The transformed mapping matrix equals this operator applied to each column of any real-valued matrix'
    (any sign) -- TransformerDFT.transform_mapping_matrix, preload on and off; bound: masks <= 3x3, <= 3 columns."""
    A = _operator(_centres_radians(mask, pixel_scales, origin), uv)
    want = A @ matrix
    for preload in (True, False):
        aa, mk, t = _setup(mask, pixel_scales, origin, uv, preload)
        got = np.asarray(t.transform_mapping_matrix(mapping_matrix=matrix.copy()))
        if not _close_rel(got, want, float(np.abs(matrix).sum())):
            return "transform_mapping_matrix (preload=%s) != operator applied per column; max abs error %.3g" % (
                preload, float(np.abs(got - want).max()))
    return None


@bounded("C13", "dft-class-image-from", gen=_gen_class, nontrivial=_nt_class)
def dft_class_image_from(mask, pixel_scales, origin, uv, image, matrix, vis):
    """C13: 'the image returned from visibilities is the real part of the conjugate-transpose operator applied to
    them' -- TransformerDFT.image_from(Visibilities) on the real-space mask (masked pixels zero), preload on/off, and the
    adjoint identity Re<A I, v> = <I, image_from(v)>; bound: masks <= 3x3, <= 6 baselines."""
    A = _operator(_centres_radians(mask, pixel_scales, origin), uv)
    v = vis[:, 0] + 1j * vis[:, 1]
    want_slim = (A.conj().T @ v).real
    want_native = np.zeros(mask.shape)
    want_native[~mask] = want_slim
    scale = float(np.abs(v).sum())
    for preload in (True, False):
        aa, mk, t = _setup(mask, pixel_scales, origin, uv, preload)
        out = t.image_from(visibilities=aa.Visibilities(visibilities=v.copy()))
        if not _close(np.asarray(out.native), want_native, scale):
            return "image_from (preload=%s) != Re(A^H v) on the mask: %r vs %r" % (preload, np.asarray(out.native), want_native)
        # "visibilities": also those that came out of arithmetic, slicing or item assignment on other Visibilities (data - model)
        other = aa.Visibilities(visibilities=(0.5 * v + (1.0 - 2.0j)).copy())
        derived = [("2 * (w - c)", (other - (1.0 - 2.0j)) * 2.0)]
        ed = aa.Visibilities(visibilities=(v + 1.0).copy())
        for k in range(len(v)):
            ed[k] = v[k]
        derived.append(("item-assigned", ed))
        if len(v) >= 1:
            longer = aa.Visibilities(visibilities=np.concatenate([v, v[:1] + 3.0]))
            derived.append(("sliced", longer[:len(v)]))
        for label, vis_obj in derived:
            if not _close(np.asarray(vis_obj), v, scale):
                continue                                          # (the derivation itself is not this check's business)
            o2 = t.image_from(visibilities=vis_obj)
            if not _close(np.asarray(o2.slim), want_slim, scale):
                return "image_from (preload=%s) of %s Visibilities equal to v != Re(A^H v): %r vs %r" % (preload, label, np.asarray(o2.slim), want_slim)
        if not _close(np.asarray(out.slim), want_slim, scale):
            return "image_from(...).slim != Re(A^H v)"
        fwd = np.asarray(t.visibilities_from(image=aa.Array2D(values=image.copy(), mask=mk)))
        lhs = float(np.real(np.vdot(v, fwd)))                   # Re(v^H A I)
        rhs = float(np.dot(image[~mask], np.asarray(out.slim)))
        if abs(lhs - rhs) > 1e-9 * (1.0 + scale * float(np.abs(image[~mask]).sum())):
            return "adjoint identity broken: Re<v, A I> = %r but <I, image_from(v)> = %r" % (lhs, rhs)
    return None


@bounded("C13", "dft-class-native-stored-image", gen=_gen_class, nontrivial=_nt_class)
def dft_class_native_stored_image(mask, pixel_scales, origin, uv, image, matrix, vis):
    """C13: 'For any real-space mask, image ... returns visibilities V_k = sum_p I_p exp(...), identically with and
    without preloaded transform tables' -- the image is an Array2D held in its native (2D) storage form
    (store_native=True); bound: masks <= 3x3, <= 6 baselines."""
    A = _operator(_centres_radians(mask, pixel_scales, origin), uv)
    want = A @ image[~mask]
    scale = float(np.abs(image[~mask]).sum())
    for preload in (False, True):
        aa, mk, t = _setup(mask, pixel_scales, origin, uv, preload)
        img = aa.Array2D(values=image.copy(), mask=mk, store_native=True)
        try:
            got = np.asarray(t.visibilities_from(image=img))
        except Exception as e:
            return "visibilities_from (preload=%s) raises %s: %s for a natively stored image" % (preload, type(e).__name__, e)
        if not _close(got, want, scale):
            return "visibilities_from (preload=%s) of a natively stored image != direct sum: %r vs %r" % (preload, got, want)
    return None


# ----------------------------------------------------------------------------------------------- normal equations

def _noise(rng, k):
    return np.array([[rng.choice([0.1, 0.5, 1.0, 2.0, 7.0]) * rng.uniform(0.5, 1.5) for _ in range(2)] for _ in range(k)])


def _gen_dv(rng, tier):
    for _ in range(gens.budget(tier, 2000, 40000)):
        k, n = rng.randint(1, 6), rng.randint(1, 4)
        yield {"t_real": gens.reals(rng, (k, n), -5, 5, special=False), "t_imag": gens.reals(rng, (k, n), -5, 5, special=False),
               "vis": _zeroed(rng, gens.reals(rng, (k, 2), -5, 5, special=False)), "noise": _noise(rng, k)}


def _gram(T, d, sig):
    """D_j = sum_k Re d_k Re T_kj / sr_k^2 + Im d_k Im T_kj / si_k^2 ;  F = Tr^T Wr Tr + Ti^T Wi Ti"""
    wr, wi = 1.0 / sig.real ** 2, 1.0 / sig.imag ** 2
    D = T.real.T @ (wr * d.real) + T.imag.T @ (wi * d.imag)
    F = T.real.T @ (wr[:, None] * T.real) + T.imag.T @ (wi[:, None] * T.imag)
    return D, F


@bounded("C13", "interferometer-util-data-vector", gen=_gen_dv)
def interferometer_util_data_vector(t_real, t_imag, vis, noise):
    """C13: 'The interferometer data vector ... equal[s] the noise-weighted real-plus-imaginary Gram products of the
    transformed mapping matrix' -- inversion_interferometer_util.data_vector_via_transformed_mapping_matrix_from on any
    complex matrix, complex data, complex positive noise (real != imaginary part); bound: <= 6 visibilities x <= 4 columns."""
    from autoarray.inversion.inversion.interferometer import inversion_interferometer_util as iu
    T = t_real + 1j * t_imag
    d = vis[:, 0] + 1j * vis[:, 1]
    sig = noise[:, 0] + 1j * noise[:, 1]
    D, _ = _gram(T, d, sig)
    got = iu.data_vector_via_transformed_mapping_matrix_from(transformed_mapping_matrix=T.copy(), visibilities=d.copy(),
                                                             noise_map=sig.copy())
    tol = 1e-9 * (1.0 + float((np.abs(T) * (np.abs(d) / np.minimum(sig.real, sig.imag) ** 2)[:, None]).sum()))
    if np.asarray(got).shape != D.shape or np.abs(np.asarray(got) - D).max() > tol:
        return "data vector != sum_k Re d Re T / sr^2 + Im d Im T / si^2: %r vs %r" % (np.asarray(got), D)
    return None


def _gen_inv(rng, tier):
    for m in _masks(rng, tier):
        ps, origin = _geometry(rng)
        uv = _baselines(rng)
        p = int((~m).sum())
        k = uv.shape[0]
        two = rng.random() < 0.4
        yield {"mask": m, "pixel_scales": ps, "origin": origin, "uv": uv,
               "matrix": _signed(rng, (p, rng.randint(1, 3))),
               "matrix2": _signed(rng, (p, rng.randint(1, 2))) if two else None,
               "vis": _zeroed(rng, gens.reals(rng, (k, 2), -5, 5, special=False)), "noise": _noise(rng, k),
               "preload": bool(rng.getrandbits(1))}


@bounded("C13", "interferometer-inversion-gram", gen=_gen_inv,
         nontrivial=lambda mask, pixel_scales, origin, uv, matrix, matrix2, vis, noise, preload: bool(np.any(uv != 0.0)))
def interferometer_inversion_gram(mask, pixel_scales, origin, uv, matrix, matrix2, vis, noise, preload):
    """C13: 'The interferometer data vector and curvature matrix built from it equal the noise-weighted
    real-plus-imaginary Gram products of the transformed mapping matrix' -- InversionInterferometerMapping(DatasetInterface
    (Visibilities, VisibilitiesNoiseMap, TransformerDFT), one or two regularised linear objects).data_vector /
    .curvature_matrix against Gram products of the inversion's own operated (transformed) mapping matrix, whose columns
    must be the linear objects' transformed matrices side by side; bound: masks <= 3x3, <= 6 baselines, <= 5 columns."""
    aa, mk, t = _setup(mask, pixel_scales, origin, uv, preload)
    d = vis[:, 0] + 1j * vis[:, 1]
    sig = noise[:, 0] + 1j * noise[:, 1]
    mats = [matrix] + ([matrix2] if matrix2 is not None else [])
    objs = [aa.m.MockLinearObj(parameters=mm.shape[1], mapping_matrix=mm.copy(),
                               regularization=aa.m.MockRegularization(regularization_matrix=np.eye(mm.shape[1])))
            for mm in mats]
    ds = aa.DatasetInterface(data=aa.Visibilities(visibilities=d.copy()),
                             noise_map=aa.VisibilitiesNoiseMap(visibilities=sig.copy()), transformer=t)
    inv = aa.InversionInterferometerMapping(dataset=ds, linear_obj_list=objs)
    T = np.asarray(inv.operated_mapping_matrix)
    n = sum(mm.shape[1] for mm in mats)
    if T.shape != (uv.shape[0], n):
        return "operated mapping matrix has shape %r, expected %r" % (T.shape, (uv.shape[0], n))
    parts = np.hstack([np.asarray(t.transform_mapping_matrix(mapping_matrix=mm.copy())) for mm in mats])
    if not _close(T, parts, float(np.abs(parts).sum())):
        return "operated mapping matrix != transformed mapping matrices of the linear objects side by side"
    D, F = _gram(T, d, sig)
    wmax = 1.0 / float(np.minimum(sig.real, sig.imag).min()) ** 2
    tol_d = 1e-9 * (1.0 + wmax * float(np.abs(T).sum()) * float(np.abs(d).max()))
    tol_f = 1e-9 * (1.0 + wmax * float(np.abs(T).sum()) ** 2)
    got_d, got_f = np.asarray(inv.data_vector), np.asarray(inv.curvature_matrix)
    if got_d.shape != D.shape or np.abs(got_d - D).max() > tol_d:
        return "data_vector != noise-weighted real+imag products: %r vs %r" % (got_d, D)
    if got_f.shape != F.shape or np.abs(got_f - F).max() > tol_f:
        return "curvature_matrix != Tr^T Wr Tr + Ti^T Wi Ti: %r vs %r" % (got_f, F)
    # the same statement in the other order of reads, on a fresh inversion: curvature matrix first, then the data vector and
    # the transformed mapping matrix; and everything once more on the first inversion
    objs2 = [aa.m.MockLinearObj(parameters=mm.shape[1], mapping_matrix=mm.copy(),
                                regularization=aa.m.MockRegularization(regularization_matrix=np.eye(mm.shape[1]))) for mm in mats]
    ds2 = aa.DatasetInterface(data=aa.Visibilities(visibilities=d.copy()), noise_map=aa.VisibilitiesNoiseMap(visibilities=sig.copy()), transformer=t)
    inv2 = aa.InversionInterferometerMapping(dataset=ds2, linear_obj_list=objs2)
    for label, i_ in (("curvature matrix read first", inv2), ("second read", inv)):
        f2 = np.asarray(i_.curvature_matrix)
        d2 = np.asarray(i_.data_vector)
        T2 = np.asarray(i_.operated_mapping_matrix)
        if f2.shape != F.shape or np.abs(f2 - F).max() > tol_f:
            return "%s: curvature_matrix != Tr^T Wr Tr + Ti^T Wi Ti" % label
        if d2.shape != D.shape or np.abs(d2 - D).max() > tol_d:
            return "%s: data_vector != noise-weighted real+imag products of the transformed mapping matrix: %r vs %r" % (label, d2, D)
        if not _close(T2, parts, float(np.abs(parts).sum())):
            return "%s: operated mapping matrix is no longer the transformed mapping matrices side by side" % label
    return None


# ----------------------------------------------------------------------------------------------- one transformer, many inputs

@bounded("C13", "dft-class-one-transformer-many-inputs", gen=_gen_class, nontrivial=_nt_class)
def dft_class_one_transformer_many_inputs(mask, pixel_scales, origin, uv, image, matrix, vis):
    """C13: 'the direct-Fourier transformer returns visibilities V_k = sum_p I_p exp(...) ... The transformed mapping matrix
    equals this operator applied to each column of any real-valued matrix, and the image returned from visibilities is the real
    part of the conjugate-transpose operator' -- for every input, whatever the SAME transformer object transformed before: one
    TransformerDFT (preload on / off) is given, one after the other, inputs that agree in shape and in every summary a memo could
    be keyed on (total sum, per-row sums, sorted values): a matrix, its column-reversed and row-rolled versions and a matrix with
    the same row sums; an image and its reversed version; visibilities and their reversed version; then the first of each
    again.  Every result against the operator; bound: masks <= 3x3, <= 3 columns, <= 6 baselines."""
    A = _operator(_centres_radians(mask, pixel_scales, origin), uv)
    p = int((~mask).sum())
    mats = [matrix, matrix[:, ::-1].copy(), np.roll(matrix, 1, axis=0)]
    same_rows = matrix.copy()
    if matrix.shape[1] >= 2:
        same_rows[:, 0], same_rows[:, 1] = matrix[:, 0] + 0.25, matrix[:, 1] - 0.25        # same row sums, same total
        mats.append(same_rows)
    onehot = np.zeros_like(matrix); onehot[np.arange(p), np.arange(p) % matrix.shape[1]] = 1.0
    mats += [onehot, onehot[:, ::-1].copy(), matrix]
    slim = image[~mask]
    ims = [slim, slim[::-1].copy(), slim]
    v = vis[:, 0] + 1j * vis[:, 1]
    vs = [v, v[::-1].copy(), v]
    for preload in (True, False):
        aa, mk, t = _setup(mask, pixel_scales, origin, uv, preload)
        for k, M in enumerate(mats):
            got = np.asarray(t.transform_mapping_matrix(mapping_matrix=M.copy()))
            if not _close_rel(got, A @ M, float(np.abs(M).sum())):
                return "call %d of transform_mapping_matrix on one transformer (preload=%s) != operator applied to THIS matrix; max abs error %.3g" % (
                    k + 1, preload, float(np.abs(got - A @ M).max()))
        W_ = matrix.copy()                      # one array object, refilled in place between two calls
        t.transform_mapping_matrix(mapping_matrix=W_)
        W_ *= -0.5
        W_[0, 0] += 1.0
        got = np.asarray(t.transform_mapping_matrix(mapping_matrix=W_))
        if not _close_rel(got, A @ W_, float(np.abs(W_).sum())):
            return "transform_mapping_matrix (preload=%s) called again with the same array object after it was refilled in place transforms its OLD content" % preload
        for k, I in enumerate(ims):
            got = np.asarray(t.visibilities_from(image=aa.Array2D(values=I.copy(), mask=mk)))
            if not _close(got, A @ I, float(np.abs(I).sum())):
                return "call %d of visibilities_from on one transformer (preload=%s) != A I for THIS image" % (k + 1, preload)
        for k, w in enumerate(vs):
            got = np.asarray(t.image_from(visibilities=aa.Visibilities(visibilities=w.copy())).slim)
            if not _close(got, (A.conj().T @ w).real, float(np.abs(w).sum())):
                return "call %d of image_from on one transformer (preload=%s) != Re(A^H v) for THESE visibilities" % (k + 1, preload)
    return None
