"""C15 class layer: aa.Preloads slots, reuse of one Preloads object over several inversions, factory choice between the
mapping and w-tilde formalisms (bounded stand-in; see docs/BOUNDED_GUIDE.md).

Everything is a relation between whole computations on the REAL classes: the same (JSON-able) inputs are turned into two or
more independent dataset / linear-object instances; one run computes afresh, the other is handed preloaded arrays taken from
an identical dataset (a third, separate instance)."""
import hashlib
import numpy as np
from pyvc.bounded import bounded
from pyvc import gens
from bounded.c04_normal_equations import (make_dataset, make_objects, settings, dataset_case, object_specs, ORDERS, SQUARE,
                                          NONSQUARE, close)
from bounded.c03_convolution import guarded

SLOTS = ["w_tilde", "curvature_matrix", "regularization_matrix", "log_det_regularization_matrix_term", "operated_mapping_matrix"]
PIECES = ["data_vector_mapper", "curvature_matrix_mapper_diag", "mapper_operated_mapping_matrix_dict",
          "linear_func_operated_mapping_matrix_dict", "data_linear_func_matrix_dict"]
OUTPUTS = ["data_vector", "curvature_matrix", "regularization_matrix", "reconstruction", "mapped_reconstructed_data",
           "regularization_term", "log_det_curvature_reg_matrix_term", "log_det_regularization_matrix_term"]
TOL = 1e-9


def outputs_of(aa, inv):
    """the observable results of an inversion, in a fixed access order; solver / Cholesky rejections are recorded as such"""
    out = {}
    for name in OUTPUTS:
        try:
            v = getattr(inv, name)
            out[name] = np.array(v, dtype=float)
        except aa.exc.InversionException:
            out[name] = "InversionException"
    return out


def compare(ref, got, what, tol=TOL):
    """data vector / curvature / regularization matrix: relative to their largest entry.  Quantities that pass through the
    linear solve (reconstruction, mapped data, regularization term, log-determinant of F+H) are compared with a tolerance
    scaled by the condition number of the fresh F+H (a 1e-16 change of summation order is amplified by it) and skipped when
    it exceeds 1e8."""
    cond = None
    if not isinstance(ref["curvature_matrix"], str) and not isinstance(ref["regularization_matrix"], str):
        try:
            cond = float(np.linalg.cond(ref["curvature_matrix"] + ref["regularization_matrix"]))
        except Exception:
            cond = None
    solved = ("reconstruction", "mapped_reconstructed_data", "regularization_term", "log_det_curvature_reg_matrix_term")
    for name in OUTPUTS:
        a, b = ref[name], got[name]
        rtol = tol
        if name in solved:
            if cond is None or not np.isfinite(cond) or cond > 1e8:
                continue
            rtol = max(tol, cond * 1e-12)
        if isinstance(a, str) or isinstance(b, str):
            if not (isinstance(a, str) and isinstance(b, str)):
                return "%s: %s is %s afresh but %s here" % (what, name, a if isinstance(a, str) else "a value",
                                                             b if isinstance(b, str) else "a value")
            continue
        scale = max(float(np.max(np.abs(a))) if a.size else 0.0, 1e-300)
        if name == "regularization_term" and not isinstance(ref["reconstruction"], str):
            scale = max(scale, float(np.max(np.abs(ref["regularization_matrix"])) * np.sum(np.abs(ref["reconstruction"])) ** 2))
        if name.startswith("log_det"):
            scale = max(scale, 1.0) * max(1, ref["curvature_matrix"].shape[0])
        if not close(b, a, rtol=rtol, scale=scale):
            return "%s: %s differs (max |diff| %.3g, scale %.3g, cond %.3g): afresh %r, here %r" % (
                what, name, float(np.max(np.abs(a - b))) if a.shape == b.shape else float("nan"), scale,
                cond if cond is not None else float("nan"), a, b)
    return None


def fingerprint(arr):
    a = np.ascontiguousarray(np.asarray(arr))
    return hashlib.sha1(a.tobytes()).hexdigest() + str(a.shape) + str(a.dtype)


def source_values(aa, mask, data, noise, kernel, objects, diag, use_w, names, donor=None):
    """preloadable arrays computed on a separate, identical dataset with separate, identical linear objects
    (donor: a list that receives those linear objects)"""
    mk, ds = make_dataset(aa, mask, data, noise, kernel)
    donor_objs = make_objects(aa, mk, objects)
    if donor is not None:
        donor.extend(donor_objs)
    inv = aa.Inversion(dataset=ds, linear_obj_list=donor_objs, settings=settings(aa, use_w, diag))
    vals = {}
    for n in names:
        if n == "w_tilde":
            vals[n] = ds.w_tilde
        elif n == "data_vector_mapper":
            vals[n] = inv._data_vector_mapper
        elif n == "curvature_matrix_mapper_diag":
            vals[n] = inv._curvature_matrix_mapper_diag
        elif n == "curvature_matrix":
            vals[n] = np.array(inv.curvature_matrix)          # taken before anything adds the regularization matrix to it
        else:
            vals[n] = getattr(inv, n)
    return vals


def has_mapper(objects):
    return any(sp["kind"] != "func" for sp in objects)


def run(aa, mask, data, noise, kernel, objects, diag, use_w, preloads=None, ds_mk=None):
    mk, ds = ds_mk if ds_mk is not None else make_dataset(aa, mask, data, noise, kernel)
    kw = {} if preloads is None else {"preloads": preloads}
    inv = aa.Inversion(dataset=ds, linear_obj_list=make_objects(aa, mk, objects), settings=settings(aa, use_w, diag), **kw)
    return inv, outputs_of(aa, inv)


# ----------------------------------------------------------------------------------------------- generators

def base_case(rng, regime, order, k):
    shapes = NONSQUARE if regime.startswith("nonsquare") else SQUARE
    case = dataset_case(rng, regime, shapes[k % len(shapes)])
    n = int((~case["mask"]).sum())
    case["objects"] = object_specs(rng, order, n, signed_func=False)
    case["diag"] = rng.choice([1e-3, 0.37])
    return case


MIXES = ["m", "mf", "fm", "mm", "mfm", "fmf", "mmf", "d", "dfm"]


def _gen_slots(rng, tier):
    k = 0
    for rep in range(gens.budget(tier, 4, 60)):
        for order in MIXES:
            for regime in (("nonneg-square",) if rep % 3 else ("signed-square",)):
                case = base_case(rng, regime, order, k)
                k += 1
                for use_w in (True, False):
                    # all 2^5 subsets for the first pass over the mixes, a rotating eighth afterwards
                    for bits in range(32):
                        if rep > 0 and (bits + k) % 8:
                            continue
                        c = dict(case)
                        c["use_w_tilde"] = use_w
                        c["slots"] = [s for i, s in enumerate(SLOTS) if (bits >> i) & 1]
                        yield c


@bounded("C15", "preload-slot-subsets", gen=_gen_slots,
         nontrivial=lambda mask, data, noise, kernel, objects, diag, use_w_tilde, slots: len(slots) > 0)
@guarded
def preload_slot_subsets(mask, data, noise, kernel, objects, diag, use_w_tilde, slots):
    """C15: 'Supplying preloaded quantities (w-tilde tables, curvature matrix, regularization matrix and its log-determinant,
    operated mapping matrix) that were computed from an identical dataset and linear objects yields the same data vector,
    reconstruction, mapped data and evidence terms as computing everything afresh, in both formalisms and for every mix of
    linear objects' -- every subset of the 5 slots x use_w_tilde on/off x 9 object mixes (1..3 objects: rectangular / Delaunay mappers, function lists), square PSFs 1x1/3x3/5x5
    non-negative and signed, masks: random interiors <= 2x3; all 32 subsets for the first 9 datasets, a rotating eighth after."""
    import autoarray as aa
    _, ref = run(aa, mask, data, noise, kernel, objects, diag, use_w_tilde)
    vals = source_values(aa, mask, data, noise, kernel, objects, diag, use_w_tilde, slots)
    pre = aa.Preloads(**vals)
    _, got = run(aa, mask, data, noise, kernel, objects, diag, use_w_tilde, preloads=pre)
    return compare(ref, got, "preloads %r, use_w_tilde=%s" % (slots, use_w_tilde))


def _witness_piece_case():
    m = np.array([[False, False]])
    return {"mask": m, "data": np.array([[1.0, 2.0]]), "noise": np.ones((1, 2)), "kernel": np.array([[1.0]]),
            "objects": [{"kind": "mapper", "shape": (3, 3), "sub": 1, "seed": 0, "distort": 0.0, "reg": 1.0},
                        {"kind": "func", "matrix": np.array([[1.0], [1.0]])}], "diag": 1e-3}


def _gen_pieces(use_w, names_pool, must=None):
    def gen(rng, tier):
        k = 0
        if not use_w and must:
            c = _witness_piece_case()
            c["use_w_tilde"] = False
            c["slots"] = [must]
            yield c
        for rep in range(gens.budget(tier, 6, 80)):
            for order in ["mf", "m", "fm", "mm", "mfm", "fmf", "mmf", "df"]:
                case = base_case(rng, "signed-square" if rep % 4 == 3 else "nonneg-square", order, k)
                k += 1
                for bits in range(1, 2 ** len(names_pool)):
                    if rep > 0 and (bits + k) % 4:
                        continue
                    names = [s for i, s in enumerate(names_pool) if (bits >> i) & 1]
                    if must:
                        names = [must] + names
                    if "f" not in order and any("linear_func" in n for n in names):
                        continue
                    c = dict(case)
                    c["use_w_tilde"] = use_w
                    c["slots"] = names
                    yield c
    return gen


def _pieces_check(mask, data, noise, kernel, objects, diag, use_w_tilde, slots):
    import autoarray as aa
    _, ref = run(aa, mask, data, noise, kernel, objects, diag, use_w_tilde)
    donor = []
    try:
        vals = source_values(aa, mask, data, noise, kernel, objects, diag, use_w_tilde, slots, donor=donor)
    except IndexError:
        # InversionImagingMapping._curvature_matrix_mapper_diag indexes a per-mapper block with the global
        # no_regularization_index_list; there is then no preloadable value to supply, so the statement's premise is empty
        return None
    if any(v is None for v in vals.values()):
        return None
    pre = aa.Preloads(**vals)
    _, got = run(aa, mask, data, noise, kernel, objects, diag, use_w_tilde, preloads=pre)
    msg = compare(ref, got, "preloads %r, use_w_tilde=%s" % (slots, use_w_tilde))
    if msg:
        return msg
    # the same preloads used by an inversion whose linear objects are PARTLY the very objects the preloads came from (kept
    # between fits) and partly re-created equal ones -- in every split, and with all of them kept
    mk, ds = make_dataset(aa, mask, data, noise, kernel)
    for k in range(1, len(donor) + 1):
        fresh = make_objects(aa, mk, objects)
        for label, objs in (("first %d kept" % k, donor[:k] + fresh[k:]), ("last %d kept" % k, fresh[:len(donor) - k] + donor[len(donor) - k:])):
            inv = aa.Inversion(dataset=ds, linear_obj_list=objs, settings=settings(aa, use_w_tilde, diag), preloads=pre)
            msg = compare(ref, outputs_of(aa, inv), "preloads %r, use_w_tilde=%s, linear objects: %s from the preloading inversion, the rest re-created" % (
                slots, use_w_tilde, label))
            if msg:
                return msg
    return None


_PDOC = """C15: 'Supplying preloaded quantities ... computed from an identical dataset and linear objects yields the same data
    vector, reconstruction, mapped data and evidence terms as computing everything afresh, in both formalisms and for every mix
    of linear objects' (quantifier: all subsets of the public preload slots) -- the remaining public inversion slots, filled
    exactly as Preloads.set_curvature_matrix / set_linear_func_inversion_dicts fill them (inversion._data_vector_mapper,
    ._curvature_matrix_mapper_diag, .mapper_operated_mapping_matrix_dict, .linear_func_operated_mapping_matrix_dict,
    .data_linear_func_matrix_dict of an identical inversion); 8 object mixes, square PSFs non-negative and signed; all subsets
    for the first 8 datasets, a rotating quarter afterwards; sub-domain: """


def _register_pieces(name, use_w, pool, must, sub):
    def fn(mask, data, noise, kernel, objects, diag, use_w_tilde, slots):
        return _pieces_check(mask, data, noise, kernel, objects, diag, use_w_tilde, slots)
    fn.__name__ = name.replace("-", "_")
    fn.__doc__ = _PDOC + sub
    return bounded("C15", name, gen=_gen_pieces(use_w, pool, must),
                   nontrivial=lambda mask, data, noise, kernel, objects, diag, use_w_tilde, slots: len(slots) > 0)(guarded(fn))


_register_pieces("preload-pieces-w-tilde-formalism", True, PIECES, None, "use_w_tilde=True, non-empty subsets of the 5 slots.")
_register_pieces("preload-pieces-mapping-formalism", False, PIECES[1:], None,
                 "use_w_tilde=False, non-empty subsets of the 4 slots other than data_vector_mapper.")
_register_pieces("preload-data-vector-mapper-mapping-formalism", False, PIECES[1:], "data_vector_mapper",
                 "use_w_tilde=False, data_vector_mapper together with every subset of the other 4 slots.")


def _gen_reuse(rng, tier):
    k = 0
    for rep in range(gens.budget(tier, 16, 200)):
        for order in MIXES:          # "m" first: a single regularization takes the in-place curvature += regularization path
            case = base_case(rng, "signed-square" if rep % 4 == 3 else "nonneg-square", order, k)
            k += 1
            for use_w in (True, False):
                c = dict(case)
                c["use_w_tilde"] = use_w
                bits = 31 if rep == 0 else rng.randrange(32) | 2          # curvature_matrix always preloaded
                c["slots"] = [s for i, s in enumerate(SLOTS) if (bits >> i) & 1]
                c["same_dataset"] = bool(rep % 2)
                yield c


@bounded("C15", "preloads-reused-over-three-inversions", gen=_gen_reuse,
         nontrivial=lambda mask, data, noise, kernel, objects, diag, use_w_tilde, slots, same_dataset: True)
@guarded
def preloads_reused_over_three_inversions(mask, data, noise, kernel, objects, diag, use_w_tilde, slots, same_dataset):
    """C15: 'Reusing one set of preloads for any number of successive inversions on the same inputs gives the identical outcome
    every time, and a preloaded curvature matrix is never changed by the inversions that use it' -- one Preloads object
    (curvature_matrix always set, other slots varied), 3 successive inversions (same or re-created dataset instance), every
    output compared with the fresh computation and with the first use; sha1 of the preloaded curvature matrix bytes before and
    after each inversion; 9 mixes x both formalisms x 16 (200) datasets."""
    import autoarray as aa
    _, ref = run(aa, mask, data, noise, kernel, objects, diag, use_w_tilde)
    vals = source_values(aa, mask, data, noise, kernel, objects, diag, use_w_tilde, slots)
    pre = aa.Preloads(**vals)
    fp0 = fingerprint(pre.curvature_matrix)
    ds_mk = make_dataset(aa, mask, data, noise, kernel) if same_dataset else None
    first = None
    for i in range(3):
        inv, got = run(aa, mask, data, noise, kernel, objects, diag, use_w_tilde, preloads=pre, ds_mk=ds_mk)
        _ = inv.curvature_reg_matrix                       # the sum that is formed in place
        _ = inv.curvature_matrix
        if fingerprint(pre.curvature_matrix) != fp0:
            return "the preloaded curvature matrix was changed by inversion %d using it" % (i + 1)
        msg = compare(ref, got, "inversion %d sharing one Preloads %r, use_w_tilde=%s" % (i + 1, slots, use_w_tilde))
        if msg:
            return msg
        if first is None:
            first = got
        else:
            msg = compare(first, got, "inversion %d vs inversion 1 sharing one Preloads" % (i + 1), tol=1e-12)
            if msg:
                return msg
    return None


@bounded("C15", "preloads-shared-by-interleaved-inversions", gen=_gen_reuse,
         nontrivial=lambda mask, data, noise, kernel, objects, diag, use_w_tilde, slots, same_dataset: True)
@guarded
def preloads_shared_by_interleaved_inversions(mask, data, noise, kernel, objects, diag, use_w_tilde, slots, same_dataset):
    """C15: 'Supplying preloaded quantities ... yields the same data vector, reconstruction, mapped data and evidence terms as
    computing everything afresh ... Reusing one set of preloads for any number of successive inversions on the same inputs gives
    the identical outcome every time' -- the outcome is what the inversion reports WHENEVER it is asked: three inversions are
    built on one Preloads object (curvature_matrix always preloaded) and their outputs are read lazily, round-robin across the
    three, each in its own rotated order (reconstruction first / curvature_matrix between reconstruction and the evidence terms
    / evidence terms first), then every output once more; all equal to the fresh computation; 9 mixes x both formalisms x 16
    (200) datasets."""
    import autoarray as aa
    _, ref = run(aa, mask, data, noise, kernel, objects, diag, use_w_tilde)
    vals = source_values(aa, mask, data, noise, kernel, objects, diag, use_w_tilde, slots)
    pre = aa.Preloads(**vals)
    ds_mk = make_dataset(aa, mask, data, noise, kernel) if same_dataset else None
    invs = []
    for i in range(3):
        mk, ds = ds_mk if ds_mk is not None else make_dataset(aa, mask, data, noise, kernel)
        invs.append(aa.Inversion(dataset=ds, linear_obj_list=make_objects(aa, mk, objects), settings=settings(aa, use_w_tilde, diag), preloads=pre))
    orders = [["reconstruction", "curvature_matrix", "log_det_curvature_reg_matrix_term", "data_vector", "regularization_matrix",
               "mapped_reconstructed_data", "regularization_term", "log_det_regularization_matrix_term"],
              ["log_det_curvature_reg_matrix_term", "regularization_term", "curvature_matrix", "reconstruction", "data_vector",
               "log_det_regularization_matrix_term", "mapped_reconstructed_data", "regularization_matrix"],
              list(OUTPUTS)]
    got = [dict(), dict(), dict()]

    def read(i, name):
        try:
            return np.array(getattr(invs[i], name), dtype=float)
        except aa.exc.InversionException:
            return "InversionException"

    for step in range(len(OUTPUTS)):
        for i in range(3):
            got[i][orders[i][step]] = read(i, orders[i][step])
    for i in range(3):
        msg = compare(ref, got[i], "inversion %d of 3 sharing one Preloads %r, outputs read round-robin in the order %r, use_w_tilde=%s" % (
            i + 1, slots, orders[i][:3], use_w_tilde))
        if msg:
            return msg
    for i in range(3):
        again = {name: read(i, name) for name in OUTPUTS}
        msg = compare(ref, again, "inversion %d of 3 sharing one Preloads, every output read a second time" % (i + 1))
        if msg:
            return msg
    return None


def _gen_reuse_pieces(rng, tier):
    k = 0
    for rep in range(gens.budget(tier, 10, 120)):
        for order in ["m", "mm", "mf", "fm", "mfm", "d", "df"]:
            case = base_case(rng, "signed-square" if rep % 4 == 3 else "nonneg-square", order, k)
            k += 1
            for use_w in (True, False):
                pool = PIECES if use_w else PIECES     # data_vector_mapper included in both formalisms
                bits = (2 ** len(pool) - 1) if rep == 0 else (rng.randrange(2 ** len(pool)) | 1)       # data_vector_mapper always preloaded
                names = [s for i, s in enumerate(pool) if (bits >> i) & 1]
                if "f" not in order:
                    names = [n for n in names if "linear_func" not in n]
                c = dict(case)
                c["use_w_tilde"] = use_w
                c["slots"] = names
                c["same_dataset"] = bool(rep % 2)
                yield c


@bounded("C15", "preload-pieces-reused-over-three-inversions", gen=_gen_reuse_pieces,
         nontrivial=lambda mask, data, noise, kernel, objects, diag, use_w_tilde, slots, same_dataset: len(slots) > 1)
@guarded
def preload_pieces_reused_over_three_inversions(mask, data, noise, kernel, objects, diag, use_w_tilde, slots, same_dataset):
    """C15: 'Reusing one set of preloads for any number of successive inversions on the same inputs gives the identical outcome
    every time' -- one Preloads object holding the per-mapper pieces (data_vector_mapper always, the other inversion slots
    varied), 3 successive inversions, each solved (reconstruction, mapped data, evidence terms read) before the next is built;
    every output compared with the fresh computation and with the first use -- a solver or assembly step that writes into an
    array it was handed shows as a different second outcome; 7 mixes x both formalisms x 10 (120) datasets."""
    import autoarray as aa
    _, ref = run(aa, mask, data, noise, kernel, objects, diag, use_w_tilde)
    try:
        vals = source_values(aa, mask, data, noise, kernel, objects, diag, use_w_tilde, slots)
    except IndexError:
        return None                      # see _pieces_check: no preloadable value exists for this mix
    if any(v is None for v in vals.values()):
        return None
    pre = aa.Preloads(**vals)
    ds_mk = make_dataset(aa, mask, data, noise, kernel) if same_dataset else None
    first = None
    for i in range(3):
        inv, got = run(aa, mask, data, noise, kernel, objects, diag, use_w_tilde, preloads=pre, ds_mk=ds_mk)
        msg = compare(ref, got, "inversion %d sharing one Preloads %r, use_w_tilde=%s" % (i + 1, slots, use_w_tilde))
        if msg:
            return msg
        if first is None:
            first = got
        else:
            msg = compare(first, got, "inversion %d vs inversion 1 sharing one Preloads %r" % (i + 1, slots), tol=1e-12)
            if msg:
                return msg
    return None


def _gen_factory(regimes):
    def gen(rng, tier):
        k = 0
        for rep in range(gens.budget(tier, 16, 200)):
            for order in MIXES + ["f", "ff"]:
                case = base_case(rng, regimes[k % len(regimes)], order, k)
                k += 1
                yield case
    return gen


def _factory_check(mask, data, noise, kernel, objects, diag):
    import autoarray as aa
    from autoarray.inversion.inversion.factory import inversion_imaging_from
    mk, ds = make_dataset(aa, mask, data, noise, kernel)
    ref_inv = aa.InversionImagingMapping(dataset=ds, linear_obj_list=make_objects(aa, mk, objects), settings=settings(aa, False, diag))
    ref = outputs_of(aa, ref_inv)
    seen = set()
    for s_w in (True, False):
        for p_w in (None, True, False):
            mk2, ds2 = make_dataset(aa, mask, data, noise, kernel)
            inv = inversion_imaging_from(dataset=ds2, linear_obj_list=make_objects(aa, mk2, objects), settings=settings(aa, s_w, diag),
                                         preloads=aa.Preloads(use_w_tilde=p_w))
            seen.add(type(inv).__name__)
            msg = compare(ref, outputs_of(aa, inv), "factory chose %s (settings.use_w_tilde=%s, preloads.use_w_tilde=%s)" % (
                type(inv).__name__, s_w, p_w), tol=1e-7)
            if msg:
                return msg
    return None


_FDOC = """C15: "The factory's choice between formalisms changes only performance, never values" -- inversion_imaging_from over
    settings.use_w_tilde in {True, False} x preloads.use_w_tilde in {None, True, False}: whichever class is returned, data vector,
    curvature / regularization matrix, reconstruction, mapped data and evidence terms equal those of InversionImagingMapping built
    directly (rtol 1e-7: two different summation orders feed a linear solve); 11 object mixes incl. function-list-only; """


def _register_factory(name, regimes, sub):
    def fn(mask, data, noise, kernel, objects, diag):
        return _factory_check(mask, data, noise, kernel, objects, diag)
    fn.__name__ = name.replace("-", "_")
    fn.__doc__ = _FDOC + sub
    return bounded("C15", name, gen=_gen_factory(regimes), nontrivial=lambda mask, data, noise, kernel, objects, diag: has_mapper(objects))(guarded(fn))


_register_factory("factory-choice-nonneg-square-psf", ["nonneg-square"], "non-negative square PSFs 1x1, 3x3, 5x5.")
_register_factory("factory-choice-signed-or-nonsquare-psf", ["signed-square", "nonsquare-nonneg", "nonsquare-signed"],
                  "SIGNED square PSFs and NON-SQUARE PSFs 1x3..5x1 (the sub-domain where C04's w-tilde findings live).")
