"""C04 class layer: aa.Inversion in the mapping and w-tilde formalisms and the w-tilde util functions against the normal
equations written out from the property statement (bounded stand-in; see docs/BOUNDED_GUIDE.md).

Oracle (no library linear algebra):
    C[t, s] = K[t - s + half]                      (independent convolution matrix on the mask, from bounded/c03_convolution.py)
    B       = C @ [M_1 | M_2 | ...]                (column-wise blurred mapping matrix, objects in list order)
    D       = B^T N^-1 d,   F = B^T N^-1 B  (+ the configured value on the diagonal entries of objects without regularization)
    W       = C^T N^-1 C,   w_data = C^T N^-1 d    (the noise-weighted PSF overlaps of the w-tilde formalism)
"""
import itertools
import numpy as np
from pyvc.bounded import bounded
from pyvc import gens
from bounded.c03_convolution import conv_matrix, embed, signed_kernel, random_inner, random_matrix, maxerr, guarded

RTOL = 1e-8
SQUARE = [(3, 3), (1, 1), (5, 5)]
NONSQUARE = [(1, 3), (3, 1), (3, 5), (5, 3), (1, 5), (5, 1)]


STATS = {"reconstructions_compared": 0}


def close(a, b, rtol=RTOL, scale=None):
    a = np.asarray(a, dtype=float)
    b = np.asarray(b, dtype=float)
    if a.shape != b.shape or not np.all(np.isfinite(a)):
        return False
    s = max(float(np.max(np.abs(b))) if b.size else 0.0, 1e-300) if scale is None else scale
    return bool(np.all(np.abs(a - b) <= rtol * s))


# ----------------------------------------------------------------------------------------------- building library objects

def make_dataset(aa, mask, data, noise, kernel):
    """masked Imaging dataset whose PSF is exactly `kernel` (no normalisation), data / noise given as native frames"""
    mk = aa.Mask2D(mask=mask.copy(), pixel_scales=1.0)
    ds = aa.Imaging(
        data=aa.Array2D(values=data.copy(), mask=mk),
        noise_map=aa.Array2D(values=noise.copy(), mask=mk),
        psf=aa.Kernel2D.no_mask(values=kernel.copy(), pixel_scales=1.0),
        use_normalized_psf=False,
    )
    return mk, ds


def make_objects(aa, mk, specs):
    """linear objects from JSON-able specs:
       {"kind": "mapper", "shape": (my, mx), "sub": s, "seed": n, "distort": x, "reg": coefficient or None}
           rectangular mapper over the over-sampled image grid displaced by seeded Gaussian offsets (source-plane distortion)
       {"kind": "delaunay", "points": (p, 2) array, "sub", "seed", "distort", "reg"}   Delaunay mapper on the given mesh points
       {"kind": "func", "matrix": (n_data, p) array}   linear function list without regularization"""
    objs = []
    for sp in specs:
        if sp["kind"] in ("mapper", "delaunay"):
            if sp.get("adaptive"):
                # adaptive over-sampling: a different sub-size in different pixels (not sorted, not uniform)
                ra = np.random.default_rng(int(sp["seed"]) + 17)
                n_un = int(np.size(np.asarray(mk)) - np.sum(np.asarray(mk)))
                sizes = ra.integers(1, 4, size=n_un)
                if n_un >= 2 and len(set(sizes.tolist())) == 1:
                    sizes[0] = sizes[0] % 3 + 1
                osamp = aa.OverSamplerUniform(mask=mk, sub_size=aa.Array2D(values=sizes.astype(float), mask=mk))
            else:
                osamp = aa.OverSamplerUniform(mask=mk, sub_size=int(sp["sub"]))
            g = np.asarray(osamp.over_sampled_grid, dtype=float)
            r = np.random.default_rng(int(sp["seed"]))
            grid = aa.Grid2DIrregular(values=g + float(sp["distort"]) * r.normal(size=g.shape))
            if sp["kind"] == "mapper":
                mesh = aa.mesh.Rectangular(shape=tuple(int(v) for v in sp["shape"]))
                mg = mesh.mapper_grids_from(mask=mk, border_relocator=None, source_plane_data_grid=grid)
            else:
                pts = aa.Grid2DIrregular(values=np.asarray(sp["points"], dtype=float).copy())
                mg = aa.mesh.Delaunay().mapper_grids_from(mask=mk, border_relocator=None, source_plane_data_grid=grid,
                                                          source_plane_mesh_grid=pts)
            reg = None if sp["reg"] is None else aa.reg.Constant(coefficient=float(sp["reg"]))
            objs.append(aa.Mapper(mapper_grids=mg, over_sampler=osamp, regularization=reg))
        else:
            m = np.asarray(sp["matrix"], dtype=float).copy()
            objs.append(aa.m.MockLinearObjFuncList(parameters=m.shape[1], grid=None, mapping_matrix=m))
    return objs


def settings(aa, use_w_tilde, diag):
    return aa.SettingsInversion(use_w_tilde=use_w_tilde, use_positive_only_solver=False,
                                no_regularization_add_to_curvature_diag_value=diag)


def normal_equations(mask, data, noise, kernel, matrices, noreg, diag):
    """(B, D, F) of the statement"""
    C = conv_matrix(mask, kernel)
    M = np.hstack(matrices)
    B = C @ M
    s2 = noise[~mask] ** 2
    d = data[~mask]
    D = np.array([sum(B[i, j] * d[i] / s2[i] for i in range(B.shape[0])) for j in range(B.shape[1])])
    F = (B / s2[:, None]).T @ B
    F = 0.5 * (F + F.T)
    for i in noreg:
        F[i, i] += diag
    return B, D, F


# ----------------------------------------------------------------------------------------------- generators

def kernel_for(rng, regime, ks):
    if regime in ("nonneg-square", "signed-func", "nonsquare-nonneg"):
        return signed_kernel(rng, ks, nonneg=True)
    return signed_kernel(rng, ks)


def kshapes_for(regime):
    return NONSQUARE if regime.startswith("nonsquare") else SQUARE


def dataset_case(rng, regime, ks, inner=None, extra=None):
    while inner is None:
        inner = random_inner(rng, 2, 3)
        if (~inner).sum() < 2:
            inner = None
    extra = tuple(rng.choice([0, 0, 1, 2]) for _ in range(4)) if extra is None else extra
    mask = embed(inner, ks, extra)
    return {"mask": mask, "data": gens.reals(rng, mask.shape, -3.0, 3.0, special=False),
            "noise": gens.reals(rng, mask.shape, 0.3, 2.5, special=False), "kernel": kernel_for(rng, regime, ks)}


ORDERS = ["m", "mf", "fm", "mm", "mfm", "fmf", "mmf", "d", "fd", "dm", "mfd", "ffm", "fmm", "mmm", "f", "ff"]


def object_specs(rng, order, n, signed_func):
    specs = []
    shapes = [(3, 3), (3, 4), (4, 3), (4, 4), (3, 5), (5, 3)]
    rng.shuffle(shapes)
    for k, c in enumerate(order):
        if c == "m":
            reg = rng.choice([1.0, 0.5, 2.0, 1.0, None]) if len(order) > 1 else rng.choice([1.0, 0.5, 2.0])
            specs.append({"kind": "mapper", "shape": shapes[k], "sub": rng.choice([1, 2, 2, 3]), "adaptive": rng.random() < 0.3, "seed": rng.randrange(10 ** 6),
                          "distort": rng.choice([0.0, 0.2, 0.5, 1.0]), "reg": reg})
        elif c == "d":
            reg = rng.choice([1.0, 0.5, 2.0, None]) if len(order) > 1 else rng.choice([1.0, 0.5, 2.0])
            pts = np.array([[rng.uniform(-2.5, 2.5), rng.uniform(-2.5, 2.5)] for _ in range(rng.randint(4, 7))])
            specs.append({"kind": "delaunay", "points": pts, "sub": rng.choice([1, 2, 2, 3]), "adaptive": rng.random() < 0.3, "seed": rng.randrange(10 ** 6),
                          "distort": rng.choice([0.0, 0.2, 0.5]), "reg": reg})
        else:
            specs.append({"kind": "func", "matrix": random_matrix(rng, n, rng.randint(1, 2), "signed" if signed_func else "nonneg")})
    return specs


def _inversion_witness(regime):
    """smallest hand-made member of the sub-domain first, so that the first replay file of a failing run is readable"""
    one_mapper = [{"kind": "mapper", "shape": (3, 3), "sub": 1, "seed": 0, "distort": 0.0, "reg": 1.0}]
    if regime.startswith("nonsquare"):
        m = np.ones((3, 5), dtype=bool)
        m[1, 1] = m[1, 2] = False
        k = np.array([[1.0, 2.0, 3.0]]) if regime.endswith("nonneg") else np.array([[1.0, -2.0, 3.0]])
        return {"mask": m, "data": np.ones((3, 5)), "noise": np.ones((3, 5)), "kernel": k, "objects": one_mapper, "diag": 1e-3}
    m = np.ones((3, 4), dtype=bool)
    m[1, 1] = m[1, 2] = False
    case = {"mask": m, "data": np.ones((3, 4)), "noise": np.ones((3, 4)), "objects": one_mapper, "diag": 1e-3,
            "kernel": np.array([[0.0, 0.0, 0.0], [1.0, 2.0, 1.0], [0.0, 0.0, 0.0]])}
    if regime == "signed-square":
        case["kernel"] = np.array([[0.0, 0.0, 0.0], [1.0, -2.0, 1.0], [0.0, 0.0, 0.0]])
    if regime == "signed-func":
        case["objects"] = one_mapper + [{"kind": "func", "matrix": np.array([[-1.0], [1.0]])}]
    return case


def _gen_inversion(regime):
    def gen(rng, tier):
        shapes = kshapes_for(regime)
        k = 0
        yield _inversion_witness(regime)
        for rep in range(gens.budget(tier, 50, 500)):
            for order in ORDERS:
                if regime == "signed-func" and "f" not in order:
                    continue
                ks = shapes[k % len(shapes)]
                k += 1
                case = dataset_case(rng, regime, ks)
                n = int((~case["mask"]).sum())
                case["objects"] = object_specs(rng, order, n, signed_func=(regime == "signed-func"))
                case["diag"] = rng.choice([1e-3, 0.37, 1e-8])
                yield case
    return gen


def _nontrivial_inv(mask, data, noise, kernel, objects, diag):
    return (~mask).sum() >= 2


# ----------------------------------------------------------------------------------------------- the class-layer check

def _inversion_check(mask, data, noise, kernel, objects, diag):
    import autoarray as aa
    mk, ds = make_dataset(aa, mask, data, noise, kernel)
    if not np.array_equal(np.asarray(ds.psf.native), kernel):
        return "dataset PSF differs from the PSF supplied with use_normalized_psf=False"
    out = {}
    for use_w in (False, True):
        objs = make_objects(aa, mk, objects)
        inv = aa.Inversion(dataset=ds, linear_obj_list=objs, settings=settings(aa, use_w, diag))
        all_func = all(sp["kind"] == "func" for sp in objects)
        # whatever the factory's policy, both formalisms are exercised (function-list-only inversions have no w-tilde form)
        if use_w and not all_func and not isinstance(inv, aa.InversionImagingWTilde):
            inv = aa.InversionImagingWTilde(dataset=ds, w_tilde=ds.w_tilde, linear_obj_list=objs, settings=settings(aa, True, diag))
        if not use_w and not isinstance(inv, aa.InversionImagingMapping):
            inv = aa.InversionImagingMapping(dataset=ds, linear_obj_list=objs, settings=settings(aa, False, diag))
        name = type(inv).__name__
        mats = [np.asarray(o.mapping_matrix, dtype=float) for o in objs]
        noreg = []
        pos = 0
        for o, sp in zip(objs, objects):
            if sp["kind"] == "func" or sp["reg"] is None:
                noreg += list(range(pos, pos + o.params))
            pos += o.params
        B, D, F = normal_equations(mask, data, noise, kernel, mats, noreg, diag)
        dv = np.array(inv.data_vector, dtype=float)              # a copy: the cached array itself is re-read after the solve
        if not close(dv, D, scale=max(float(np.abs(B).max() * np.abs(data[~mask] / noise[~mask] ** 2).sum()), 1e-300)):
            return "%s: data_vector != B^T N^-1 d (max err %.3g): got %r want %r" % (name, maxerr(dv, D), dv, D)
        cm = np.array(inv.curvature_matrix, dtype=float)
        if not close(cm, F):
            return "%s: curvature_matrix != B^T N^-1 B (+%g on unregularized diagonal) (max err %.3g): got %r want %r" % (
                name, diag, maxerr(cm, F), cm, F)
        if not close(cm, cm.T, rtol=1e-12, scale=float(np.abs(F).max())):
            return "%s: curvature_matrix is not symmetric (max asym %.3g)" % (name, maxerr(cm, cm.T))
        omm = np.asarray(inv.operated_mapping_matrix, dtype=float)
        if not close(omm, B):
            return "%s: operated_mapping_matrix != column-wise blurred mapping matrix in object order (max err %.3g)" % (
                name, maxerr(omm, B))
        H = np.asarray(inv.regularization_matrix, dtype=float)
        cond = np.linalg.cond(F + H)
        rec = mapped = None
        if cond < 1e7:
            try:
                rec = np.asarray(inv.reconstruction, dtype=float)
                mapped = np.asarray(inv.mapped_reconstructed_data, dtype=float)
            except aa.exc.InversionException:
                rec = mapped = None     # the solver's own rejection (singular system / constant solution): outside C04
        # the normal equations are what the inversion reports at any time, not only before it has been solved
        dv2, cm2 = np.asarray(inv.data_vector, dtype=float), np.asarray(inv.curvature_matrix, dtype=float)
        if not close(dv2, D, scale=max(float(np.abs(B).max() * np.abs(data[~mask] / noise[~mask] ** 2).sum()), 1e-300)):
            return "%s: data_vector read again after reconstruction and mapped data is no longer B^T N^-1 d (max err %.3g): %r vs %r" % (name, maxerr(dv2, D), dv2, D)
        if not (np.array_equal(dv2, dv) and np.array_equal(cm2, cm)):
            return ("%s: data_vector / curvature_matrix read again after regularization_matrix, reconstruction and mapped data differ from the "
                    "first read (max %.3g / %.3g): the curvature matrix is then no longer B^T N^-1 B" % (name, maxerr(dv2, dv), maxerr(cm2, cm)))
        out[use_w] = (name, dv, cm, rec, mapped, cond, B)
    (n0, d0, c0, r0, m0, cond, B), (n1, d1, c1, r1, m1, _, _) = out[False], out[True]
    if not close(d1, d0, scale=float(np.abs(d0).max()) + 1e-300):
        return "formalisms disagree on data_vector: %r vs %r" % (d0, d1)
    if not close(c1, c0):
        return "formalisms disagree on curvature_matrix (max %.3g)" % maxerr(c0, c1)
    if r0 is not None and r1 is not None:
        STATS["reconstructions_compared"] += 1
        tol = max(1e-8, cond * 1e-12)
        if not close(r1, r0, rtol=tol):
            return "formalisms disagree on reconstruction (cond %.3g): %r vs %r" % (cond, r0, r1)
        if not close(m1, m0, rtol=tol, scale=max(float(np.abs(B).max() * np.abs(r0).sum()), 1e-300)):
            return "formalisms disagree on mapped_reconstructed_data (cond %.3g): %r vs %r" % (cond, m0, m1)
    return None


_DOC = """C04: 'the data vector equals B^T N^-1 d and the curvature matrix equals B^T N^-1 B, where B is the column-wise
    PSF-blurred mapping matrix of all objects and N the diagonal noise covariance, plus only the configured small diagonal
    term on parameters without regularization. The mapping-matrix formalism and the w-tilde formalism return the same data
    vector, curvature matrix, reconstruction and mapped reconstructed data ... The curvature matrix is symmetric and its
    blocks follow the order of the linear objects' -- aa.Inversion with use_w_tilde off and on, 1..3 linear objects in 16
    orders (Delaunay mappers on 4..7 seeded mesh points, rectangular mappers 3x3..4x4,3x5,5x3 on seeded distorted source grids, sub-size 1..3, with/without regularization;
    function lists with 1..2 columns), masks: random interiors <= 2x3 padded by the kernel half-widths + 0..2; sub-domain: """


def _register(name, regime, subdomain):
    def fn(mask, data, noise, kernel, objects, diag):
        return _inversion_check(mask, data, noise, kernel, objects, diag)
    fn.__name__ = name.replace("-", "_")
    fn.__doc__ = _DOC + subdomain
    return bounded("C04", name, gen=_gen_inversion(regime), nontrivial=_nontrivial_inv)(guarded(fn))


inversion_nonneg_square_psf = _register(
    "inversion-nonneg-square-psf", "nonneg-square", "non-negative PSFs 3x3, 1x1, 5x5; non-negative function-list matrices.")
inversion_signed_square_psf = _register(
    "inversion-signed-square-psf", "signed-square", "SIGNED PSFs 3x3, 1x1, 5x5; non-negative function-list matrices.")
inversion_nonsquare_nonneg_psf = _register(
    "inversion-nonsquare-nonneg-psf", "nonsquare-nonneg", "non-negative NON-SQUARE PSFs 1x3, 3x1, 3x5, 5x3, 1x5, 5x1.")
inversion_nonsquare_signed_psf = _register(
    "inversion-nonsquare-signed-psf", "nonsquare-signed", "SIGNED NON-SQUARE PSFs 1x3, 3x1, 3x5, 5x3, 1x5, 5x1.")
inversion_signed_function_lists = _register(
    "inversion-signed-function-lists", "signed-func", "non-negative square PSFs; function lists with SIGNED mapping matrices.")


# =============================================================================================== util layer
# autoarray/inversion/inversion/imaging/inversion_imaging_util.py against explicit sums

def _natives(mask, data, noise):
    """what the inversion classes hand to the util functions: native frames with zeros at masked pixels"""
    return np.where(mask, 0.0, data), np.where(mask, 0.0, noise), np.argwhere(~mask)


def w_data_oracle(mask, data, noise, kernel):
    """w_data[s] = sum_t K[t - s + half] d_t / sigma_t^2 over unmasked t"""
    C = conv_matrix(mask, kernel)
    wgt = data[~mask] / noise[~mask] ** 2
    n = C.shape[0]
    return np.array([sum(C[t, s] * wgt[t] for t in range(n)) for s in range(n)])


def w_oracle(mask, noise, kernel):
    """W[s, s'] = sum_t K[t - s + half] K[t - s' + half] / sigma_t^2 over unmasked t"""
    C = conv_matrix(mask, kernel)
    s2 = noise[~mask] ** 2
    n = C.shape[0]
    W = np.zeros((n, n))
    for a in range(n):
        for b in range(n):
            W[a, b] = sum(C[t, a] * C[t, b] / s2[t] for t in range(n))
    return W


def _witness_cases(regime):
    """smallest inputs first: two horizontally / vertically adjacent pixels with a generous margin"""
    if regime.startswith("nonsquare"):
        m = np.ones((3, 5), dtype=bool)
        m[1, 1] = m[1, 2] = False
        yield {"mask": m, "data": np.where(m, 0.0, 1.0) + 0.0, "noise": np.ones((3, 5)), "kernel": np.array([[1.0, 2.0, 3.0]])}
        m = np.ones((5, 3), dtype=bool)
        m[1, 1] = m[2, 1] = False
        yield {"mask": m, "data": np.ones((5, 3)), "noise": np.ones((5, 3)), "kernel": np.array([[1.0], [2.0], [3.0]])}
    if regime.endswith("signed"):
        m = np.ones((3, 4), dtype=bool)
        m[1, 1] = m[1, 2] = False
        yield {"mask": m, "data": np.ones((3, 4)), "noise": np.ones((3, 4)),
               "kernel": np.array([[0.0, 0.0, 0.0], [1.0, -2.0, 1.0], [0.0, 0.0, 0.0]])}


def _util_kernel(rng, regime, ks):
    return signed_kernel(rng, ks, nonneg=regime.endswith("nonneg"))


def _gen_util(regime, with_mapping=False):
    def gen(rng, tier):
        shapes = NONSQUARE if regime.startswith("nonsquare") else SQUARE
        cases = list(_witness_cases(regime))
        inners = [m for m in gens.all_masks(gens.budget(tier, 4, 6), min_unmasked=1)]
        rng.shuffle(inners)
        def more():
            k = 0
            for inner in inners:
                ks = shapes[k % len(shapes)]
                k += 1
                yield dataset_case(rng, regime, ks, inner=inner, extra=(0, 0, 0, 0))
            for _ in range(gens.budget(tier, 1500, 20000)):
                yield dataset_case(rng, regime, rng.choice(shapes), inner=random_inner(rng, 3, 3))
        for case in itertools.chain(cases, more()):
            case["kernel"] = case["kernel"] if "kernel" in case else None
            if case["kernel"] is None or (regime.endswith("nonneg") and (case["kernel"] < 0).any()):
                case["kernel"] = _util_kernel(rng, regime, case["kernel"].shape)
            if with_mapping:
                n = int((~case["mask"]).sum())
                case.update(unique_mapping(rng, n, "0"))
                case.update(unique_mapping(rng, n, "1"))
            yield case
    return gen


def unique_mapping(rng, n, tag):
    """a random 'unique mappings' table: each data pixel -> 0..3 distinct pixelization pixels with real weights"""
    pix = rng.randint(1, 5)
    L = min(3, pix)
    idx = -np.ones((n, L), dtype=int)
    w = np.zeros((n, L))
    lengths = np.zeros(n, dtype=int)
    for i in range(n):
        k = rng.randint(0 if n > 1 else 1, L)
        chosen = rng.sample(range(pix), k)
        lengths[i] = k
        for j, p in enumerate(chosen):
            idx[i, j] = p
            w[i, j] = rng.choice([rng.uniform(0.05, 1.0), rng.uniform(0.05, 1.0), rng.uniform(-1.0, 1.0)])
    return {"to_pix_" + tag: idx, "weights_" + tag: w, "lengths_" + tag: lengths, "pixels_" + tag: pix}


def dense_mapping(to_pix, weights, lengths, pixels):
    M = np.zeros((to_pix.shape[0], pixels))
    for i in range(to_pix.shape[0]):
        for j in range(int(lengths[i])):
            M[i, int(to_pix[i, j])] += weights[i, j]
    return M


def _w_data_check(mask, data, noise, kernel):
    from autoarray.inversion.inversion.imaging import inversion_imaging_util as u
    dn, nn, idx = _natives(mask, data, noise)
    got = np.asarray(u.w_tilde_data_imaging_from(image_native=dn.copy(), noise_map_native=nn.copy(), kernel_native=kernel.copy(),
                                                 native_index_for_slim_index=idx.copy()), dtype=float)
    want = w_data_oracle(mask, data, noise, kernel)
    scale = float(np.abs(kernel).sum() * np.abs(data[~mask] / noise[~mask] ** 2).max()) + 1e-300
    if not close(got, want, scale=scale):
        return "w_tilde_data != sum_t K[t-s+half] d_t/sigma_t^2 (max err %.3g): got %r want %r" % (maxerr(got, want), got, want)
    return None


def _w_curvature_check(mask, data, noise, kernel):
    from autoarray.inversion.inversion.imaging import inversion_imaging_util as u
    dn, nn, idx = _natives(mask, data, noise)
    got = np.asarray(u.w_tilde_curvature_imaging_from(noise_map_native=nn.copy(), kernel_native=kernel.copy(),
                                                      native_index_for_slim_index=idx.copy()), dtype=float)
    want = w_oracle(mask, noise, kernel)
    scale = float((np.abs(kernel).sum() ** 2) / (noise[~mask] ** 2).min())
    if not close(got, want, scale=scale):
        return "w_tilde_curvature != sum_t K[t-s+half] K[t-s'+half]/sigma_t^2 (max err %.3g): got %r want %r" % (
            maxerr(got, want), got, want)
    return None


def _w_preload_check(mask, data, noise, kernel, to_pix_0, weights_0, lengths_0, pixels_0, to_pix_1, weights_1, lengths_1, pixels_1):
    from autoarray.inversion.inversion.imaging import inversion_imaging_util as u
    dn, nn, idx = _natives(mask, data, noise)
    pre, ind, lens = u.w_tilde_curvature_preload_imaging_from(noise_map_native=nn.copy(), kernel_native=kernel.copy(),
                                                              native_index_for_slim_index=idx.copy())
    pre, ind, lens = np.asarray(pre, dtype=float), np.asarray(ind).astype(int), np.asarray(lens).astype(int)
    W = w_oracle(mask, noise, kernel)
    n = W.shape[0]
    scale = float((np.abs(kernel).sum() ** 2) / (noise[~mask] ** 2).min())
    # (1) F = M^T W M with M = identity must give back W itself
    ident = u.curvature_matrix_via_w_tilde_curvature_preload_imaging_from(
        curvature_preload=pre.copy(), curvature_indexes=ind.copy(), curvature_lengths=lens.copy(),
        data_to_pix_unique=np.arange(n).reshape(n, 1), data_weights=np.ones((n, 1)), pix_lengths=np.ones(n, dtype=int), pix_pixels=n)
    if not close(ident, W, scale=scale):
        return "curvature from the w-tilde preload with the identity mapping != W (max err %.3g): got %r want %r" % (
            maxerr(ident, W), np.asarray(ident), W)
    # (2) a general unique-mappings table
    M0 = dense_mapping(to_pix_0, weights_0, lengths_0, pixels_0)
    M1 = dense_mapping(to_pix_1, weights_1, lengths_1, pixels_1)
    got = u.curvature_matrix_via_w_tilde_curvature_preload_imaging_from(
        curvature_preload=pre.copy(), curvature_indexes=ind.copy(), curvature_lengths=lens.copy(),
        data_to_pix_unique=to_pix_0.copy(), data_weights=weights_0.copy(), pix_lengths=lengths_0.copy(), pix_pixels=pixels_0)
    want = M0.T @ W @ M0
    if not close(got, want, scale=scale * max(1.0, float(np.abs(M0).sum()) ** 2)):
        return "curvature via preload != M^T W M (max err %.3g): got %r want %r" % (maxerr(got, want), np.asarray(got), want)
    # (3) off-diagonal block between two mappers, assembled as the w-tilde inversion does (upper + lower^T)
    kw = dict(curvature_preload=pre.copy(), curvature_indexes=ind.copy(), curvature_lengths=lens.copy())
    o01 = u.curvature_matrix_off_diags_via_w_tilde_curvature_preload_imaging_from(
        data_to_pix_unique_0=to_pix_0.copy(), data_weights_0=weights_0.copy(), pix_lengths_0=lengths_0.copy(), pix_pixels_0=pixels_0,
        data_to_pix_unique_1=to_pix_1.copy(), data_weights_1=weights_1.copy(), pix_lengths_1=lengths_1.copy(), pix_pixels_1=pixels_1, **kw)
    o10 = u.curvature_matrix_off_diags_via_w_tilde_curvature_preload_imaging_from(
        data_to_pix_unique_0=to_pix_1.copy(), data_weights_0=weights_1.copy(), pix_lengths_0=lengths_1.copy(), pix_pixels_0=pixels_1,
        data_to_pix_unique_1=to_pix_0.copy(), data_weights_1=weights_0.copy(), pix_lengths_1=lengths_0.copy(), pix_pixels_1=pixels_0, **kw)
    got = np.asarray(o01) + np.asarray(o10).T
    want = M0.T @ W @ M1
    if not close(got, want, scale=scale * max(1.0, float(np.abs(M0).sum() * np.abs(M1).sum()))):
        return "off-diagonal block via preload != M0^T W M1 (max err %.3g): got %r want %r" % (maxerr(got, want), got, want)
    return None


_UDOC = """C04: 'The mapping-matrix formalism and the w-tilde (noise-weighted PSF overlap) formalism return the same data vector,
    curvature matrix ... for every PSF shape and sign pattern' -- util layer, each entry against the explicit finite sum of the
    statement (W = C^T N^-1 C, w_data = C^T N^-1 d, C[t,s] = K[t-s+half], half-width of each axis taken from that axis);
    inputs as the inversion classes pass them (native frames, zeros at masked pixels); bound: every interior pattern <= 4 (6)
    cells at minimal padding + random interiors <= 3x3 with 0..2 extra padding; """


def _register_util(name, fn_check, regime, what, with_mapping=False):
    if with_mapping:
        def fn(mask, data, noise, kernel, to_pix_0, weights_0, lengths_0, pixels_0, to_pix_1, weights_1, lengths_1, pixels_1):
            return fn_check(mask, data, noise, kernel, to_pix_0, weights_0, lengths_0, pixels_0, to_pix_1, weights_1, lengths_1, pixels_1)
    else:
        def fn(mask, data, noise, kernel):
            return fn_check(mask, data, noise, kernel)
    fn.__name__ = name.replace("-", "_")
    fn.__doc__ = _UDOC + what
    return bounded("C04", name, gen=_gen_util(regime, with_mapping), nontrivial=lambda mask, **kw: (~mask).sum() >= 2)(guarded(fn))


_register_util("util-w-tilde-data-square-psf", _w_data_check, "square-signed",
               "w_tilde_data_imaging_from, signed square PSFs 3x3, 1x1, 5x5.")
_register_util("util-w-tilde-data-nonsquare-psf", _w_data_check, "nonsquare-signed",
               "w_tilde_data_imaging_from, signed NON-SQUARE PSFs 1x3, 3x1, 3x5, 5x3, 1x5, 5x1.")
_register_util("util-w-tilde-curvature-square-psf", _w_curvature_check, "square-signed",
               "w_tilde_curvature_imaging_from (dense W), signed square PSFs.")
_register_util("util-w-tilde-curvature-nonsquare-psf", _w_curvature_check, "nonsquare-signed",
               "w_tilde_curvature_imaging_from (dense W), signed NON-SQUARE PSFs.")
_register_util("util-w-tilde-preload-nonneg-square-psf", _w_preload_check, "square-nonneg",
               "w_tilde_curvature_preload_imaging_from consumed by curvature_matrix_via_w_tilde_curvature_preload_imaging_from and "
               "curvature_matrix_off_diags_via_w_tilde_curvature_preload_imaging_from (identity and random unique-mapping tables "
               "with signed weights): F = M^T W M; non-negative square PSFs.", with_mapping=True)
_register_util("util-w-tilde-preload-signed-square-psf", _w_preload_check, "square-signed",
               "same as util-w-tilde-preload-nonneg-square-psf with SIGNED square PSFs.", with_mapping=True)
_register_util("util-w-tilde-preload-nonsquare-psf", _w_preload_check, "nonsquare-nonneg",
               "same as util-w-tilde-preload-nonneg-square-psf with non-negative NON-SQUARE PSFs.", with_mapping=True)


def _gen_dv(rng, tier):
    yield {"blurred": np.array([[-1.0]]), "image": np.array([2.0]), "noise_slim": np.array([0.5]),
           **unique_mapping(rng, 1, "0"), "w_data": np.array([3.0])}
    for _ in range(gens.budget(tier, 3000, 40000)):
        n = rng.randint(1, 7)
        case = {"blurred": random_matrix(rng, n, rng.randint(1, 5), rng.choice(["signed", "nonneg", "signed"])),
                "image": gens.reals(rng, (n,), -5.0, 5.0), "noise_slim": gens.reals(rng, (n,), 0.2, 3.0, special=False),
                "w_data": gens.reals(rng, (n,), -5.0, 5.0)}
        case.update(unique_mapping(rng, n, "0"))
        yield case


@bounded("C04", "util-data-vectors", gen=_gen_dv, nontrivial=lambda blurred, **kw: blurred.shape[0] >= 2)
@guarded
def util_data_vectors(blurred, image, noise_slim, w_data, to_pix_0, weights_0, lengths_0, pixels_0):
    """C04: 'the data vector equals B^T N^-1 d' -- data_vector_via_blurred_mapping_matrix_from(B, d, sigma)[j] ==
    sum_i d_i B_ij / sigma_i^2 for every real B (signed, zeros, 1e8-scale data), and data_vector_via_w_tilde_data_imaging_from
    == M^T w_data for a unique-mappings table M (signed weights); bound: 1..7 data pixels, 1..5 columns, 3000 (40000) seeded."""
    from autoarray.inversion.inversion.imaging import inversion_imaging_util as u
    got = np.asarray(u.data_vector_via_blurred_mapping_matrix_from(blurred_mapping_matrix=blurred.copy(), image=image.copy(),
                                                                   noise_map=noise_slim.copy()), dtype=float)
    want = np.array([sum(image[i] * blurred[i, j] / noise_slim[i] ** 2 for i in range(blurred.shape[0]))
                     for j in range(blurred.shape[1])])
    scale = float(np.abs(blurred).max() * np.abs(image / noise_slim ** 2).sum()) + 1e-300
    if not close(got, want, scale=scale):
        return "data_vector_via_blurred_mapping_matrix_from != sum_i d_i B_ij/sigma_i^2: got %r want %r" % (got, want)
    got = np.asarray(u.data_vector_via_w_tilde_data_imaging_from(
        w_tilde_data=w_data.copy(), data_to_pix_unique=to_pix_0.copy(), data_weights=weights_0.copy(), pix_lengths=lengths_0.copy(),
        pix_pixels=pixels_0), dtype=float)
    M = dense_mapping(to_pix_0, weights_0, lengths_0, pixels_0)
    want = np.array([sum(M[i, p] * w_data[i] for i in range(M.shape[0])) for p in range(pixels_0)])
    scale = float(np.abs(M).max() * np.abs(w_data).sum()) + 1e-300
    if not close(got, want, scale=scale):
        return "data_vector_via_w_tilde_data_imaging_from != M^T w_data: got %r want %r" % (got, want)
    return None


def _gen_big_mesh(rng, tier):
    # index-width escalation: a mesh of more than 2**15 source pixels (182 x 182 = 33 124) under a handful of data pixels, so that the
    # pure-Python kernels stay fast; the data pixels map to source pixels on both sides of index 32 768
    for _ in range(gens.budget(tier, 3, 12)):
        n = 4
        src = np.array([[rng.uniform(-0.99, -0.8), rng.uniform(-0.99, 0.99)] for _ in range(2)]        # bottom rows: the highest indices
                       + [[rng.uniform(0.0, 0.99), rng.uniform(-0.99, 0.99)]] + [[-0.995, 0.995]])
        yield {"source": src, "w_data": np.array([rng.choice([1.0, -2.0, 0.5, 3.0]) for _ in range(n)])}


@bounded("C04", "w-tilde-data-vector-mesh-beyond-32768", gen=_gen_big_mesh)
def w_tilde_data_vector_big_mesh(source, w_data):
    """C04: 'the mapping-matrix formalism and the w-tilde formalism return the same data vector' for every mesh size -- a real
    MapperRectangular on a 182 x 182 mesh (33 124 parameters) under a 2 x 2 block of data pixels: the sparse tables the w-tilde formalism
    works from (mapper.unique_mappings) put every data pixel's weight on the same parameter as the mapping matrix does, and
    data_vector_via_w_tilde_data_imaging_from on those tables equals M^T w; bound: 3 (12) seeded placements."""
    import autoarray as aa
    from autoarray.inversion.inversion.imaging import inversion_imaging_util as u
    mask = np.ones((4, 4), dtype=bool)
    mask[1:3, 1:3] = False
    mk = aa.Mask2D(mask=mask, pixel_scales=(1.0, 1.0))
    over = aa.OverSamplerUniform(mask=mk, sub_size=1)
    mg = aa.mesh.Rectangular(shape=(182, 182)).mapper_grids_from(mask=mk, source_plane_data_grid=aa.Grid2DIrregular(values=source.copy()),
                                                                 border_relocator=None)
    mp = aa.Mapper(mapper_grids=mg, over_sampler=over, regularization=None)
    M = np.asarray(mp.mapping_matrix, dtype=float)
    if M.shape != (4, 33124) or not (M.max(axis=1) > 0).all() or int(np.argmax(M, axis=1).max()) < 32768:
        return None                                   # the placement did not reach beyond index 32 768: nothing to compare
    um = mp.unique_mappings
    got = np.asarray(u.data_vector_via_w_tilde_data_imaging_from(
        w_tilde_data=w_data.copy(), data_to_pix_unique=np.asarray(um.data_to_pix_unique), data_weights=np.asarray(um.data_weights),
        pix_lengths=np.asarray(um.pix_lengths), pix_pixels=int(mp.params)), dtype=float)
    want = M.T @ w_data
    if got.shape != want.shape or not np.allclose(got, want, rtol=1e-12, atol=1e-12):
        bad = np.argwhere(~np.isclose(got, want, rtol=1e-12, atol=1e-12)).reshape(-1)[:4].tolist()
        return ("w-tilde data vector on the unique-mapping tables of a 182 x 182 mesh differs from M^T w at parameters %r: %r vs %r "
                "(tables map the data pixels to %r, the mapping matrix to %r)" % (
                    bad, got[bad].tolist(), want[bad].tolist(), np.asarray(um.data_to_pix_unique)[:, 0].tolist(), np.argmax(M, axis=1).tolist()))
    return None
