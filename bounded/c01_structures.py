"""C01 class layer: Array2D / Grid2D / VectorYX2D / Array1D / Grid1D in both storage modes and the index lists a mask
publishes (bounded stand-in; see docs/BOUNDED_GUIDE.md).

Oracles are written with numpy boolean indexing (`values[~mask]` is row-major by definition of C order) and never with
the repo's own slim/native kernels."""
import numpy as np
from pyvc.bounded import bounded
from pyvc import gens


def _gen(rng, tier):
    for m in gens.all_masks(gens.budget(tier, 8, 12), min_unmasked=1):
        yield {"mask": m, "values": gens.reals(rng, m.shape), "store_native": bool(rng.getrandbits(1))}
    for _ in range(gens.budget(tier, 40, 1000)):
        m = gens.random_mask(rng, 7, 7, min_unmasked=1)
        yield {"mask": m, "values": gens.reals(rng, m.shape), "store_native": bool(rng.getrandbits(1))}


@bounded("C01", "array2d-native-input", gen=_gen, nontrivial=lambda mask, values, store_native: 0 < mask.sum() < mask.size)
def array2d_native_input(mask, values, store_native):
    """C01: 'the slim form lists exactly the values of the unmasked pixels in row-major order, and the native form holds
    those same values at their original pixel positions with every masked position equal to zero, whichever form was
    supplied at construction' -- Array2D from a native array; bound: all masks <= 8 (12) cells + random <= 7x7."""
    import autoarray as aa
    mk = aa.Mask2D(mask=mask.copy(), pixel_scales=1.0)
    arr = aa.Array2D(values=values.copy(), mask=mk, store_native=store_native)
    want_slim = values[~mask]
    want_native = np.where(mask, 0.0, values)
    if not np.array_equal(np.asarray(arr.slim), want_slim):
        return "slim != unmasked values in row-major order: %r vs %r" % (np.asarray(arr.slim), want_slim)
    if not np.array_equal(np.asarray(arr.native), want_native):
        return "native != values with masked positions zeroed"
    arr2 = aa.Array2D(values=want_slim.copy(), mask=mk, store_native=store_native)
    if not np.array_equal(np.asarray(arr2.native), want_native) or not np.array_equal(np.asarray(arr2.slim), want_slim):
        return "slim-input construction disagrees with native-input construction"
    return None


# ------------------------------------------------------------------------------------------------ shared helpers

# shapes for the exhaustive part: every parity / aspect combination, rows and columns of length one, non-square both ways
_SHAPES_Q = [(1, 1), (1, 2), (2, 1), (1, 3), (3, 1), (2, 2), (1, 5), (5, 1), (2, 3), (3, 2), (2, 4), (4, 2), (3, 3)]
_SHAPES_T = _SHAPES_Q + [(1, 7), (7, 1), (2, 5), (5, 2), (2, 6), (6, 2), (3, 4), (4, 3)]


def _mask_stream(rng, tier, nq, nt, hmax=7, wmax=6):
    """every mask (>= 1 unmasked pixel) of the small shapes, then seeded random masks up to hmax x wmax (some with a
    masked outer ring removed = unmasked pixels on the outer ring are the default here, some fully unmasked)"""
    shapes = _SHAPES_T if tier == "thorough" else _SHAPES_Q
    for m in gens.all_masks(shapes=shapes, min_unmasked=1):
        yield m
    for k in range(gens.budget(tier, nq, nt)):
        if k % 10 == 9:
            h, w = rng.randint(1, hmax), rng.randint(1, wmax)
            yield np.zeros((h, w), dtype=bool)                       # nothing masked
        else:
            yield gens.random_mask(rng, hmax, wmax, min_unmasked=1)


def _nontrivial_mask(mask, **_):
    return 0 < mask.sum() < mask.size


def _plain(x):
    """the values of a structure as a plain ndarray (through the public ``.array`` attribute)"""
    a = x.array
    if type(a) is not np.ndarray:
        return None
    return a


def _expect(label, struct, want, shape):
    a = _plain(struct)
    if a is None:
        return "%s: .array is not a plain numpy array (%r)" % (label, type(struct.array))
    if a.shape != tuple(shape):
        return "%s: stored shape %r, expected %r" % (label, a.shape, tuple(shape))
    if not np.array_equal(a, want, equal_nan=True):
        return "%s: values %r, expected %r" % (label, a.tolist(), np.asarray(want).tolist())
    if not np.array_equal(np.asarray(struct), want, equal_nan=True):
        return "%s: np.asarray(structure) differs from structure.array" % label
    return None


def _check_forms(label, obj, want_slim, want_native, store_native, deep=True):
    """`obj` was built with the given storage mode; every way of asking for a form must give the oracle form"""
    stored = want_native if store_native else want_slim
    slim, native = obj.slim, obj.native
    forms = [("stored", obj, stored), (".slim", slim, want_slim), (".native", native, want_native),
             (".slim.native", slim.native, want_native),           # slim -> native
             (".native.slim", native.slim, want_slim)]             # native -> slim
    if deep:
        forms += [(".slim.native.slim", slim.native.slim, want_slim),      # slim -> native -> slim == slim
                  (".native.slim.native", native.slim.native, want_native)]
    for lab, s, want in forms:
        msg = _expect("%s %s" % (label, lab), s, want, want.shape)
        if msg:
            return msg
    return None


# ------------------------------------------------------------------------------------------------ Array2D


def _gen_array2d(rng, tier):
    for m in _mask_stream(rng, tier, 200, 3000):
        yield {"mask": m, "values": gens.reals(rng, m.shape)}


@bounded("C01", "array2d-forms-both-modes", gen=_gen_array2d, nontrivial=_nontrivial_mask)
def array2d_forms_both_modes(mask, values):
    """C01: 'the slim form lists exactly the values of the unmasked pixels in row-major order (top row first, left to
    right), and the native form holds those same values at their original pixel positions with every masked position
    equal to zero, whichever form was supplied at construction ... converting slim to native and back returns the
    identical slim values, and converting native to slim and back returns the native values with masked positions
    zeroed' -- Array2D, native and slim input x store_native False/True, .slim/.native/.array and their compositions;
    bound: every mask of 13 (21) shapes <= 9 (12) cells + 200 (3000) random masks <= 7x6."""
    import autoarray as aa
    mk = aa.Mask2D(mask=mask.copy(), pixel_scales=(1.0, 2.0), origin=(0.5, -1.0))
    want_slim = values[~mask]
    want_native = np.where(mask, 0.0, values)
    for store_native in (False, True):
        for form, inp in (("native", values), ("slim", want_slim)):
            given = inp.copy()
            obj = aa.Array2D(values=given, mask=mk, store_native=store_native)
            if bool(obj.store_native) != store_native:
                return "Array2D(%s input, store_native=%s).store_native is %r" % (form, store_native, obj.store_native)
            msg = _check_forms("Array2D(%s input, store_native=%s)" % (form, store_native), obj, want_slim, want_native,
                               store_native)
            if msg:
                return msg
    # a structure handed to the constructor instead of an ndarray (the path .slim/.native use internally)
    a_nat = aa.Array2D(values=values.copy(), mask=mk, store_native=True)
    msg = _check_forms("Array2D(values=<native Array2D>)", aa.Array2D(values=a_nat, mask=mk), want_slim, want_native, False)
    if msg:
        return msg
    a_slim = aa.Array2D(values=want_slim.copy(), mask=mk)
    return _check_forms("Array2D(values=<slim Array2D>, store_native=True)", aa.Array2D(values=a_slim, mask=mk, store_native=True),
                        want_slim, want_native, True)


@bounded("C01", "array2d-apply-mask", gen=_gen_array2d, nontrivial=_nontrivial_mask)
def array2d_apply_mask(mask, values):
    """C01: 'the slim form lists exactly the values of the unmasked pixels in row-major order ... the native form holds
    those same values at their original pixel positions with every masked position equal to zero' -- reached through
    Array2D.no_mask(...).apply_mask(mask) (slim and native no_mask input); bound: as array2d-forms-both-modes."""
    import autoarray as aa
    mk = aa.Mask2D(mask=mask.copy(), pixel_scales=(2.0, 1.0))
    want_slim = values[~mask]
    want_native = np.where(mask, 0.0, values)
    for form, inp in (("native", values.copy()), ("slim", values.reshape(-1).copy())):
        full = aa.Array2D.no_mask(values=inp, shape_native=mask.shape, pixel_scales=(2.0, 1.0))
        msg = _expect("no_mask(%s).native" % form, full.native, values, values.shape) or \
            _expect("no_mask(%s).slim" % form, full.slim, values.reshape(-1), (values.size,))
        if msg:
            return msg
        msg = _check_forms("no_mask(%s).apply_mask" % form, full.apply_mask(mask=mk), want_slim, want_native, False)
        if msg:
            return msg
    return None


# ------------------------------------------------------------------------------------------------ Grid2D / VectorYX2D


def _gen_yx(rng, tier):
    for m in _mask_stream(rng, tier, 200, 3000):
        yield {"mask": m, "values": gens.reals(rng, m.shape + (2,))}


@bounded("C01", "grid2d-forms-both-modes", gen=_gen_yx, nontrivial=_nontrivial_mask)
def grid2d_forms_both_modes(mask, values):
    """C01: 'the slim form of a ... (y,x) grid ... lists exactly the values of the unmasked pixels in row-major order
    ..., and the native form holds those same values at their original pixel positions with every masked position equal
    to zero, whichever form was supplied at construction' + both round trips -- Grid2D, arbitrary (y,x) pairs, native
    [H,W,2] and slim [N,2] input x store_native False/True; bound: every mask of 13 (21) shapes <= 9 (12) cells + 200
    (3000) random masks <= 7x6."""
    import autoarray as aa
    mk = aa.Mask2D(mask=mask.copy(), pixel_scales=(1.0, 2.0), origin=(0.5, -1.0))
    want_slim = values[~mask]                                  # [N,2], row-major over pixels
    want_native = np.where(mask[:, :, None], 0.0, values)
    for store_native in (False, True):
        for form, inp in (("native", values), ("slim", want_slim)):
            obj = aa.Grid2D(values=inp.copy(), mask=mk, store_native=store_native)
            msg = _check_forms("Grid2D(%s input, store_native=%s)" % (form, store_native), obj, want_slim, want_native,
                               store_native)
            if msg:
                return msg
    g_nat = aa.Grid2D(values=values.copy(), mask=mk, store_native=True)
    return _check_forms("Grid2D(values=<native Grid2D>)", aa.Grid2D(values=g_nat, mask=mk), want_slim, want_native, False)


def _gen_vec(rng, tier):
    for m in _mask_stream(rng, tier, 40, 2000):
        yield {"mask": m, "values": gens.reals(rng, m.shape + (2,)), "grid": gens.reals(rng, m.shape + (2,), special=False)}


@bounded("C01", "vectoryx2d-forms-both-modes", gen=_gen_vec, nontrivial=_nontrivial_mask)
def vectoryx2d_forms_both_modes(mask, values, grid):
    """C01: 'the slim form of a ... vector field lists exactly the values of the unmasked pixels in row-major order ...,
    and the native form holds those same values at their original pixel positions with every masked position equal to
    zero, whichever form was supplied at construction' + both round trips -- VectorYX2D (vectors and the grid they sit
    on), native and slim input x store_native False/True; bound: every mask of 13 (21) shapes <= 9 (12) cells + 40
    (2000) random masks <= 7x6."""
    import autoarray as aa
    mk = aa.Mask2D(mask=mask.copy(), pixel_scales=(1.0, 2.0), origin=(0.5, -1.0))
    want_slim = values[~mask]
    want_native = np.where(mask[:, :, None], 0.0, values)
    grid_slim = grid[~mask]
    grid_native = np.where(mask[:, :, None], 0.0, grid)
    for store_native in (False, True):
        for form, inp, ginp in (("native", values, grid), ("slim", want_slim, grid_slim)):
            obj = aa.VectorYX2D(values=inp.copy(), grid=ginp.copy(), mask=mk, store_native=store_native)
            label = "VectorYX2D(%s input, store_native=%s)" % (form, store_native)
            msg = _check_forms(label, obj, want_slim, want_native, store_native, deep=False)
            if msg:
                return msg
            # the positions travel with the vectors through the same maps
            v = obj.native if not store_native else obj.slim
            msg = _expect(label + ".grid.slim", v.grid.slim, grid_slim, grid_slim.shape) or \
                _expect(label + ".grid.native", v.grid.native, grid_native, grid_native.shape)
            if msg:
                return msg
            # a vector field that came out of arithmetic (its raw storage then holds non-zero numbers at masked pixels) or was edited
            # at a masked pixel: "every masked position equal to zero" is a statement about the native FORM, whatever the storage holds
            der = obj + 3.5
            msg = _expect(label + " + 3.5 .native", der.native, np.where(mask[:, :, None], 0.0, values + 3.5), want_native.shape) or \
                _expect(label + " + 3.5 .slim", der.slim, want_slim + 3.5, want_slim.shape)
            if msg:
                return msg
            if store_native and mask.any():
                y, x = [int(t) for t in np.argwhere(mask)[0]]
                obj[y, x] = np.array([7.0, -7.0])
                msg = _expect(label + "; item assignment at masked pixel (%d, %d); .native" % (y, x), obj.native, want_native, want_native.shape) or \
                    _expect(label + "; item assignment at a masked pixel; .slim", obj.slim, want_slim, want_slim.shape)
                if msg:
                    return msg
    return None


# ------------------------------------------------------------------------------------------------ derived / edited structures


def _gen_hist(rng, tier):
    for m in _mask_stream(rng, tier, 60, 1500):
        if (~m).sum() == 0:
            continue
        yield {"mask": m, "values": gens.reals(rng, m.shape, special=False), "yx": gens.reals(rng, m.shape + (2,), special=False),
               "seed": rng.randrange(10 ** 6)}


@bounded("C01", "forms-after-arithmetic-and-edits", gen=_gen_hist, nontrivial=_nontrivial_mask, twins=("mask", "values", "yx"))
def forms_after_arithmetic_and_edits(mask, values, yx, seed):
    """C01: 'the native form holds those same values at their original pixel positions with every masked position equal to
    zero, whichever form was supplied at construction ... converting slim to native and back returns the identical slim
    values' -- for structures that are not fresh from a constructor: results of arithmetic on slim- and native-stored
    Array2D / Grid2D (a + c, a * c, a - b), skip_mask construction, and structures edited in place through item assignment
    (unmasked and masked pixel, integer and boolean index) -- with the forms read once BEFORE the edit, so a form that is
    remembered instead of recomputed shows; bound: every mask of 13 (21) shapes <= 9 (12) cells + 60 (1500) random masks."""
    import random as _r
    import autoarray as aa
    rng = _r.Random(seed)
    mk = aa.Mask2D(mask=mask.copy(), pixel_scales=(1.0, 2.0), origin=(0.5, -1.0))
    un = np.argwhere(~mask)
    ma = np.argwhere(mask)
    c = rng.choice([10.0, -3.0, 0.5])
    if seed % 4 == 0:
        # the same at a magnitude of 1e-12 (fluxes in physical units): a masked entry of 1e-13 is as non-zero as one of 10
        f = 2.0 ** -40
        values, yx, c = values * f, yx * f, c * f

    def nat(slim, tail=()):
        out = np.zeros(mask.shape + tuple(tail))
        out[~mask] = slim
        return out
    if seed % 3 == 0:
        # "lists exactly the values": a bad pixel flagged NaN (and an infinite one) is a value like any other -- it is at its own pixel in
        # both forms, it is not turned into a number
        bad = values[~mask].copy()
        bad[0] = np.nan
        bad[-1] = np.inf if len(bad) > 1 else np.nan
        for sn in (False, True):
            an = aa.Array2D(values=bad.copy(), mask=mk, store_native=sn)
            msg = _expect("Array2D(slim values with a NaN / inf entry, store_native=%s).native" % sn, an.native, nat(bad), mask.shape) or \
                _expect("Array2D(slim values with a NaN / inf entry, store_native=%s).slim" % sn, an.slim, bad, bad.shape)
            if msg:
                return msg

    for store_native in (False, True):
        # ---- Array2D: arithmetic keeps "masked positions are zero"
        a = aa.Array2D(values=values.copy(), mask=mk, store_native=store_native)
        b = aa.Array2D(values=(2.0 * values + 1.0), mask=mk, store_native=store_native)
        s0 = values[~mask]
        for lab, obj, want in (("a + c", a + c, s0 + c), ("a * c", a * c, s0 * c), ("a - b", a - b, s0 - (2.0 * s0 + 1.0)),
                               ("(a + c).native + c", (a + c).native + c, s0 + 2 * c), ("(a + c).slim * c", (a + c).slim * c, (s0 + c) * c)):
            # (the raw storage of an arithmetic result is not a "form": its .slim / .native are)
            for lab2, f, w in ((".slim", obj.slim, want), (".native", obj.native, nat(want)), (".slim.native", obj.slim.native, nat(want)),
                               (".native.slim", obj.native.slim, want)):
                msg = _expect("Array2D(store_native=%s): (%s)%s" % (store_native, lab, lab2), f, w, w.shape)
                if msg:
                    return msg
        sk = aa.Array2D(values=values.copy(), mask=mk, store_native=store_native, skip_mask=True)
        for lab, f, want in ((".native", sk.native, nat(s0)), (".slim", sk.slim, s0), (".slim.native", sk.slim.native, nat(s0))):
            msg = _expect("Array2D(..., store_native=%s, skip_mask=True)%s" % (store_native, lab), f, want, want.shape)
            if msg:
                return msg
        # ---- in-place edits, forms read before and after
        for kind in ("array", "grid"):
            src = values if kind == "array" else yx
            tail = () if kind == "array" else (2,)
            cls = aa.Array2D if kind == "array" else aa.Grid2D
            cur = src[~mask].copy()
            obj = cls(values=(src.copy() if store_native else cur.copy()), mask=mk, store_native=store_native)
            label = "%s(store_native=%s)" % (cls.__name__, store_native)
            msg = _check_forms(label, obj, cur, nat(cur, tail), store_native, deep=False)      # first read of every form
            if msg:
                return msg
            k = rng.randrange(len(un))
            v = (20.0 + rng.random()) * (2.0 ** -40 if seed % 4 == 0 else 1.0) if kind == "array" else np.array([20.0 + rng.random(), -20.0])
            if store_native:
                obj[tuple(un[k])] = v
            else:
                obj[k] = v
            cur[k] = v
            msg = _check_forms(label + "; read forms; item assignment at unmasked pixel %r; read forms" % (tuple(un[k]),), obj, cur,
                               nat(cur, tail), store_native, deep=False)
            if msg:
                return msg
            if store_native and len(ma):
                obj[tuple(ma[rng.randrange(len(ma))])] = 7.0                 # a write to a masked pixel never reaches a form
                for lab, f, want in ((".native", obj.native, nat(cur, tail)), (".slim", obj.slim, cur), (".slim.native", obj.slim.native, nat(cur, tail))):
                    msg = _expect(label + "; item assignment at a masked pixel; " + lab, f, want, want.shape)
                    if msg:
                        return msg
            neg = np.asarray(obj.array) < 0.0
            obj[neg] = 0.0                                                    # boolean-index assignment, the library's own idiom
            cur = np.where(cur < 0.0, 0.0, cur)
            for lab, f, want in ((".native", obj.native, nat(cur, tail)), (".slim", obj.slim, cur), (".slim.native", obj.slim.native, nat(cur, tail)),
                                 (".native.slim", obj.native.slim, cur)):
                msg = _expect(label + "; read forms; x[x < 0] = 0; " + lab, f, want, want.shape)
                if msg:
                    return msg
            cp = obj.copy()
            cp[tuple(un[0]) if store_native else 0] = (1.5 if kind == "array" else np.array([1.5, 2.5]))
            cur2 = cur.copy(); cur2[0] = 1.5 if kind == "array" else np.array([1.5, 2.5])
            for lab, f, want in ((".native", cp.native, nat(cur2, tail)), (".slim", cp.slim, cur2), ("original .native", obj.native, nat(cur, tail))):
                msg = _expect(label + "; c = x.copy(); c[first unmasked] = ...; " + lab, f, want, want.shape)
                if msg:
                    return msg
    return None


# ------------------------------------------------------------------------------------------------ index lists


def _gen_idx(rng, tier):
    for m in _mask_stream(rng, tier, 1500, 20000, hmax=8, wmax=7):
        yield {"mask": m}


@bounded("C01", "mask2d-derive-indexes", gen=_gen_idx, nontrivial=_nontrivial_mask)
def mask2d_derive_indexes(mask):
    """C01: 'The slim-to-native and unmasked/masked index lists published by a mask are mutually consistent bijections:
    slim index k denotes the k-th unmasked pixel in row-major order and the unmasked and masked lists partition the
    flattened pixel indices' -- Mask2D.derive_indexes.native_for_slim / unmasked_slim / masked_slim (and pixels_in_mask);
    bound: every mask of 13 (21) shapes <= 9 (12) cells + 1500 (20000) random masks <= 8x7."""
    import autoarray as aa
    from bounded.c10_mask_sets import _edited_in_place
    mk = aa.Mask2D(mask=mask.copy(), pixel_scales=(1.0, 2.0), origin=(0.5, -1.0))

    def body(mk_, mask_):
        msg = _index_lists_of(mk_, mask_)
        if msg:
            return msg
        # the table is what Array2D uses to scatter slim values
        n = int((~mask_).sum())
        vals = np.arange(1.0, n + 1.0)
        want = np.zeros(mask_.shape)
        want[~mask_] = vals
        got = np.asarray(aa.Array2D(values=vals.copy(), mask=mk_).native.array)
        if got.shape != want.shape or not np.array_equal(got, want):
            return "Array2D(slim values, mask).native = %r, expected %r" % (got.tolist(), want.tolist())
        return None
    return _edited_in_place(body, mk, mask)


def _index_lists_of(mk, mask):
    H, W = mask.shape
    di = mk.derive_indexes
    nfs, un, ma = np.asarray(di.native_for_slim), np.asarray(di.unmasked_slim), np.asarray(di.masked_slim)
    # oracle straight from the statement: walk the pixels top row first, left to right
    want_nfs, want_un, want_ma = [], [], []
    for y in range(H):
        for x in range(W):
            if not mask[y, x]:
                want_nfs.append((y, x)); want_un.append(y * W + x)
            else:
                want_ma.append(y * W + x)
    N = len(want_un)
    for name, a in (("native_for_slim", nfs), ("unmasked_slim", un), ("masked_slim", ma)):
        if not np.issubdtype(a.dtype, np.integer):
            return "%s has dtype %s, not an integer index type" % (name, a.dtype)
    if int(mk.pixels_in_mask) != N:
        return "pixels_in_mask = %r, but %d pixels are unmasked" % (mk.pixels_in_mask, N)
    if nfs.shape != (N, 2) or nfs.tolist() != [list(t) for t in want_nfs]:
        return "native_for_slim[k] is not the k-th unmasked pixel in row-major order: %r vs %r" % (nfs.tolist(), want_nfs)
    if un.shape != (N,) or un.tolist() != want_un:
        return "unmasked_slim is not the flattened index y*W+x of the k-th unmasked pixel: %r vs %r" % (un.tolist(), want_un)
    if ma.shape != (H * W - N,) or ma.tolist() != want_ma:
        return "masked_slim is not the list of flattened indices of masked pixels: %r vs %r" % (ma.tolist(), want_ma)
    # mutual consistency + partition, stated on the published lists themselves
    if not np.array_equal(nfs[:, 0] * W + nfs[:, 1], un):
        return "native_for_slim and unmasked_slim disagree"
    if len(set(map(tuple, nfs.tolist()))) != N or len(set(un.tolist())) != N:
        return "slim -> native map is not injective"
    if sorted(un.tolist() + ma.tolist()) != list(range(H * W)):
        return "unmasked_slim and masked_slim do not partition range(H*W)"
    if mask[nfs[:, 0], nfs[:, 1]].any():
        return "native_for_slim points at a masked pixel"
    # inverse direction: the rank of an unmasked pixel among unmasked pixels is its slim index
    rank = np.cumsum(~mask.reshape(-1)) - 1
    if not np.array_equal(rank[un], np.arange(N)):
        return "slim index k is not the row-major rank of pixel unmasked_slim[k]"
    return None


# ------------------------------------------------------------------------------------------------ 1D


def _gen_1d(rng, tier):
    nmax = gens.budget(tier, 9, 13)
    for n in range(1, nmax + 1):
        for bits in range(2 ** n - 1):                               # all-masked (bits == 2**n-1) excluded
            m = np.array([(bits >> i) & 1 for i in range(n)], dtype=bool)
            yield {"mask": m, "values": gens.reals(rng, (n,))}
    for _ in range(gens.budget(tier, 400, 5000)):
        n = rng.randint(10, 40)
        while True:
            m = np.array([rng.random() < 0.5 for _ in range(n)], dtype=bool)
            if not m.all():
                break
        yield {"mask": m, "values": gens.reals(rng, (n,))}


@bounded("C01", "structures-1d-round-trips", gen=_gen_1d, nontrivial=_nontrivial_mask)
def structures_1d_round_trips(mask, values):
    """C01: 'In one and two dimensions, converting slim to native and back returns the identical slim values, and
    converting native to slim and back returns the native values with masked positions zeroed' (1D: Array1D and Grid1D,
    slim = the unmasked entries left to right, both storage modes, and the 1D slim->native index list is the matching
    bijection); bound: every 1D mask of length <= 9 (13) + 400 (5000) random masks of length 10..40."""
    import autoarray as aa
    from autoarray.mask import mask_1d_util
    n = mask.shape[0]
    mk = aa.Mask1D(mask=mask.copy(), pixel_scales=2.0, origin=(1.5,))
    want_slim = values[~mask]
    want_native = np.where(mask, 0.0, values)
    N = want_slim.shape[0]
    if int(mk.pixels_in_mask) != N:
        return "Mask1D.pixels_in_mask = %r, but %d pixels are unmasked" % (mk.pixels_in_mask, N)
    nfs = np.asarray(mask_1d_util.native_index_for_slim_index_1d_from(mask_1d=mask.copy()))
    if nfs.shape != (N,) or nfs.astype(int).tolist() != np.flatnonzero(~mask).tolist():
        return "1D native_index_for_slim_index is not the list of unmasked positions left to right: %r" % nfs.tolist()
    for cls in (aa.Array1D, aa.Grid1D):
        name = cls.__name__
        for store_native in (False, True):
            # native -> slim -> native
            a = cls(values=values.copy(), mask=mk, store_native=store_native)
            for lab, s, want in ((".slim", a.slim, want_slim), (".slim.native", a.slim.native, want_native),
                                 (".slim.native.slim", a.slim.native.slim, want_slim),
                                 (".native.slim", a.native.slim, want_slim),
                                 (".native.slim.native", a.native.slim.native, want_native)):
                msg = _expect("%s(native input, store_native=%s)%s" % (name, store_native, lab), s, want, want.shape)
                if msg:
                    return msg
            # slim -> native -> slim
            b = cls(values=want_slim.copy(), mask=mk, store_native=store_native)
            for lab, s, want in ((".slim", b.slim, want_slim), (".native", b.native, want_native),
                                 (".native.slim", b.native.slim, want_slim),
                                 (".slim.native.slim", b.slim.native.slim, want_slim),
                                 (".native.slim.native", b.native.slim.native, want_native)):
                msg = _expect("%s(slim input, store_native=%s)%s" % (name, store_native, lab), s, want, want.shape)
                if msg:
                    return msg
    return None
