"""C01 class layer: Array2D in both storage modes (bounded stand-in; see docs/BOUNDED_GUIDE.md)."""
import numpy as np
from pyvc.bounded import bounded
from pyvc import gens


def _gen(rng, tier):
    for m in gens.all_masks(gens.budget(tier, 8, 12), min_unmasked=1):
        yield {"mask": m, "values": gens.reals(rng, m.shape), "store_native": bool(rng.getrandbits(1))}
    for _ in range(gens.budget(tier, 40, 1000)):
        m = gens.random_mask(rng, 7, 7, min_unmasked=1)
        yield {"mask": m, "values": gens.reals(rng, m.shape), "store_native": bool(rng.getrandbits(1))}


@bounded("C01", "array2d-native-input", gen=_gen, nontrivial=lambda mask, values, store_native: 0 < mask.sum() < mask.size)
def array2d_native_input(mask, values, store_native):
    """C01: 'the slim form lists exactly the values of the unmasked pixels in row-major order, and the native form holds
    those same values at their original pixel positions with every masked position equal to zero, whichever form was
    supplied at construction' -- Array2D from a native array; bound: all masks <= 8 (12) cells + random <= 7x7."""
    import autoarray as aa
    mk = aa.Mask2D(mask=mask.copy(), pixel_scales=1.0)
    arr = aa.Array2D(values=values.copy(), mask=mk, store_native=store_native)
    want_slim = values[~mask]
    want_native = np.where(mask, 0.0, values)
    if not np.array_equal(np.asarray(arr.slim), want_slim):
        return "slim != unmasked values in row-major order: %r vs %r" % (np.asarray(arr.slim), want_slim)
    if not np.array_equal(np.asarray(arr.native), want_native):
        return "native != values with masked positions zeroed"
    arr2 = aa.Array2D(values=want_slim.copy(), mask=mk, store_native=store_native)
    if not np.array_equal(np.asarray(arr2.native), want_native) or not np.array_equal(np.asarray(arr2.slim), want_slim):
        return "slim-input construction disagrees with native-input construction"
    return None
