"""C12 translation covariance (two-run metamorphic; bounded stand-in; see docs/BOUNDED_GUIDE.md).

Every check builds the same objects twice: on a mask with origin o and on the same mask with origin o + d (any input points /
centres / mesh points are translated by d as well).  The oracle is the property itself:

  coord   : result(o + d) == result(o) + d          (last axis = (y, x))
  extent  : [x0, x1, y0, y1](o + d) == [x0 + dx, x1 + dx, y0 + dy, y1 + dy]
  same    : index-, count-, weight- and matrix-valued results are unchanged

ONE check per call site so that each site that forgets to forward `origin` is identified separately.  Tolerances: all
coordinates are bounded by ~150 in magnitude, results are compared with atol 1e-8 (rounding is ~1e-13); index-valued
comparisons use input points that stay >= 0.1 pixel away from pixel boundaries so that rounding cannot flip an index.
"""
import itertools
import numpy as np
from pyvc.bounded import bounded
from pyvc import gens

_ATOL = 1e-8

_SCALES = [(1.0, 1.0), (0.5, 2.0), (2.0, 0.25), (0.3, 0.7)]
_ORIGINS = [(0.0, 0.0), (3.0, -2.0), (-0.75, 1.5)]
_DS = [(1.0, 0.0), (0.0, 1.0), (3.0, -2.0), (-2.5, 3.25), (7.0, -4.5), (0.125, 0.375), (100.0, -50.0), (-0.3, 0.7)]


def _quiet():
    import logging
    logging.disable(logging.CRITICAL)


# ----------------------------------------------------------------------------------------------- comparison

def _arr(v):
    if hasattr(v, "_array"):
        v = v._array
    return np.asarray(v, dtype=float)


def _compare(r0, r1, d, what=""):
    """r0, r1: lists of (name, kind, value) from the run at origin o and at origin o + d"""
    if len(r0) != len(r1):
        return "%sthe two runs report different sets of results" % what
    dv = np.array([d[0], d[1]], dtype=float)
    for (n0, kind, v0), (n1, _, v1) in zip(r0, r1):
        if isinstance(v0, str) or isinstance(v1, str):
            if not (isinstance(v0, str) and isinstance(v1, str) and v0 == v1):
                return "%s`%s`: origin o gives %s, origin o+d=%r gives %s" % (
                    what, n0, v0 if isinstance(v0, str) else _s(_arr(v0)), tuple(d), v1 if isinstance(v1, str) else _s(_arr(v1)))
            continue
        a0, a1 = _arr(v0), _arr(v1)
        if a0.shape != a1.shape:
            return "%s`%s` changes shape under translation: %r -> %r" % (what, n0, a0.shape, a1.shape)
        if a0.size == 0:
            continue
        if kind == "coord":
            want = a0 + dv
        elif kind == "extent":
            want = a0 + np.array([d[1], d[1], d[0], d[0]], dtype=float)
        elif kind == "same":
            want = a0
        elif kind == "coord_or_same":
            if np.allclose(a1, a0, rtol=0.0, atol=_ATOL) or np.allclose(a1, a0 + dv, rtol=0.0, atol=_ATOL):
                continue
            return "%s`%s` neither unchanged nor shifted by d=%r: %r -> %r" % (what, n0, tuple(d), a0.tolist(), a1.tolist())
        else:
            raise ValueError(kind)
        if not np.allclose(a1, want, rtol=0.0, atol=_ATOL, equal_nan=True):
            i = int(np.argmax(np.abs(a1 - want).reshape(-1)))
            if kind == "same":
                return "%s`%s` (index/count/weight/matrix-valued) changes under translation by d=%r: first difference %r -> %r (flat index %d)" % (
                    what, n0, tuple(d), a0.reshape(-1)[i], a1.reshape(-1)[i], i)
            return "%s`%s` does not shift by d=%r: at origin o it is %s, at o+d it is %s (expected %s)" % (
                what, n0, tuple(d), _s(a0), _s(a1), _s(want))
    return None


def _s(a):
    a = np.asarray(a)
    t = np.array2string(a.reshape(-1, a.shape[-1])[:3] if a.ndim > 1 else a[:6], precision=6, separator=",").replace("\n", "")
    return t + ("..." if a.size > 6 else "")


def _safe(name, kind, f):
    """an exception is a result too: it must not depend on the origin"""
    try:
        return (name, kind, f())
    except Exception as e:
        return (name, kind, "EXC " + type(e).__name__)


def _two_runs(build, origin, d, what=""):
    o2 = (origin[0] + d[0], origin[1] + d[1])
    r0 = build(tuple(origin), (0.0, 0.0))
    msg = _compare(r0, build(o2, tuple(d)), d, what)
    if msg is None and all(float(v) == int(v) for v in origin):
        # the same origin written with Python ints ((0, 0) instead of (0.0, 0.0)): same position, another numeric type -- every result
        # must be the one of the float-typed run (a buffer that inherits an integer dtype from the origin / centre truncates silently)
        oi = (int(origin[0]), int(origin[1]))
        msg = _compare(r0, build(oi, (0, 0)), (0.0, 0.0), what + "[origin given as Python ints %r] " % (oi,))
    return msg


def _grid_of(mask_obj):
    import autoarray as aa
    return aa.Grid2D.from_mask(mask=mask_obj)


# ----------------------------------------------------------------------------------------------- generators

def _geo(rng, i):
    s = _SCALES[i % len(_SCALES)]
    o = _ORIGINS[(i // len(_SCALES)) % len(_ORIGINS)]
    if i % 3 == 2:
        d = (round(rng.uniform(-20, 20), 6), round(rng.uniform(-20, 20), 6))
        o = (round(rng.uniform(-5, 5), 6), round(rng.uniform(-5, 5), 6))
    else:
        d = _DS[(i // 3) % len(_DS)]
    if i % 7 == 3 and o != (0.0, 0.0):
        d = (-o[0], -o[1])             # the translated frame sits EXACTLY at the default origin (0, 0): nothing special about it
    elif i % 7 == 5 and o != (0.0, 0.0):
        d = (-o[0], d[1])              # ... or has exactly one zero component
    return {"pixel_scales": s, "origin": o, "d": d}


def _special_masks():
    def mk(rows):
        return np.array([[c == "x" for c in r] for r in rows], dtype=bool)
    return [mk(["xxxxx", "xooox", "xoxox", "xooox", "xxxxx"]), mk(["oooo", "oxxo", "oooo"]), mk(["xxxxxx", "xoxxox", "xxxxxx", "xoooxx", "xxxxxx"]),
            mk(["xxxx", "xoox", "xoox", "xxxx"]), mk(["ooo", "ooo", "ooo"]), mk(["xxxxxxx", "xxooxxx", "xoooxxx", "xxoooox", "xxxxxxx"])]


def _gen_masks(rng, tier, quick_cells=6, thorough_cells=9, n_random=120, n_random_thorough=3000, min_unmasked=1, hmin=1, wmin=1):
    i = 0
    for m in _special_masks():
        if m.shape[0] >= hmin and m.shape[1] >= wmin and (~m).sum() >= min_unmasked:
            for _ in range(3):
                yield dict(_geo(rng, i), mask=m)
                i += 1
    for _ in range(gens.budget(tier, n_random, n_random_thorough)):
        yield dict(_geo(rng, i), mask=gens.random_mask(rng, 7, 7, min_unmasked=min_unmasked, hmin=hmin, wmin=wmin))
        i += 1
    shapes = [(h, w) for h in range(hmin, 10) for w in range(wmin, 10) if h * w <= gens.budget(tier, quick_cells, thorough_cells)]
    for m in gens.all_masks(shapes=shapes, min_unmasked=min_unmasked):
        yield dict(_geo(rng, i), mask=m)
        i += 1


def _gen_geo(rng, tier):
    return _gen_masks(rng, tier)


def _nt(mask, pixel_scales, origin, d, **kw):
    return 0 < mask.sum() < mask.size and pixel_scales[0] != pixel_scales[1]


def _ring_margin_masks(rng, tier, n, margin, count, count_thorough, min_unmasked=3):
    for i in range(gens.budget(tier, count, count_thorough)):
        while True:
            m = np.ones((n, n), dtype=bool)
            k = n - 2 * margin
            m[margin:n - margin, margin:n - margin] = np.array([[rng.random() < 0.35 for _ in range(k)] for _ in range(k)], dtype=bool)
            ys, xs = np.where(~m)
            if len(ys) >= min_unmasked and len(set(ys.tolist())) >= 2 and len(set(xs.tolist())) >= 2:
                break
        yield dict(_geo(rng, i), mask=m)


# =============================================================================================== masks / grids

@bounded("C12", "grid-from-mask-and-derived-grids", gen=_gen_geo, nontrivial=_nt)
def grids_from_mask(mask, pixel_scales, origin, d):
    """C12: 'translating the coordinate origin of a mask ... by any vector d translates every coordinate-valued result ...
    pixel-centre, edge, border, blurring ... grids, mask centre, extent ... by exactly d [and] leaves every index-, count-
    ... result unchanged' -- Grid2D.from_mask, Mask2D.derive_grid.{all_false, unmasked, edge, border},
    Grid2D.blurring_grid_from((3,3)), derive_mask.{edge, border, blurring, all_false, edge_buffed}.origin, mask_centre,
    geometry.extent / scaled_maxima / scaled_minima / central_scaled_coordinates, resized_from / rescaled_from origins and
    grids; derive_indexes unchanged; bound: 6 topologies x 3, 120 (3000) random <= 7x7, all masks <= 6 (9) cells; 4
    pixel-scale pairs (3 anisotropic) x 3 origins x 8 fixed + seeded random d."""
    import autoarray as aa

    def build(o, shift):
        mk = aa.Mask2D(mask=mask.copy(), pixel_scales=pixel_scales, origin=o)
        out = [("Grid2D.from_mask", "coord", aa.Grid2D.from_mask(mask=mk)),
               ("Grid2D.from_mask(...).mask.origin", "coord", aa.Grid2D.from_mask(mask=mk).mask.origin)]
        for n in ("all_false", "unmasked", "edge", "border"):
            out.append(_safe("derive_grid." + n, "coord", lambda n=n: getattr(mk.derive_grid, n)))
            out.append(_safe("derive_grid.%s.mask.origin" % n, "coord", lambda n=n: getattr(mk.derive_grid, n).mask.origin))
        for n in ("all_false", "edge", "border", "edge_buffed"):
            out.append(_safe("derive_mask.%s.origin" % n, "coord", lambda n=n: getattr(mk.derive_mask, n).origin))
            out.append(_safe("grid of derive_mask." + n, "coord", lambda n=n: _grid_of(getattr(mk.derive_mask, n))))
        out.append(_safe("derive_mask.blurring_from((3,3)).origin", "coord", lambda: mk.derive_mask.blurring_from((3, 3)).origin))
        out.append(_safe("Grid2D.blurring_grid_from((3,3))", "coord", lambda: aa.Grid2D.blurring_grid_from(mask=mk, kernel_shape_native=(3, 3))))
        out.append(_safe("Grid2D.blurring_grid_from((1,3))", "coord", lambda: aa.Grid2D.blurring_grid_from(mask=mk, kernel_shape_native=(1, 3))))
        out.append(_safe("mask_centre", "coord", lambda: mk.mask_centre))
        out.append(("geometry.extent", "extent", mk.geometry.extent))
        out.append(("geometry.scaled_maxima", "coord", mk.geometry.scaled_maxima))
        out.append(("geometry.scaled_minima", "coord", mk.geometry.scaled_minima))
        out.append(("geometry.central_scaled_coordinates", "same", mk.geometry.central_pixel_coordinates))
        out.append(("geometry.shape_native_scaled", "same", mk.geometry.shape_native_scaled))
        for new_shape in ((mask.shape[0] + 2, mask.shape[1] + 3), (max(1, mask.shape[0] - 1), mask.shape[1])):
            out.append(_safe("resized_from(%r).origin" % (new_shape,), "coord", lambda s=new_shape: mk.resized_from(new_shape=s).origin))
            out.append(_safe("grid of resized_from(%r)" % (new_shape,), "coord", lambda s=new_shape: _grid_of(mk.resized_from(new_shape=s))))
        out.append(_safe("rescaled_from(2.0).origin", "coord", lambda: mk.rescaled_from(rescale_factor=2.0).origin))
        for n in ("unmasked_slim", "masked_slim", "edge_slim", "edge_native", "border_slim", "border_native", "native_for_slim"):
            out.append(_safe("derive_indexes." + n, "same", lambda n=n: getattr(mk.derive_indexes, n)))
        out.append(("pixels_in_mask", "same", mk.pixels_in_mask))
        # the same frame reached from a Mask2D / Grid2D that lives at ANOTHER origin (re-origin routes)
        elsewhere = aa.Mask2D(mask=mask.copy(), pixel_scales=pixel_scales, origin=(1.25, -0.5))
        re = aa.Mask2D(mask=elsewhere, pixel_scales=pixel_scales, origin=o)
        out.append(("Mask2D(mask=<Mask2D at (1.25,-0.5)>, origin=o).origin", "coord", re.origin))
        out.append(_safe("Grid2D.from_mask(Mask2D(mask=<Mask2D at (1.25,-0.5)>, origin=o))", "coord", lambda: aa.Grid2D.from_mask(mask=re)))
        out.append(_safe("extent of Mask2D(mask=<Mask2D elsewhere>, origin=o)", "extent", lambda: re.geometry.extent))
        sub = aa.Grid2D.from_mask(mask=elsewhere).subtracted_from(offset=(1.25 - o[0], -0.5 - o[1]))
        out.append(("Grid2D.from_mask(<elsewhere>).subtracted_from(offset to o)", "coord", sub))
        out.append(("...subtracted_from(...).mask.origin", "coord", sub.mask.origin))
        out.append(_safe("grid regenerated from ...subtracted_from(...).mask", "coord", lambda: _grid_of(sub.mask)))
        return out
    return _two_runs(build, origin, d)


def _gen_padded(rng, tier):
    for c in _gen_masks(rng, tier, 6, 8, 100, 2500):
        for k in ((3, 3), (1, 5), (5, 3)):
            yield dict(c, kernel=k)


@bounded("C12", "grid2d-padded-grid-from", gen=_gen_padded, nontrivial=_nt)
def padded_grid(mask, pixel_scales, origin, d, kernel):
    """C12: '... translates every coordinate-valued result -- ... padded ... grids -- by exactly d' -- call site
    Grid2D.padded_grid_from(kernel_shape_native) (structures/grids/uniform_2d.py): coordinates and mask origin of the padded
    grid; bound: masks as grid-from-mask (<= 6 (8) cells exhaustive, 100 (2500) random) x kernels (3,3), (1,5), (5,3)."""
    import autoarray as aa

    def build(o, shift):
        mk = aa.Mask2D(mask=mask.copy(), pixel_scales=pixel_scales, origin=o)
        p = aa.Grid2D.from_mask(mask=mk).padded_grid_from(kernel_shape_native=kernel)
        return [("padded_grid_from(%r)" % (kernel,), "coord", p), ("padded_grid_from(...).mask.origin", "coord", p.mask.origin),
                ("padded_grid_from(...).shape_native", "same", p.shape_native)]
    return _two_runs(build, origin, d)


def _gen_sub(rng, tier):
    for c in _gen_masks(rng, tier, 6, 8, 80, 2000):
        yield dict(c, sub=[1, 2, 3][rng.randrange(3)])


@bounded("C12", "over-sampled-grid-and-border-relocator", gen=_gen_sub, nontrivial=_nt)
def over_sampled(mask, pixel_scales, origin, d, sub):
    """C12: '... over-sampled ... grids ... by exactly d', 'border relocation results relative to origin' unchanged -- call
    sites OverSamplerUniform.over_sampled_grid (operators/over_sampling/uniform.py), Grid2D.over_sampler,
    BorderRelocator.sub_grid / border_grid / sub_border_grid / relocated_grid_from (translated input points) and
    sub_border_slim (index-valued); bound: masks <= 6 (8) cells exhaustive + 80 (2000) random <= 7x7, sub sizes 1..3."""
    import autoarray as aa
    r = np.random.default_rng(int(mask.sum()) * 7 + mask.size)
    n_sub = int((~mask).sum()) * sub * sub
    wild = r.uniform(-1.0, 1.0, size=(n_sub, 2)) * np.array([mask.shape[0] * pixel_scales[0], mask.shape[1] * pixel_scales[1]])

    def build(o, shift):
        mk = aa.Mask2D(mask=mask.copy(), pixel_scales=pixel_scales, origin=o)
        ov = aa.OverSamplerUniform(mask=mk, sub_size=sub)
        br = aa.BorderRelocator(mask=mk, sub_size=sub)
        g = aa.Grid2D.from_mask(mask=mk, over_sampling=aa.OverSamplingUniform(sub_size=sub))
        pts = aa.Grid2DIrregular(values=wild + np.array(o))

        def moved():
            # an EXISTING grid with a per-pixel (adaptive) sub-size map, built at the base origin and used there, is translated to o
            # (subtracted_from): the over-sampled grid of the translated object belongs to the translated object
            b = (o[0] - shift[0], o[1] - shift[1])
            mb = aa.Mask2D(mask=mask.copy(), pixel_scales=pixel_scales, origin=b)
            per_pixel = aa.Array2D(values=[1 + (k + sub) % 3 for k in range(int((~mask).sum()))], mask=mb)
            gb = aa.Grid2D.from_mask(mask=mb, over_sampling=aa.OverSamplingUniform(sub_size=per_pixel))
            _ = np.asarray(gb.over_sampler.over_sampled_grid)
            return gb.subtracted_from(offset=(-shift[0], -shift[1])).over_sampler.over_sampled_grid
        return [("OverSamplerUniform.over_sampled_grid", "coord", ov.over_sampled_grid),
                _safe("over-sampled grid of a used adaptive grid translated by subtracted_from", "coord", moved),
                _safe("Grid2D.over_sampler.over_sampled_grid", "coord", lambda: g.over_sampler.over_sampled_grid),
                ("OverSamplerUniform.sub_total / slim_for_sub_slim", "same", ov.slim_for_sub_slim),
                _safe("BorderRelocator.sub_grid", "coord", lambda: br.sub_grid),
                _safe("BorderRelocator.border_grid", "coord", lambda: br.border_grid),
                _safe("BorderRelocator.sub_border_grid", "coord", lambda: br.sub_border_grid),
                _safe("BorderRelocator.sub_border_slim", "same", lambda: br.sub_border_slim),
                _safe("BorderRelocator.relocated_grid_from(points translated with the origin)", "coord", lambda: br.relocated_grid_from(grid=pts))]
    return _two_runs(build, origin, d)


def _gen_zoom(rng, tier):
    return _gen_masks(rng, tier, 6, 9, 150, 3000)


@bounded("C12", "mask2d-zoom-mask-unmasked", gen=_gen_zoom, nontrivial=_nt)
def zoom_mask(mask, pixel_scales, origin, d):
    """C12: '... zoomed grids ... by exactly d', index-valued results unchanged -- call site Mask2D.zoom_mask_unmasked /
    zoom_offset_scaled (mask/mask_2d.py): the pixel-centre grid, origin and extent of zoom_mask_unmasked shift by d;
    zoom_centre, zoom_offset_pixels, zoom_region, zoom_shape_native (pixel units) are unchanged; zoom_offset_scaled (an
    offset that is then used as a position) must be either unchanged or shifted by d; bound: 6 topologies x 3, 150 (3000)
    random <= 7x7, all masks <= 6 (9) cells."""
    import autoarray as aa

    def build(o, shift):
        mk = aa.Mask2D(mask=mask.copy(), pixel_scales=pixel_scales, origin=o)
        return [("zoom_centre (pixels)", "same", mk.zoom_centre), ("zoom_offset_pixels", "same", mk.zoom_offset_pixels),
                ("zoom_region", "same", mk.zoom_region), ("zoom_shape_native", "same", mk.zoom_shape_native),
                ("zoom_offset_scaled", "coord_or_same", mk.zoom_offset_scaled),
                ("zoom_mask_unmasked.origin", "coord", mk.zoom_mask_unmasked.origin),
                ("pixel-centre grid of zoom_mask_unmasked", "coord", _grid_of(mk.zoom_mask_unmasked)),
                ("zoom_mask_unmasked.geometry.extent", "extent", mk.zoom_mask_unmasked.geometry.extent)]
    return _two_runs(build, origin, d)


@bounded("C12", "array2d-zoomed-resized-padded-trimmed", gen=_gen_zoom, nontrivial=_nt)
def array_zoomed(mask, pixel_scales, origin, d):
    """C12: same clause -- call sites Array2D.zoomed_around_mask(buffer) / extent_of_zoomed_array (structures/arrays/uniform_2d.py),
    Array2D.resized_from, padded_before_convolution_from, trimmed_after_convolution_from, Kernel2D.convolved_array_from:
    coordinates of the returned array's mask shift by d, values and shapes unchanged; bound as mask2d-zoom-mask-unmasked."""
    import autoarray as aa
    vals = np.random.default_rng(mask.size).normal(size=mask.shape)

    def build(o, shift):
        mk = aa.Mask2D(mask=mask.copy(), pixel_scales=pixel_scales, origin=o)
        arr = aa.Array2D(values=vals.copy(), mask=mk)
        out = []
        for b in (0, 1):
            out.append(_safe("zoomed_around_mask(buffer=%d) values" % b, "same", lambda b=b: arr.zoomed_around_mask(buffer=b).native))
            out.append(_safe("zoomed_around_mask(buffer=%d).mask.origin" % b, "coord", lambda b=b: arr.zoomed_around_mask(buffer=b).mask.origin))
            out.append(_safe("grid of zoomed_around_mask(buffer=%d)" % b, "coord", lambda b=b: _grid_of(arr.zoomed_around_mask(buffer=b).mask)))
            out.append(_safe("extent_of_zoomed_array(buffer=%d)" % b, "extent", lambda b=b: arr.extent_of_zoomed_array(buffer=b)))
        H, W = mask.shape
        for name, f in (("resized_from", lambda: arr.resized_from(new_shape=(H + 2, W + 1))),
                        ("padded_before_convolution_from((3,3))", lambda: arr.padded_before_convolution_from(kernel_shape=(3, 3))),
                        ("trimmed_after_convolution_from((3,3))", lambda: arr.trimmed_after_convolution_from(kernel_shape=(3, 3)))):
            out.append(_safe(name + " values", "same", lambda f=f: f().native))
            out.append(_safe(name + ".mask.origin", "coord", lambda f=f: f().mask.origin))
            out.append(_safe("grid of " + name, "coord", lambda f=f: _grid_of(f().mask)))
        return out
    return _two_runs(build, origin, d)


def _gen_radial(rng, tier):
    for c in _gen_masks(rng, tier, 4, 6, 150, 3000, hmin=2, wmin=2):
        yield dict(c, centre_frac=((0.0, 0.0) if rng.random() < 0.25 else (round(rng.uniform(-0.45, 0.45), 3), round(rng.uniform(-0.45, 0.45), 3))),
                   angle=rng.choice([0.0, 30.0, 90.0, 211.0]), remove_centre=bool(rng.getrandbits(1)))


@bounded("C12", "grid2d-radial-projected", gen=_gen_radial, nontrivial=_nt)
def radial_projected(mask, pixel_scales, origin, d, centre_frac, angle, remove_centre):
    """C12: '... radial projections ... by exactly d' -- Grid2D.grid_2d_radial_projected_from(centre, angle) and
    grid_2d_radial_projected_shape_slim_from with the centre translated together with the origin; inputs whose
    number of radial points sits on a floor() tie (within 1e-6) are skipped; bound: masks <= 4 (6) cells exhaustive, 150
    (3000) random <= 7x7, 4 angles, seeded centres within the array."""
    import autoarray as aa
    H, W = mask.shape
    cy, cx = centre_frac[0] * H * pixel_scales[0], centre_frac[1] * W * pixel_scales[1]
    dist = sorted([H * pixel_scales[0] / 2 - cy, H * pixel_scales[0] / 2 + cy, W * pixel_scales[1] / 2 - cx, W * pixel_scales[1] / 2 + cx])
    if 0 < dist[-1] - dist[-2] < 1e-6:
        return None                                   # near-tie between two directions: excluded (an EXACT tie, centre on an axis of the frame, is harmless)
    for s in pixel_scales:
        q = dist[-1] / s
        if abs(q - round(q)) < 1e-6:
            return None                               # floor() tie in the number of radial points: excluded

    def build(o, shift):
        mk = aa.Mask2D(mask=mask.copy(), pixel_scales=pixel_scales, origin=o)
        g = aa.Grid2D.from_mask(mask=mk)
        c = o if (cy == 0 and cx == 0) else (o[0] + cy, o[1] + cx)      # a centre AT the origin is handed over as the origin itself (same type)
        return [_safe("grid_2d_radial_projected_from", "coord",
                      lambda: g.grid_2d_radial_projected_from(centre=c, angle=angle, remove_projected_centre=remove_centre)),
                _safe("grid_2d_radial_projected_shape_slim_from", "same", lambda: g.grid_2d_radial_projected_shape_slim_from(centre=c)),
                ("distances_to_coordinate_from(centre)", "same", g.distances_to_coordinate_from(coordinate=c)),
                ("scaled_maxima", "coord", g.scaled_maxima), ("scaled_minima", "coord", g.scaled_minima),
                ("extent_with_buffer_from", "extent", g.extent_with_buffer_from(buffer=1.0e-3)),
                ("shape_native_scaled_interior", "same", g.shape_native_scaled_interior)]
    return _two_runs(build, origin, d)


def _gen_points(rng, tier):
    for c in _gen_masks(rng, tier, 6, 8, 150, 3000):
        n = int((~c["mask"]).sum())
        yield dict(c, frac=np.array([[round(rng.uniform(-0.4, 0.4), 3), round(rng.uniform(-0.4, 0.4), 3)] for _ in range(n)]).reshape(n, 2))


@bounded("C12", "pixel-indices-of-translated-points", gen=_gen_points, nontrivial=_nt)
def pixel_indices(mask, pixel_scales, origin, d, frac):
    """C12: 'leaves every index- ... valued result unchanged, including pixel indices of correspondingly translated points' --
    Geometry2D.pixel_coordinates_2d_from, grid_pixels_2d_from, grid_pixel_centres_2d_from, grid_pixel_indexes_2d_from on
    points translated with the origin (each point >= 0.1 pixel away from every pixel boundary), and
    scaled_coordinates_2d_from / grid_scaled_2d_from (pixel -> scaled, coordinate-valued);
    bound: masks <= 6 (8) cells exhaustive, 150 (3000) random <= 7x7; one point per unmasked pixel."""
    import autoarray as aa
    H, W = mask.shape
    px = np.argwhere(~mask)
    rel = np.stack([((H - 1) / 2.0 - px[:, 0] + frac[:, 0]) * pixel_scales[0], (px[:, 1] - (W - 1) / 2.0 + frac[:, 1]) * pixel_scales[1]], axis=1)

    def build(o, shift):
        mk = aa.Mask2D(mask=mask.copy(), pixel_scales=pixel_scales, origin=o)
        pts = aa.Grid2D(values=rel + np.array(o), mask=mk)
        geo = mk.geometry
        pix = aa.Grid2D(values=np.stack([px[:, 0] + 0.25, px[:, 1] + 0.75], axis=1), mask=mk)
        out = [("grid_pixels_2d_from", "same", geo.grid_pixels_2d_from(grid_scaled_2d=pts)),
               ("grid_pixel_centres_2d_from", "same", geo.grid_pixel_centres_2d_from(grid_scaled_2d=pts)),
               ("grid_pixel_indexes_2d_from", "same", geo.grid_pixel_indexes_2d_from(grid_scaled_2d=pts)),
               ("grid_scaled_2d_from(pixel grid)", "coord", geo.grid_scaled_2d_from(grid_pixels_2d=pix))]
        p0 = tuple(float(v) for v in (rel[0] + np.array(o)))
        out.append(("pixel_coordinates_2d_from(point)", "same", geo.pixel_coordinates_2d_from(scaled_coordinates_2d=p0)))
        out.append(("scaled_coordinates_2d_from(pixel)", "coord", geo.scaled_coordinates_2d_from(pixel_coordinates_2d=(int(px[0, 0]), int(px[0, 1])))))
        out.append(("scaled_coordinate_2d_to_scaled_at_pixel_centre_from(point)", "coord",
                    geo.scaled_coordinate_2d_to_scaled_at_pixel_centre_from(scaled_coordinate_2d=p0)))
        # oracle from the statement: the translated point lies in the pixel it was placed in
        want = np.argwhere(~mask)
        got = np.asarray(geo.grid_pixel_centres_2d_from(grid_scaled_2d=pts)._array).astype(int).reshape(-1, 2)
        if not np.array_equal(got, want):
            out.append(("grid_pixel_centres_2d_from vs the pixels the points were placed in", "same", "MISMATCH"))
        return out
    return _two_runs(build, origin, d)


# =============================================================================================== meshes / mappers

def _gen_overlay(rng, tier):
    i = 0
    for m in gens.all_masks(shapes=[(2, 2), (2, 3), (3, 2)] + ([(3, 3)] if tier == "thorough" else []), min_unmasked=1):
        yield dict(_geo(rng, i), mask=m, shape=[(2, 2), (3, 3), (2, 4)][i % 3])
        i += 1
    for c in _ring_margin_masks(rng, tier, 7, 1, 600, 5000):
        yield dict(c, shape=[(3, 3), (2, 4), (5, 3), (4, 4)][i % 4])
        i += 1


@bounded("C12", "image-mesh-overlay", gen=_gen_overlay, nontrivial=_nt)
def image_mesh_overlay(mask, pixel_scales, origin, d, shape):
    """C12: '... image-plane mesh points ... by exactly d' -- call site image_mesh.Overlay(shape).image_plane_mesh_grid_from(mask)
    (inversion/pixelization/image_mesh/overlay.py): the mesh points shift by d and their number is unchanged (inputs with an overlay point on a pixel boundary are skipped);
    bound: all masks 2x2, 2x3, 3x2 (thorough + 3x3) x overlay shapes (2,2), (3,3), (2,4); 600 (5000) random 7x7 masks with a masked
    outer ring x overlay shapes (3,3), (2,4), (5,3), (4,4)."""
    import autoarray as aa
    # floating-point ties are excluded: an overlay point that sits (within 1e-6 pixel) on a boundary between two image pixels
    # is assigned to one of them by rounding alone.  Position of overlay point k in pixel units, from the definition of the
    # overlay (a `shape` grid spanning the bounding box of the unmasked pixels):
    ys, xs = np.where(~mask)
    for lo, hi, n in ((ys.min(), ys.max(), shape[0]), (xs.min(), xs.max(), shape[1])):
        t = 0.5 + (lo + hi) / 2.0 + (np.arange(n) - (n - 1) / 2.0) * (hi - lo + 1.0) / n
        if np.any(np.abs(t - np.round(t)) < 1.0e-6):
            return None

    def build(o, shift):
        mk = aa.Mask2D(mask=mask.copy(), pixel_scales=pixel_scales, origin=o)
        return [_safe("Overlay(%r).image_plane_mesh_grid_from" % (shape,), "coord",
                      lambda: aa.image_mesh.Overlay(shape=shape).image_plane_mesh_grid_from(mask=mk, adapt_data=None))]
    return _two_runs(build, origin, d)


def _gen_hilbert(rng, tier):
    k = 0
    for n, radius in ((7, 2.0), (9, 3.0), (9, 2.5), (11, 4.0)):
        for scale in (1.0, 0.5):
            for i in range(gens.budget(tier, 3, 12)):
                g = _geo(rng, k)
                k += 1
                yield {"n": n, "radius": radius, "scale": scale, "origin": g["origin"], "d": g["d"],
                       "plane": (round(rng.uniform(1.0, 2.0), 3), round(rng.uniform(-0.05, 0.05), 3), round(rng.uniform(-0.05, 0.05), 3)),
                       "pixels": rng.choice([5, 8, 12])}


@bounded("C12", "image-mesh-hilbert", gen=_gen_hilbert)
def image_mesh_hilbert(n, radius, scale, origin, d, plane, pixels):
    """C12: '... image-plane mesh points ... by exactly d' -- call site image_mesh.Hilbert(pixels).image_plane_mesh_grid_from(mask,
    adapt_data) on circular masks (inversion/pixelization/image_mesh/hilbert.py image_and_grid_from): mesh points shift by
    d.  The adapt image is an unmasked affine function of the pixel position, so that scipy's linear interpolation does not
    depend on how qhull triangulates the degenerate (co-circular) square grid -- a floating-point tie the property excludes; bound: circular masks n = 7..11, radii 2..4 pixels, scales {1, 0.5},
    3 (12) seeded (origin, d, image) per mask."""
    import autoarray as aa
    _quiet()
    ii, jj = np.meshgrid(np.arange(n), np.arange(n), indexing="ij")
    img = plane[0] + plane[1] * ii + plane[2] * jj

    def build(o, shift):
        # `centre` of Mask2D.circular is an offset from the array centre (it does not involve `origin`), so it stays (0, 0)
        mk = aa.Mask2D.circular(shape_native=(n, n), radius=radius * scale, pixel_scales=scale, origin=o, centre=(0.0, 0.0))
        # unmasked adapt image: Array2D(values, mask=mk) would zero the masked pixels and the image would no longer be affine
        adapt = aa.Array2D.no_mask(values=img.copy(), pixel_scales=scale, origin=o)
        return [("circular mask", "same", np.asarray(mk._array)),
                _safe("Hilbert(pixels=%d).image_plane_mesh_grid_from" % pixels, "coord",
                      lambda: aa.image_mesh.Hilbert(pixels=pixels, weight_floor=0.1, weight_power=1.0).image_plane_mesh_grid_from(mask=mk, adapt_data=adapt))]
    return _two_runs(build, origin, d)


def _gen_mapper(rng, tier):
    i = 0
    for c in _ring_margin_masks(rng, tier, 7, 2, 300, 2000):
        yield dict(c, sub=1 + i % 2, mesh_shape=[(3, 3), (2, 4), (4, 3)][i % 3])
        i += 1


@bounded("C12", "mesh-rectangular-overlay-and-mapper-tables", gen=_gen_mapper, nontrivial=_nt)
def mapper_rectangular(mask, pixel_scales, origin, d, sub, mesh_shape):
    """C12: 'Mesh2DRectangular.overlay_grid' points shift by d; 'mapper index/weight tables and mapping matrices' unchanged --
    Mesh2DRectangular.overlay_grid(grid, shape) on the over-sampled grid, MapperRectangular.pix_indexes_for_sub_slim_index,
    pix_sizes / pix_weights, unique mappings, mapping_matrix, neighbors; bound: 300 (2000) random 7x7 masks (margin 2), sub sizes
    1..2, mesh shapes (3,3), (2,4), (4,3)."""
    import autoarray as aa
    _quiet()
    # floating-point ties are excluded: skip inputs with a data point within 1e-6 of a mesh-pixel boundary (e.g. the middle
    # row of an odd number of rows under an even number of mesh rows), where rounding alone decides the index
    g0 = np.asarray(aa.OverSamplerUniform(mask=aa.Mask2D(mask=mask.copy(), pixel_scales=pixel_scales, origin=(0.0, 0.0)),
                                          sub_size=sub).over_sampled_grid._array, dtype=float)
    for ax in (0, 1):
        lo, hi = g0[:, ax].min() - 1.0e-8, g0[:, ax].max() + 1.0e-8
        t = (g0[:, ax] - lo) / (hi - lo) * mesh_shape[ax]
        if np.any(np.abs(t - np.round(t)) < 1.0e-6):
            return None

    def build(o, shift):
        mk = aa.Mask2D(mask=mask.copy(), pixel_scales=pixel_scales, origin=o)
        ov = aa.OverSamplerUniform(mask=mk, sub_size=sub)
        grid = ov.over_sampled_grid
        mesh = aa.Mesh2DRectangular.overlay_grid(grid=grid, shape_native=mesh_shape)
        mg = aa.MapperGrids(mask=mk, source_plane_data_grid=grid, source_plane_mesh_grid=mesh, image_plane_mesh_grid=None, adapt_data=None)
        mp = aa.MapperRectangular(mapper_grids=mg, over_sampler=ov, border_relocator=None, regularization=aa.reg.Constant(coefficient=1.0))
        return [("Mesh2DRectangular.overlay_grid", "coord", mesh), ("Mesh2DRectangular.overlay_grid.origin", "coord", mesh.origin),
                ("Mesh2DRectangular.overlay_grid.pixel_scales", "same", mesh.pixel_scales),
                ("Mesh2DRectangular.geometry.extent", "extent", mesh.geometry.extent),
                ("mapper.pix_indexes_for_sub_slim_index", "same", mp.pix_indexes_for_sub_slim_index),
                ("mapper.pix_sizes_for_sub_slim_index", "same", mp.pix_sizes_for_sub_slim_index),
                ("mapper.pix_weights_for_sub_slim_index", "same", mp.pix_weights_for_sub_slim_index),
                ("mapper.mapping_matrix", "same", mp.mapping_matrix),
                ("mapper.regularization_matrix", "same", mp.regularization_matrix)]
    return _two_runs(build, origin, d)


def _gen_delaunay(rng, tier):
    for c in _ring_margin_masks(rng, tier, 7, 2, 300, 2000):
        k = rng.randint(5, 8)
        yield dict(c, mesh_frac=np.array([[round(rng.uniform(-0.6, 0.6), 4), round(rng.uniform(-0.6, 0.6), 4)] for _ in range(k)]))


@bounded("C12", "mapper-delaunay-mapping-matrix", gen=_gen_delaunay, nontrivial=_nt)
def mapper_delaunay(mask, pixel_scales, origin, d, mesh_frac):
    """C12: 'mapper ... weight tables and mapping matrices' unchanged for MapperDelaunay when data grid AND mesh points are
    translated by d -- mapping_matrix (interpolation weights), pix_sizes_for_sub_slim_index, regularization matrix; mesh
    points in general position (seeded); bound: 300 (2000) random 7x7 masks x 5..8 mesh points."""
    import autoarray as aa
    _quiet()
    H, W = mask.shape
    rel = mesh_frac * np.array([H * pixel_scales[0], W * pixel_scales[1]])

    def build(o, shift):
        mk = aa.Mask2D(mask=mask.copy(), pixel_scales=pixel_scales, origin=o)
        ov = aa.OverSamplerUniform(mask=mk, sub_size=1)
        grid = ov.over_sampled_grid
        mesh = aa.Mesh2DDelaunay(values=rel + np.array(o))
        mg = aa.MapperGrids(mask=mk, source_plane_data_grid=grid, source_plane_mesh_grid=mesh, image_plane_mesh_grid=None, adapt_data=None)
        mp = aa.MapperDelaunay(mapper_grids=mg, over_sampler=ov, border_relocator=None, regularization=aa.reg.Constant(coefficient=1.0))
        return [_safe("MapperDelaunay.mapping_matrix", "same", lambda: mp.mapping_matrix),
                _safe("MapperDelaunay.regularization_matrix", "same", lambda: mp.regularization_matrix)]
    return _two_runs(build, origin, d)


# =============================================================================================== datasets

def _imaging(aa, shape, pixel_scales, o, seed, sub=2):
    r = np.random.default_rng(seed)
    data = aa.Array2D.no_mask(values=r.uniform(1.0, 6.0, size=shape), pixel_scales=pixel_scales, origin=o)
    noise = aa.Array2D.no_mask(values=r.uniform(1.0, 2.0, size=shape), pixel_scales=pixel_scales, origin=o)
    psf = aa.Kernel2D.no_mask(values=[[0.0, 0.5, 0.0], [0.5, 1.0, 0.5], [0.0, 0.5, 0.0]], pixel_scales=pixel_scales)
    return aa.Imaging(data=data, noise_map=noise, psf=psf,
                      over_sampling=aa.OverSamplingDataset(uniform=aa.OverSamplingUniform(sub_size=sub)))


def _dataset_results(ds, prefix):
    out = [(prefix + ".data values", "same", ds.data.native), (prefix + ".noise_map values", "same", ds.noise_map.native),
           (prefix + ".data.mask", "same", np.asarray(ds.data.mask._array)),
           (prefix + ".data.mask.origin", "coord", ds.data.mask.origin), (prefix + ".noise_map.mask.origin", "coord", ds.noise_map.mask.origin),
           (prefix + ".mask.geometry.extent", "extent", ds.mask.geometry.extent),
           _safe(prefix + ".grid / grids.uniform", "coord", lambda: ds.grids.uniform),
           _safe(prefix + ".grids.uniform over-sampled grid", "coord", lambda: ds.grids.uniform.over_sampler.over_sampled_grid),
           _safe(prefix + ".grids.pixelization", "coord", lambda: ds.grids.pixelization),
           _safe(prefix + ".grids.blurring", "coord", lambda: ds.grids.blurring),
           _safe(prefix + ".grids.border_relocator.sub_border_grid", "coord", lambda: ds.grids.border_relocator.sub_border_grid)]
    return out


def _gen_ds(rng, tier):
    i = 0
    for c in _ring_margin_masks(rng, tier, 7, 2, 200, 1500):
        yield dict(c, seed=rng.randrange(10 ** 6))
        i += 1


@bounded("C12", "imaging-apply-mask", gen=_gen_ds, nontrivial=_nt)
def imaging_apply_mask(mask, pixel_scales, origin, d, seed):
    """C12: '... the grids of masked ... datasets ... by exactly d' -- Imaging(...) and Imaging.apply_mask(mask): origin of data /
    noise-map masks, grids.uniform / pixelization / blurring, over-sampled grid, border-relocator grid shift by d; values
    unchanged; bound: 200 (1500) seeded 7x7 datasets, random central masks."""
    import autoarray as aa
    _quiet()

    def build(o, shift):
        ds = _imaging(aa, mask.shape, pixel_scales, o, seed)
        mk = aa.Mask2D(mask=mask.copy(), pixel_scales=pixel_scales, origin=o)
        return _dataset_results(ds, "Imaging") + _dataset_results(ds.apply_mask(mask=mk), "apply_mask")
    return _two_runs(build, origin, d)


@bounded("C12", "imaging-apply-noise-scaling", gen=_gen_ds, nontrivial=_nt)
def imaging_noise_scaling(mask, pixel_scales, origin, d, seed):
    """C12: '... the grids of ... noise-scaled ... datasets ... by exactly d' -- call site Imaging.apply_noise_scaling(mask,
    noise_value | signal_to_noise_value) (dataset/imaging/dataset.py, rebuilds data / noise map with Array2D.no_mask):
    origins and grids of the returned dataset shift by d, values unchanged; bound: 200 (1500) seeded 7x7 datasets."""
    import autoarray as aa
    _quiet()

    def build(o, shift):
        ds = _imaging(aa, mask.shape, pixel_scales, o, seed)
        mk = aa.Mask2D(mask=mask.copy(), pixel_scales=pixel_scales, origin=o)
        return (_dataset_results(ds.apply_noise_scaling(mask=mk, noise_value=1.0e8), "apply_noise_scaling(noise_value)") +
                _dataset_results(ds.apply_noise_scaling(mask=mk, signal_to_noise_value=3.0), "apply_noise_scaling(signal_to_noise_value)"))
    return _two_runs(build, origin, d)


@bounded("C12", "imaging-apply-over-sampling", gen=_gen_ds, nontrivial=_nt)
def imaging_over_sampling(mask, pixel_scales, origin, d, seed):
    """C12: same clause -- Imaging.apply_over_sampling(OverSamplingDataset(...)) on the unmasked and on the masked dataset:
    origins, grids and over-sampled grids of the returned dataset shift by d; bound: 200 (1500) seeded 7x7 datasets."""
    import autoarray as aa
    _quiet()

    def build(o, shift):
        ds = _imaging(aa, mask.shape, pixel_scales, o, seed)
        mk = aa.Mask2D(mask=mask.copy(), pixel_scales=pixel_scales, origin=o)
        osd = aa.OverSamplingDataset(uniform=aa.OverSamplingUniform(sub_size=3), pixelization=aa.OverSamplingUniform(sub_size=2))
        return (_dataset_results(ds.apply_over_sampling(over_sampling=osd), "apply_over_sampling") +
                _dataset_results(ds.apply_mask(mask=mk).apply_over_sampling(over_sampling=osd), "apply_mask.apply_over_sampling"))
    return _two_runs(build, origin, d)


@bounded("C12", "imaging-trimmed-after-convolution", gen=_gen_ds, nontrivial=_nt)
def imaging_trimmed(mask, pixel_scales, origin, d, seed):
    """C12: '... the grids of ... trimmed ... datasets ... by exactly d' -- Imaging.trimmed_after_convolution_from((3,3)) of the
    unmasked and the masked dataset (fresh dataset, nothing read before trimming -- the cache defect of C11 is kept out);
    bound: 200 (1500) seeded 7x7 datasets."""
    import autoarray as aa
    _quiet()

    def build(o, shift):
        mk = aa.Mask2D(mask=mask.copy(), pixel_scales=pixel_scales, origin=o)
        t1 = _imaging(aa, mask.shape, pixel_scales, o, seed).trimmed_after_convolution_from(kernel_shape=(3, 3))
        t2 = _imaging(aa, mask.shape, pixel_scales, o, seed).apply_mask(mask=mk).trimmed_after_convolution_from(kernel_shape=(3, 3))
        return _dataset_results(t1, "trimmed") + _dataset_results(t2, "apply_mask.trimmed")
    return _two_runs(build, origin, d)


def _gen_sim(rng, tier):
    for i in range(gens.budget(tier, 300, 2000)):
        g = _geo(rng, i)
        h, w = rng.randint(3, 6), rng.randint(3, 6)
        yield dict(g, image=gens.reals(rng, (h, w), 0.5, 5.0, special=False), noise_seed=rng.randint(0, 10 ** 6), add_noise=i % 3 != 2)


@bounded("C12", "simulator-imaging-via-image-from", gen=_gen_sim,
         nontrivial=lambda pixel_scales, origin, d, image, noise_seed, add_noise: pixel_scales[0] != pixel_scales[1])
def simulator(pixel_scales, origin, d, image, noise_seed, add_noise):
    """C12: '... the grids of ... simulated datasets ... by exactly d' -- call site SimulatorImaging(...).via_image_from(image)
    (dataset/imaging/simulator.py, rebuilds with Array2D.full / Mask2D.all_false): origins and grids of the simulated data
    and noise map follow the origin of the input image; values identical (fixed noise seed); bound: 300 (2000) seeded images
    <= 6x6."""
    import autoarray as aa
    _quiet()

    def build(o, shift):
        img = aa.Array2D.no_mask(values=image.copy(), pixel_scales=pixel_scales, origin=o)
        psf = aa.Kernel2D.no_mask(values=[[0.0, 0.5, 0.0], [0.5, 1.0, 0.5], [0.0, 0.5, 0.0]], pixel_scales=pixel_scales)
        out = [("input image grid", "coord", _grid_of(img.mask))]
        saved = np.random.get_state()
        try:
            # every combination of the simulator's switches (16): each builds its maps on the image's frame
            for k, (with_psf, sub_sky, in_map, norm) in enumerate(itertools.product((True, False), repeat=4)):
                ds = aa.SimulatorImaging(exposure_time=300.0, psf=psf if with_psf else None, background_sky_level=1.0, noise_seed=noise_seed,
                                         subtract_background_sky=sub_sky, normalize_psf=norm, add_poisson_noise_to_data=add_noise,
                                         include_poisson_noise_in_noise_map=in_map).via_image_from(image=img)
                out += _dataset_results(ds, "via_image_from[psf=%s, subtract_sky=%s, poisson_in_noise_map=%s, normalize_psf=%s]" % (
                    with_psf, sub_sky, in_map, norm))
        finally:
            np.random.set_state(saved)
        return out
    return _two_runs(build, origin, d)


def _gen_snr(rng, tier):
    for c in _gen_masks(rng, tier, 4, 6, 100, 2000, min_unmasked=1, hmin=2, wmin=1):      # 1-row data takes an Array1D path
        yield dict(c, seed=rng.randrange(10 ** 6), limit=rng.choice([0.5, 2.0, 5.0]), use_limit_mask=bool(rng.getrandbits(1)))


@bounded("C12", "preprocess-noise-map-signal-to-noise-limit", gen=_gen_snr, nontrivial=_nt)
def snr_limit(mask, pixel_scales, origin, d, seed, limit, use_limit_mask):
    """C12: '... preprocess.noise_map_with_signal_to_noise_limit_from-style outputs' masks/origins' -- call site
    dataset/preprocess.py noise_map_with_signal_to_noise_limit_from(data, noise_map, limit, noise_limit_mask) (rebuilds
    with Mask2D.all_false): the returned noise map's values are unchanged and its mask origin / pixel-centre grid shift by
    d; bound: masks with >= 2 rows, <= 4 (6) cells exhaustive, 100 (2000) random <= 7x7."""
    import autoarray as aa
    from autoarray.dataset import preprocess
    _quiet()
    r = np.random.default_rng(seed)
    dv, nv = r.uniform(-2.0, 8.0, size=mask.shape), r.uniform(0.5, 2.0, size=mask.shape)
    lm = (r.random(mask.shape) < 0.5) if use_limit_mask else None

    def build(o, shift):
        mk = aa.Mask2D(mask=mask.copy(), pixel_scales=pixel_scales, origin=o)
        data = aa.Array2D(values=dv.copy(), mask=mk)
        noise = aa.Array2D(values=nv.copy(), mask=mk)
        res = preprocess.noise_map_with_signal_to_noise_limit_from(data=data, noise_map=noise, signal_to_noise_limit=limit,
                                                                   noise_limit_mask=None if lm is None else lm.copy())
        return [("input data grid", "coord", _grid_of(data.mask)), ("result values", "same", res.native),
                ("result.mask.origin", "coord", res.mask.origin), ("pixel-centre grid of the result", "coord", _grid_of(res.mask)),
                ("result.mask.geometry.extent", "extent", res.mask.geometry.extent)]
    return _two_runs(build, origin, d)
