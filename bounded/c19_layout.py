"""C19 layout regions: rotation for a read-out corner, extraction windows, front / trailing sub-regions, validation
(bounded stand-in, exhaustive over small shapes; see docs/BOUNDED_GUIDE.md).

Regions are half-open index boxes (y0, y1, x0, x1) / (x0, x1); arrays used for content comparisons hold pairwise distinct
values, so 'slices the same content' pins the region down uniquely."""
import itertools
import numpy as np
from pyvc.bounded import bounded
from pyvc import gens

CORNERS = [(1, 0), (0, 0), (1, 1), (0, 1)]


def _arr(shape):
    return (np.arange(shape[0] * shape[1], dtype=float).reshape(shape) + 1.0) * 1.5


def _regions_1d(n):
    return [(a, b) for a in range(n) for b in range(a + 1, n + 1)]


def _regions_2d(shape):
    return [(y0, y1, x0, x1) for (y0, y1) in _regions_1d(shape[0]) for (x0, x1) in _regions_1d(shape[1])]


def _shapes(nmax):
    return [(h, w) for h in range(1, nmax + 1) for w in range(1, nmax + 1)]


def _t(r):
    """region object or tuple -> tuple of ints (None stays None)"""
    if r is None:
        return None
    while hasattr(r, "region"):          # a Region built from a Region nests; indexing sees through, len() does not
        r = r.region
    return tuple(int(v) for v in r)


def _overlap_1d(o, e):
    lo, hi = max(o[0], e[0]), min(o[1], e[1])
    return None if lo >= hi else (lo - e[0], hi - e[0])


def _overlap_2d(o, e):
    a, b = _overlap_1d(o[0:2], e[0:2]), _overlap_1d(o[2:4], e[2:4])
    return None if a is None or b is None else a + b


# ----------------------------------------------------------------------------------------------- rotation

def _gen_rotate(rng, tier):
    for shape in _shapes(5):
        for region in _regions_2d(shape):
            for corner in CORNERS:
                yield {"shape": shape, "region": region, "roe_corner": corner}


@bounded("C19", "rotate-commute-involution", gen=_gen_rotate,
         nontrivial=lambda shape, region, roe_corner: roe_corner != (1, 0) and (region[1] - region[0], region[3] - region[2]) != tuple(shape))
def rotate_commute_involution(shape, region, roe_corner):
    """C19: 'Rotating a region for a read-out corner and rotating the array the same way commute: the rotated region
    slices from the rotated array exactly the rotated content of the original region, and applying the same rotation
    twice restores array and region' -- layout_util.rotate_array_via_roe_corner_from / rotate_region_via_roe_corner_from
    (tuple and Region2D inputs); bound: EXHAUSTIVE all shapes <= 5x5, all 1225 regions, all four corners (4900 cases)."""
    import autoarray as aa
    from autoarray.layout import layout_util as lu
    a = _arr(shape)
    a0 = a.copy()
    ra = lu.rotate_array_via_roe_corner_from(array=a, roe_corner=roe_corner)
    if not np.array_equal(a, a0):
        return "rotate_array modified its input"
    if ra is None or ra.shape != a.shape:
        return "rotated array has shape %r" % (None if ra is None else ra.shape,)
    for label, reg in (("tuple", tuple(region)), ("Region2D", aa.Region2D(region=tuple(region)))):
        rr = lu.rotate_region_via_roe_corner_from(region=reg, shape_native=shape, roe_corner=roe_corner)
        if not isinstance(rr, aa.Region2D):
            return "%s input: rotated region is %r, not a Region2D" % (label, rr)
        y0, y1, x0, x1 = region
        want = lu.rotate_array_via_roe_corner_from(array=a[y0:y1, x0:x1].copy(), roe_corner=roe_corner)
        got = ra[rr.slice]
        if got.shape != want.shape or not np.array_equal(got, want):
            return "%s input: rotated region %r slices %r from the rotated array, rotated content of the original region is %r" % (
                label, _t(rr), got.tolist(), want.tolist())
        back = lu.rotate_region_via_roe_corner_from(region=rr, shape_native=shape, roe_corner=roe_corner)
        if _t(back) != tuple(region):
            return "%s input: rotating the region twice gives %r, not %r" % (label, _t(back), tuple(region))
    raa = lu.rotate_array_via_roe_corner_from(array=ra, roe_corner=roe_corner)
    if not np.array_equal(raa, a0):
        return "rotating the array twice does not restore it"
    if lu.rotate_region_via_roe_corner_from(region=None, shape_native=shape, roe_corner=roe_corner) is not None:
        return "an absent region did not stay absent"
    return None


# ----------------------------------------------------------------------------------------------- extraction

def _gen_x0x1(rng, tier):
    n = gens.budget(tier, 7, 10)
    for size in range(1, n + 1):
        for o in _regions_1d(size):
            for e in _regions_1d(size):
                if max(o[1], e[1]) == size:          # each (o, e) pair once, at the smallest array that holds it
                    yield {"original": o, "window": e}


@bounded("C19", "extraction-1d", gen=_gen_x0x1,
         nontrivial=lambda original, window: _overlap_1d(original, window) not in (None, (0, window[1] - window[0])))
def extraction_1d(original, window):
    """C19: 'The region returned after extracting a sub-window addresses, inside the extracted window, exactly the
    overlap of the original region with the window, and is absent when they do not overlap' (one axis) --
    layout_util.x0x1_after_extraction; bound: EXHAUSTIVE all interval pairs inside arrays of length <= 7 (10)."""
    from autoarray.layout import layout_util as lu
    got = lu.x0x1_after_extraction(x0o=original[0], x1o=original[1], x0e=window[0], x1e=window[1])
    want = _overlap_1d(original, window)
    got_t = None if (got is None or got[0] is None or got[1] is None) else (int(got[0]), int(got[1]))
    if got_t != want:
        return "original %r, window %r: got %r, overlap relative to the window is %r" % (original, window, got, want)
    return None


def _gen_extract2d(rng, tier):
    for shape in _shapes(gens.budget(tier, 4, 5)):
        regs = _regions_2d(shape)
        for o in regs:
            for e in regs:
                if max(o[1], e[1]) == shape[0] and max(o[3], e[3]) == shape[1]:
                    yield {"shape": shape, "original": o, "window": e}
    regs = _regions_2d((5, 5))
    for _ in range(gens.budget(tier, 4000, 0)):
        yield {"shape": (5, 5), "original": rng.choice(regs), "window": rng.choice(regs)}


@bounded("C19", "extraction-2d", gen=_gen_extract2d,
         nontrivial=lambda shape, original, window: _overlap_2d(original, window) is not None and tuple(original) != tuple(window))
def extraction_2d(shape, original, window):
    """C19: 'The region returned after extracting a sub-window addresses, inside the extracted window, exactly the
    overlap of the original region with the window, and is absent when they do not overlap' --
    layout_util.region_after_extraction (tuple / Region2D inputs), checked on coordinates and on array content
    (A[window][result] == A[original ∩ window]); bound: EXHAUSTIVE all region x window pairs for shapes <= 4x4
    (10000 distinct pairs) + 4000 seeded pairs on 5x5; thorough: EXHAUSTIVE <= 5x5 (50625 pairs)."""
    import autoarray as aa
    from autoarray.layout import layout_util as lu
    want = _overlap_2d(original, window)
    a = _arr(shape)
    for label, o, e in (("tuple", tuple(original), tuple(window)),
                        ("Region2D", aa.Region2D(region=tuple(original)), aa.Region2D(region=tuple(window)))):
        got = lu.region_after_extraction(original_region=o, extraction_region=e)
        if want is None:
            if got is not None:
                return "%s: no overlap between %r and window %r but region %r returned" % (label, original, window, _t(got))
            continue
        if got is None:
            return "%s: overlap of %r with window %r exists (%r relative to the window) but None returned" % (label, original, window, want)
        if not isinstance(got, aa.Region2D) or _t(got) != want:
            return "%s: original %r, window %r: got %r, overlap relative to the window is %r" % (label, original, window, _t(got), want)
        ext = a[window[0]:window[1], window[2]:window[3]]
        oy0, oy1, ox0, ox1 = max(original[0], window[0]), min(original[1], window[1]), max(original[2], window[2]), min(original[3], window[3])
        if not np.array_equal(ext[got.slice], a[oy0:oy1, ox0:ox1]):
            return "%s: content addressed inside the extracted window is not the overlap's content" % label
    if lu.region_after_extraction(original_region=None, extraction_region=tuple(window)) is not None:
        return "an absent region did not stay absent after extraction"
    return None


# ----------------------------------------------------------------------------------------------- validation

def _gen_valid(rng, tier):
    lo, hi = -2, gens.budget(tier, 3, 5)
    for r in itertools.product(range(lo, hi + 1), repeat=2):
        yield {"region": tuple(r)}
    for r in itertools.product(range(lo, hi + 1), repeat=4):
        yield {"region": tuple(r)}


@bounded("C19", "region-validation", gen=_gen_valid, nontrivial=lambda region: min(region) >= 0)
def region_validation(region):
    """C19: 'invalid regions (negative or empty extents) are rejected' and valid ones address exactly their rows /
    columns -- aa.Region1D / aa.Region2D constructors, .slice, .shape, .total_rows/.total_columns/.total_pixels,
    .y_slice/.x_slice; bound: EXHAUSTIVE all integer tuples with entries in -2..3 (-2..5): 36 + 1296 (64 + 4096)."""
    import autoarray as aa
    if len(region) == 2:
        valid = region[0] >= 0 and region[1] >= 0 and region[0] < region[1]
        try:
            r = aa.Region1D(region=region)
        except Exception:
            return None if not valid else "valid Region1D %r rejected" % (region,)
        if not valid:
            return "invalid Region1D %r accepted" % (region,)
        a = np.arange(8.0) + 1.0
        if not np.array_equal(a[r.slice], a[region[0]:region[1]]) or r.total_pixels != region[1] - region[0]:
            return "Region1D %r: slice / total_pixels wrong" % (region,)
        if (r.x0, r.x1) != tuple(region) or not np.array_equal(a[r.x_slice], a[region[0]:region[1]]):
            return "Region1D %r: x0/x1/x_slice wrong" % (region,)
        return None
    y0, y1, x0, x1 = region
    valid = min(region) >= 0 and y0 < y1 and x0 < x1
    try:
        r = aa.Region2D(region=region)
    except Exception:
        return None if not valid else "valid Region2D %r rejected" % (region,)
    if not valid:
        return "invalid Region2D %r accepted" % (region,)
    a = _arr((7, 8))
    if not np.array_equal(a[r.slice], a[y0:y1, x0:x1]):
        return "Region2D %r: slice does not address rows y0..y1-1, columns x0..x1-1" % (region,)
    if tuple(r.shape) != (y1 - y0, x1 - x0) or r.total_rows != y1 - y0 or r.total_columns != x1 - x0:
        return "Region2D %r: shape/total_rows/total_columns wrong" % (region,)
    if (r.y0, r.y1, r.x0, r.x1) != tuple(region):
        return "Region2D %r: y0/y1/x0/x1 wrong" % (region,)
    if not np.array_equal(a[r.y_slice], a[y0:y1]) or not np.array_equal(a[:, r.x_slice], a[:, x0:x1]):
        return "Region2D %r: y_slice/x_slice wrong" % (region,)
    return None


# ----------------------------------------------------------------------------------------------- sub-regions

PMAX = 4


def _pixel_ranges():
    return [(p0, p1) for p0 in range(0, PMAX + 1) for p1 in range(0, PMAX + 1)]


def _expect(call, want):
    """call() must return a region equal to `want`; if `want` is an invalid region (empty / reversed) it must raise"""
    valid = want is not None and min(want) >= 0 and all(want[k] < want[k + 1] for k in range(0, len(want), 2))
    try:
        got = call()
    except Exception as e:
        return None if not valid else "raised %s: %s (expected %r)" % (type(e).__name__, e, want)
    if not valid:
        return "returned %r although the requested extent %r is empty or negative" % (_t(got), want)
    if _t(got) != tuple(want):
        return "returned %r, expected %r" % (_t(got), tuple(want))
    return None


def _gen_sub2d(rng, tier):
    for shape in _shapes(5):
        for region in _regions_2d(shape):
            if region[1] == shape[0] or region[3] == shape[1] or shape == (5, 5):   # each parent at its tightest shapes + 5x5
                yield {"shape": shape, "region": region}


@bounded("C19", "subregions-2d", gen=_gen_sub2d,
         nontrivial=lambda shape, region: region[0] > 0 or region[2] > 0)
def subregions_2d(shape, region):
    """C19: 'Front and trailing sub-regions (parallel and serial ... 2D) have exactly the requested rows or columns
    counted from the parent edge they are named for, and invalid regions (negative or empty extents) are rejected' --
    Region2D.parallel_front_region_from (pixels / pixels_from_end), parallel_trailing_region_from,
    parallel_full_region_from, serial_front_region_from (pixels / pixels_from_end), serial_trailing_region_from,
    serial_towards_roe_full_region_from, serial_x_front_range_from; the sub-region is also used as a Region2D on an
    array (content check); bound: EXHAUSTIVE parents inside shapes <= 5x5, ALL pixel ranges (p0,p1) in 0..4 x 0..4
    (empty / reversed ranges must raise), pixels_from_end 1..extent."""
    import autoarray as aa
    y0, y1, x0, x1 = region
    h, w = shape
    r = aa.Region2D(region=tuple(region))
    big = _arr((h + PMAX + 1, w + PMAX + 1))
    for (p0, p1) in _pixel_ranges():
        cases = [
            ("parallel_front_region_from(pixels=%r)" % ((p0, p1),), lambda: r.parallel_front_region_from(pixels=(p0, p1)), (y0 + p0, y0 + p1, x0, x1)),
            ("parallel_trailing_region_from(pixels=%r)" % ((p0, p1),), lambda: r.parallel_trailing_region_from(pixels=(p0, p1)), (y1 + p0, y1 + p1, x0, x1)),
            ("serial_front_region_from(pixels=%r)" % ((p0, p1),), lambda: r.serial_front_region_from(pixels=(p0, p1)), (y0, y1, x0 + p0, x0 + p1)),
            ("serial_trailing_region_from(pixels=%r)" % ((p0, p1),), lambda: r.serial_trailing_region_from(pixels=(p0, p1)), (y0, y1, x1 + p0, x1 + p1)),
            ("serial_towards_roe_full_region_from(shape_2d=%r, pixels=%r)" % (shape, (p0, p1)),
             lambda: r.serial_towards_roe_full_region_from(shape_2d=shape, pixels=(p0, p1)), (0, h, x0 + p0, x0 + p1)),
        ]
        for name, call, want in cases:
            msg = _expect(call, want)
            if msg:
                return "Region2D%r.%s %s" % (tuple(region), name, msg)
            if p0 < p1:
                sub = call()
                if not np.array_equal(big[sub.slice], big[want[0]:want[1], want[2]:want[3]]):
                    return "Region2D%r.%s does not address the requested rows/columns" % (tuple(region), name)
        if tuple(r.serial_x_front_range_from(pixels=(p0, p1))) != (x0 + p0, x0 + p1):
            return "Region2D%r.serial_x_front_range_from(%r) wrong" % (tuple(region), (p0, p1))
    for k in range(1, (y1 - y0) + 1):
        msg = _expect(lambda: r.parallel_front_region_from(pixels_from_end=k), (y1 - k, y1, x0, x1))
        if msg:
            return "Region2D%r.parallel_front_region_from(pixels_from_end=%d) %s" % (tuple(region), k, msg)
    for k in range(1, (x1 - x0) + 1):
        msg = _expect(lambda: r.serial_front_region_from(pixels_from_end=k), (y0, y1, x1 - k, x1))
        if msg:
            return "Region2D%r.serial_front_region_from(pixels_from_end=%d) %s" % (tuple(region), k, msg)
    msg = _expect(lambda: r.parallel_full_region_from(shape_2d=shape), (y0, y1, 0, w))
    if msg:
        return "Region2D%r.parallel_full_region_from(%r) %s" % (tuple(region), shape, msg)
    msg = _expect(lambda: r.parallel_trailing_region_from(), (y1, y1 + 1, x0, x1))
    if msg:
        return "Region2D%r.parallel_trailing_region_from() [default one row] %s" % (tuple(region), msg)
    msg = _expect(lambda: r.serial_trailing_region_from(), (y0, y1, x1, x1 + 1))
    if msg:
        return "Region2D%r.serial_trailing_region_from() [default one column] %s" % (tuple(region), msg)
    return None


def _gen_sub1d(rng, tier):
    for n in range(1, gens.budget(tier, 8, 12) + 1):
        for region in _regions_1d(n):
            if region[1] == n:
                yield {"region": region}


@bounded("C19", "subregions-1d", gen=_gen_sub1d, nontrivial=lambda region: region[0] > 0)
def subregions_1d(region):
    """C19: 'Front and trailing sub-regions (... 1D ...) have exactly the requested rows or columns counted from the
    parent edge they are named for, and invalid regions ... are rejected' -- Region1D.front_region_from (pixels /
    pixels_from_end), trailing_region_from; bound: EXHAUSTIVE all parents with x1 <= 8 (12), all pixel ranges in 0..4 x
    0..4, pixels_from_end 1..extent."""
    import autoarray as aa
    x0, x1 = region
    r = aa.Region1D(region=tuple(region))
    big = np.arange(float(x1 + PMAX + 2)) + 1.0
    for (p0, p1) in _pixel_ranges():
        for name, call, want in (
                ("front_region_from(pixels=%r)" % ((p0, p1),), lambda: r.front_region_from(pixels=(p0, p1)), (x0 + p0, x0 + p1)),
                ("trailing_region_from(pixels=%r)" % ((p0, p1),), lambda: r.trailing_region_from(pixels=(p0, p1)), (x1 + p0, x1 + p1))):
            msg = _expect(call, want)
            if msg:
                return "Region1D%r.%s %s" % (tuple(region), name, msg)
            if p0 < p1 and not np.array_equal(big[call().slice], big[want[0]:want[1]]):
                return "Region1D%r.%s does not address the requested pixels" % (tuple(region), name)
    for k in range(1, (x1 - x0) + 1):
        msg = _expect(lambda: r.front_region_from(pixels_from_end=k), (x1 - k, x1))
        if msg:
            return "Region1D%r.front_region_from(pixels_from_end=%d) %s" % (tuple(region), k, msg)
    return None


# ----------------------------------------------------------------------------------------------- Layout2D / Array2D wrappers

def _gen_layout(rng, tier):
    for _ in range(gens.budget(tier, 600, 10000)):
        shape = (rng.randint(1, 5), rng.randint(1, 5))
        regs = _regions_2d(shape)
        pick = lambda: (rng.choice(regs) if rng.random() < 0.8 else None)
        yield {"shape": shape, "roe_corner": rng.choice(CORNERS), "parallel_overscan": pick(), "serial_prescan": pick(),
               "serial_overscan": pick(), "window": rng.choice(regs)}


@bounded("C19", "layout2d-wrappers", gen=_gen_layout,
         nontrivial=lambda shape, roe_corner, parallel_overscan, serial_prescan, serial_overscan, window:
         roe_corner != (1, 0) and parallel_overscan is not None and serial_overscan is not None)
def layout2d_wrappers(shape, roe_corner, parallel_overscan, serial_prescan, serial_overscan, window):
    """C19: rotation commutes / is an involution and extraction yields the overlap, at the class layer --
    Layout2D.rotated_from_roe_corner, .new_rotated_from (twice = identity), .original_orientation_from,
    .layout_extracted_from, .extract_parallel_overscan_array_2d_from / .extract_serial_overscan_array_from;
    regions may be absent (None); bound: 600 (10000) seeded layouts on shapes <= 5x5."""
    import autoarray as aa
    from autoarray.layout import layout_util as lu
    names = ("parallel_overscan", "serial_prescan", "serial_overscan")
    orig = dict(zip(names, (parallel_overscan, serial_prescan, serial_overscan)))
    a = _arr(shape)
    ra = lu.rotate_array_via_roe_corner_from(array=a.copy(), roe_corner=roe_corner)
    lay = aa.Layout2D.rotated_from_roe_corner(roe_corner=roe_corner, shape_native=shape, **orig)
    if tuple(lay.original_roe_corner) != tuple(roe_corner) or tuple(lay.shape_2d) != tuple(shape):
        return "rotated_from_roe_corner lost the corner / shape"
    for n in names:
        got, o = getattr(lay, n), orig[n]
        if o is None:
            if got is not None:
                return "%s: absent region became %r" % (n, _t(got))
            continue
        want = lu.rotate_array_via_roe_corner_from(array=a[o[0]:o[1], o[2]:o[3]].copy(), roe_corner=roe_corner)
        if got is None or not np.array_equal(ra[got.slice], want):
            return "rotated_from_roe_corner: %s %r -> %r does not slice the rotated content from the rotated array" % (n, o, _t(got))
    if not np.array_equal(lay.original_orientation_from(array=ra.copy()), a):
        return "original_orientation_from(rotated array) does not restore the array"
    back = lay.new_rotated_from(roe_corner=roe_corner)
    for n in names:
        if _t(getattr(back, n)) != (None if orig[n] is None else tuple(orig[n])):
            return "new_rotated_from applied to the rotated layout gives %s = %r, not the original %r" % (n, _t(getattr(back, n)), orig[n])
    # three steps: rotate for the corner, extract a window, bring the window's content back to its original orientation -- the extracted
    # layout is still the layout of a frame read out from that corner, so this is the same flip applied to the window alone
    extr = lay.layout_extracted_from(extraction_region=tuple(window))
    wa = ra[window[0]:window[1], window[2]:window[3]]
    if wa.size:
        got = extr.original_orientation_from(array=wa.copy())
        want = lu.rotate_array_via_roe_corner_from(array=wa.copy(), roe_corner=roe_corner)
        if not np.array_equal(np.asarray(got), want):
            return ("layout_extracted_from(%r) of the layout rotated for corner %r, then original_orientation_from(window content): %r, the "
                    "rotation for that corner gives %r" % (window, roe_corner, np.asarray(got).tolist(), want.tolist()))
    # extraction on an un-rotated layout
    lay0 = aa.Layout2D(shape_2d=shape, **orig)
    ext = lay0.layout_extracted_from(extraction_region=tuple(window))
    for n in names:
        want = None if orig[n] is None else _overlap_2d(orig[n], window)
        if _t(getattr(ext, n)) != want:
            return "layout_extracted_from(%r): %s %r -> %r, overlap relative to the window is %r" % (window, n, orig[n], _t(getattr(ext, n)), want)
    arr0 = aa.Array2D.no_mask(values=a.copy(), pixel_scales=1.0)
    if parallel_overscan is not None:
        o = parallel_overscan
        got = lay0.extract_parallel_overscan_array_2d_from(array=arr0)
        if not np.array_equal(np.asarray(got.native), a[o[0]:o[1], o[2]:o[3]]):
            return "extract_parallel_overscan_array_2d_from is not the content of the region %r" % (o,)
    if serial_overscan is not None:
        o = serial_overscan
        got = lay0.extract_serial_overscan_array_from(array=arr0)
        if not np.array_equal(np.asarray(got.native), a[o[0]:o[1], o[2]:o[3]]):
            return "extract_serial_overscan_array_from is not the content of the region %r" % (o,)
    return None


def _gen_orient(rng, tier):
    for shape in _shapes(gens.budget(tier, 4, 5)):
        for corner in CORNERS:
            for store_native in (False, True):
                yield {"shape": shape, "roe_corner": corner, "store_native": store_native}


@bounded("C19", "array2d-original-orientation", gen=_gen_orient,
         nontrivial=lambda shape, roe_corner, store_native: roe_corner != (1, 0) and shape != (1, 1))
def array2d_original_orientation(shape, roe_corner, store_native):
    """C19: 'applying the same rotation twice restores array' at the class layer -- an Array2D holding an array that was
    rotated for read-out corner c (header.original_roe_corner = c) gives the un-rotated 2D array back from
    Array2D.original_orientation, in both storage modes (slim = default, native); bound: EXHAUSTIVE shapes <= 4x4 (5x5),
    four corners, two storage modes."""
    import autoarray as aa
    from autoarray.layout import layout_util as lu
    from autoarray.structures.header import Header
    a = _arr(shape)
    ra = lu.rotate_array_via_roe_corner_from(array=a.copy(), roe_corner=roe_corner)
    mk = aa.Mask2D.all_false(shape_native=shape, pixel_scales=1.0)
    # a masked array (mask not symmetric under any flip): what is un-rotated is its native form, masked pixels zero
    if shape[0] * shape[1] >= 3:
        mm = np.zeros(shape, dtype=bool)
        mm[0, 0] = True
        mm[-1, (shape[1] - 1) // 2] = shape[0] > 1 or shape[1] > 2
        if (~mm).sum() >= 1:
            am = aa.Array2D(values=ra.copy(), mask=aa.Mask2D(mask=mm, pixel_scales=1.0), header=Header(original_roe_corner=roe_corner),
                            store_native=store_native)
            want_m = lu.rotate_array_via_roe_corner_from(array=np.where(mm, 0.0, ra), roe_corner=roe_corner)
            got_m = np.asarray(am.original_orientation, dtype=float)
            if got_m.shape != want_m.shape or not np.array_equal(got_m, want_m):
                return "masked Array2D(store_native=%s).original_orientation = %r, the un-rotated native form is %r" % (
                    store_native, got_m.tolist(), want_m.tolist())
    arr = aa.Array2D(values=ra.copy(), mask=mk, header=Header(original_roe_corner=roe_corner), store_native=store_native)
    try:
        got = np.asarray(arr.original_orientation)
    except Exception as e:
        return "Array2D(store_native=%s).original_orientation raised %s: %s" % (store_native, type(e).__name__, e)
    if got.shape != a.shape or not np.array_equal(got, a):
        return "Array2D(store_native=%s).original_orientation = %r, un-rotated array is %r" % (store_native, got.tolist(), a.tolist())
    # the array edited in place (the library's own idiom `array[region.slice] = 0`) after its orientation had been asked for:
    # the un-rotated array is that of the CURRENT content
    if store_native:
        arr[0, 0] = -7.0
        ra2 = ra.copy(); ra2[0, 0] = -7.0
    else:
        arr[0] = -7.0
        ra2 = ra.copy(); ra2.reshape(-1)[0] = -7.0
    want2 = lu.rotate_array_via_roe_corner_from(array=ra2.copy(), roe_corner=roe_corner)
    got2 = np.asarray(arr.original_orientation)
    if got2.shape != want2.shape or not np.array_equal(got2, want2):
        return ("Array2D(store_native=%s): original_orientation read, one value edited in place, read again = %r, the un-rotated current "
                "content is %r" % (store_native, got2.tolist(), want2.tolist()))
    return None
