"""C02 class layer: Geometry2D / Geometry1D records, pixel <-> scaled conversions on Mask2D.geometry, pixel-centre grids
(Grid2D.from_mask / Grid2D.uniform / derive_grid, Grid1D) and the shape-based Mask2D constructors (bounded stand-in; see
docs/BOUNDED_GUIDE.md).

Every oracle is the closed formula of the property statement

    y(i) = origin_y + ((H-1)/2 - i) * s_y          x(j) = origin_x + (j - (W-1)/2) * s_x

evaluated with numpy; no repo function is used to produce an expected value.  Query coordinates keep a relative
distance >= 1e-6 pixel from pixel boundaries and pixels whose radius lies within 1e-9 of a mask radius are "don't care"
(the band the property excludes)."""
import numpy as np
from pyvc.bounded import bounded
from pyvc import gens

TOL = dict(rtol=1e-9, atol=1e-9)
BAND = 1e-9

_SCALES = [(1.0, 1.0), (2.0, 3.0), (0.5, 0.25), (0.1, 0.3), (1.7, 0.05), (3.0, 2.0)]
_ORIGINS = [(0.0, 0.0), (1.0, -2.0), (-0.35, 4.1), (3.0, 3.0), (-7.5, -0.125), (0.0, 2.5)]


def _rand_scales(rng):
    return (round(rng.uniform(0.05, 5.0), 3), round(rng.uniform(0.05, 5.0), 3))


def _rand_origin(rng):
    return (round(rng.uniform(-10.0, 10.0), 3), round(rng.uniform(-10.0, 10.0), 3))


def _centres(shape, scales, origin):
    """(H,W) arrays of the pixel-centre coordinates of the property statement"""
    H, W = shape
    i = np.arange(H, dtype=float)[:, None] + np.zeros((1, W))
    j = np.arange(W, dtype=float)[None, :] + np.zeros((H, 1))
    return origin[0] + ((H - 1) / 2.0 - i) * scales[0], origin[1] + (j - (W - 1) / 2.0) * scales[1]


def _close(a, b):
    return np.allclose(np.asarray(a, dtype=float), np.asarray(b, dtype=float), **TOL)


# ------------------------------------------------------------------------------------------------ extent / records


def _gen_record(rng, tier):
    hw = gens.budget(tier, 7, 10)
    k = 0
    for H in range(1, hw + 1):
        for W in range(1, hw + 1):
            for a in range(len(_SCALES)):
                # walk the (scale, origin) table on a diagonal so every pair shows up over the shapes, plus one random pair
                pairs = [(_SCALES[a], _ORIGINS[(a + k) % len(_ORIGINS)])]
                pairs += [(_rand_scales(rng), _rand_origin(rng)) for _ in range(gens.budget(tier, 4, 8))]
                for sc, og in pairs:
                    m1 = np.array([rng.random() < 0.4 for _ in range(H)], dtype=bool)
                    if m1.all():
                        m1[rng.randrange(H)] = False
                    yield {"shape": (H, W), "pixel_scales": sc, "origin": og, "mask_1d": m1}
            k += 1


@bounded("C02", "geometry-extent-records", gen=_gen_record,
         nontrivial=lambda shape, pixel_scales, origin, mask_1d: shape[0] != shape[1] and pixel_scales[0] != pixel_scales[1]
         and origin[0] != origin[1])
def geometry_extent_records(shape, pixel_scales, origin, mask_1d):
    """C02: 'the reported extent is exactly the union of the pixel squares' with 'pixel (i,j) has centre coordinate
    y = origin_y + ((H-1)/2 - i)*s_y, x = origin_x + (j - (W-1)/2)*s_x' -- Mask2D.geometry / Geometry2D: extent,
    scaled_minima, scaled_maxima, shape_native_scaled; Mask1D.geometry / Geometry1D: extent, minima, maxima,
    shape_slim_scaled (1D line of length H with s_y, origin_y); Grid1D.from_mask / Grid1D.uniform centres;
    bound: all shapes <= 7x7 (10x10) x 6 tabulated + 24 (48) random (scale pair, origin) combinations."""
    import autoarray as aa
    from autoarray.geometry.geometry_2d import Geometry2D
    from autoarray.geometry.geometry_1d import Geometry1D
    H, W = shape
    sy, sx = pixel_scales
    cy, cx = _centres(shape, pixel_scales, origin)
    # union of the pixel squares [c - s/2, c + s/2]
    y_min, y_max = (cy - sy / 2).min(), (cy + sy / 2).max()
    x_min, x_max = (cx - sx / 2).min(), (cx + sx / 2).max()
    mk = aa.Mask2D.all_false(shape_native=shape, pixel_scales=pixel_scales, origin=origin)
    for label, geo in (("Mask2D.geometry", mk.geometry),
                       ("Geometry2D", Geometry2D(shape_native=shape, pixel_scales=pixel_scales, origin=origin))):
        if not _close(geo.extent, (x_min, x_max, y_min, y_max)):
            return "%s.extent = %r, union of pixel squares = %r" % (label, tuple(geo.extent), (x_min, x_max, y_min, y_max))
        if not _close(geo.scaled_minima, (y_min, x_min)) or not _close(geo.scaled_maxima, (y_max, x_max)):
            return "%s.scaled_minima/maxima = %r / %r, expected %r / %r" % (
                label, tuple(geo.scaled_minima), tuple(geo.scaled_maxima), (y_min, x_min), (y_max, x_max))
        if not _close(geo.shape_native_scaled, (H * sy, W * sx)):
            return "%s.shape_native_scaled = %r, expected %r" % (label, tuple(geo.shape_native_scaled), (H * sy, W * sx))
    # 1D: the line of H pixels with scale s_y and origin origin_y, x(j) = origin + (j - (H-1)/2) * s
    j = np.arange(H, dtype=float)
    c1 = origin[0] + (j - (H - 1) / 2.0) * sy
    lo, hi = (c1 - sy / 2).min(), (c1 + sy / 2).max()
    m1 = aa.Mask1D(mask=mask_1d.copy(), pixel_scales=sy, origin=(origin[0],))
    for label, geo in (("Mask1D.geometry", m1.geometry),
                       ("Geometry1D", Geometry1D(shape_native=(H,), pixel_scales=(sy,), origin=(origin[0],)))):
        if not _close(geo.extent, (lo, hi)):
            return "%s.extent = %r, union of the pixel intervals = %r" % (label, tuple(geo.extent), (lo, hi))
        if not _close(geo.scaled_minima, (lo,)) or not _close(geo.scaled_maxima, (hi,)):
            return "%s.scaled_minima/maxima = %r / %r, expected %r / %r" % (label, geo.scaled_minima, geo.scaled_maxima, lo, hi)
        if not _close(geo.shape_slim_scaled, (H * sy,)):
            return "%s.shape_slim_scaled = %r, expected %r" % (label, geo.shape_slim_scaled, H * sy)
    g1 = aa.Grid1D.from_mask(mask=m1)
    if g1.slim.array.shape != ((~mask_1d).sum(),) or not _close(g1.slim.array, c1[~mask_1d]):
        return "Grid1D.from_mask(...).slim = %r, pixel centres of unmasked pixels = %r" % (g1.slim.array.tolist(), c1[~mask_1d].tolist())
    if not _close(g1.native.array, np.where(mask_1d, 0.0, c1)):
        return "Grid1D.from_mask(...).native = %r, expected %r" % (g1.native.array.tolist(), np.where(mask_1d, 0.0, c1).tolist())
    gu = aa.Grid1D.uniform(shape_native=(H,), pixel_scales=sy, origin=(origin[0],))
    if gu.slim.array.shape != (H,) or not _close(gu.slim.array, c1):
        return "Grid1D.uniform(...) = %r, pixel centres = %r" % (gu.slim.array.tolist(), c1.tolist())
    return None


# ------------------------------------------------------------------------------------------------ pixel-centre grids


def _gen_grid(rng, tier):
    k = 0
    for m in gens.all_masks(shapes=[(1, 1), (1, 2), (2, 1), (1, 3), (3, 1), (2, 2), (2, 3), (3, 2)], min_unmasked=1):
        yield {"mask": m, "pixel_scales": _SCALES[k % 6], "origin": _ORIGINS[(k // 6 + k) % 6]}
        k += 1
    for _ in range(gens.budget(tier, 3000, 60000)):
        m = gens.random_mask(rng, 8, 8, min_unmasked=1)
        if rng.random() < 0.5:
            yield {"mask": m, "pixel_scales": rng.choice(_SCALES), "origin": rng.choice(_ORIGINS)}
        else:
            yield {"mask": m, "pixel_scales": _rand_scales(rng), "origin": _rand_origin(rng)}


@bounded("C02", "grid2d-pixel-centres", gen=_gen_grid,
         nontrivial=lambda mask, pixel_scales, origin: mask.shape[0] != mask.shape[1] and 0 < mask.sum())
def grid2d_pixel_centres(mask, pixel_scales, origin):
    """C02: 'pixel (i,j) has centre coordinate y = origin_y + ((H-1)/2 - i)*s_y, x = origin_x + (j - (W-1)/2)*s_x
    (y increases upward, x to the right)' -- Grid2D.from_mask (slim = unmasked pixels in row-major order, native),
    Grid2D.uniform, Mask2D.derive_grid.all_false / .unmasked; bound: every mask of 8 shapes <= 6 cells + 3000 (60000) random
    masks <= 8x8, tabulated and random anisotropic scales, non-zero unequal origins."""
    import autoarray as aa
    H, W = mask.shape
    cy, cx = _centres(mask.shape, pixel_scales, origin)
    full = np.stack([cy, cx], axis=-1)                                    # [H,W,2]
    want_slim = full[~mask]
    want_native = np.where(mask[:, :, None], 0.0, full)
    mk = aa.Mask2D(mask=mask.copy(), pixel_scales=pixel_scales, origin=origin)
    g = aa.Grid2D.from_mask(mask=mk)
    if g.slim.array.shape != want_slim.shape or not _close(g.slim.array, want_slim):
        return "Grid2D.from_mask(...).slim = %r, pixel centres %r" % (g.slim.array.tolist(), want_slim.tolist())
    if g.native.array.shape != want_native.shape or not _close(g.native.array, want_native):
        return "Grid2D.from_mask(...).native = %r, expected %r" % (g.native.array.tolist(), want_native.tolist())
    if tuple(g.mask.origin) != tuple(origin) or tuple(g.mask.pixel_scales) != tuple(pixel_scales):
        return "Grid2D.from_mask(...) lost the mask geometry: origin %r scales %r" % (g.mask.origin, g.mask.pixel_scales)
    u = aa.Grid2D.uniform(shape_native=(H, W), pixel_scales=pixel_scales, origin=origin)
    if u.native.array.shape != full.shape or not _close(u.native.array, full):
        return "Grid2D.uniform(...).native = %r, pixel centres %r" % (u.native.array.tolist(), full.tolist())
    if not _close(u.slim.array, full.reshape(-1, 2)):
        return "Grid2D.uniform(...).slim is not the row-major list of pixel centres"
    if not _close(u.mask.geometry.extent, (cx.min() - pixel_scales[1] / 2, cx.max() + pixel_scales[1] / 2,
                                           cy.min() - pixel_scales[0] / 2, cy.max() + pixel_scales[0] / 2)):
        return "Grid2D.uniform(...).mask.geometry.extent = %r is not the union of the pixel squares of its own grid" % (
            tuple(u.mask.geometry.extent),)
    af = mk.derive_grid.all_false
    if af.native.array.shape != full.shape or not _close(af.native.array, full):
        return "Mask2D.derive_grid.all_false = %r, pixel centres %r" % (af.native.array.tolist(), full.tolist())
    um = mk.derive_grid.unmasked
    if um.slim.array.shape != want_slim.shape or not _close(um.slim.array, want_slim):
        return "Mask2D.derive_grid.unmasked = %r, pixel centres %r" % (um.slim.array.tolist(), want_slim.tolist())
    return None


# ------------------------------------------------------------------------------------------------ scalar conversions

_EDGE = 0.5 - 1e-6          # closest a query gets to a pixel boundary, in pixel units (>> the 1e-9 band)


def _fracs(rng, shape):
    """sub-pixel offsets in (-0.5, 0.5): centres, near-boundary points on either side, and random points"""
    f = np.empty(shape + (2,))
    flat = f.reshape(-1)
    for k in range(flat.size):
        r = rng.random()
        # ... and, 10% of the time, points a few 1e-9 pixel widths outside the statement's 1e-9 band (4e-9, 1e-7 from a boundary, either
        # side): inside the domain, and floating-point error in forming the query (~1e-14 pixel widths here) cannot move them across
        flat[k] = (0.0 if r < 0.15 else _EDGE if r < 0.27 else -_EDGE if r < 0.39 else
                   rng.choice([0.5 - 4e-9, -(0.5 - 4e-9), 0.5 - 1e-7, -(0.5 - 1e-7)]) if r < 0.49 else rng.uniform(-_EDGE, _EDGE))
    return f


def _gen_scalar(rng, tier):
    hw = gens.budget(tier, 7, 10)
    k = 0
    for H in range(1, hw + 1):
        for W in range(1, hw + 1):
            for a in range(gens.budget(tier, 30, 150)):
                if a % 3 == 2:
                    sc, og = _rand_scales(rng), _rand_origin(rng)
                else:
                    sc, og = _SCALES[k % 6], _ORIGINS[(k // 6 + k) % 6]
                k += 1
                yield {"shape": (H, W), "pixel_scales": sc, "origin": og, "frac": _fracs(rng, (H, W))}


@bounded("C02", "pixel-scaled-scalar-conversions", gen=_gen_scalar,
         nontrivial=lambda shape, pixel_scales, origin, frac: shape[0] != shape[1] and origin != (0.0, 0.0))
def pixel_scaled_scalar_conversions(shape, pixel_scales, origin, frac):
    """C02: 'every coordinate inside that extent converts to the index of the pixel whose square contains it ...
    Converting a pixel centre to an index and back is the identity' -- Mask2D.geometry.pixel_coordinates_2d_from,
    scaled_coordinates_2d_from and scaled_coordinate_2d_to_scaled_at_pixel_centre_from for one query point in every
    pixel (centres, points 1e-6 pixel from each boundary, random interior points); bound: all shapes <= 7x7 (10x10) x 30 (150)
    (scale pair, origin) combinations."""
    import autoarray as aa
    H, W = shape
    sy, sx = pixel_scales
    cy, cx = _centres(shape, pixel_scales, origin)
    geo = aa.Mask2D.all_false(shape_native=shape, pixel_scales=pixel_scales, origin=origin).geometry
    for i in range(H):
        for j in range(W):
            centre = (float(cy[i, j]), float(cx[i, j]))
            q = (centre[0] + frac[i, j, 0] * sy, centre[1] + frac[i, j, 1] * sx)
            got = geo.pixel_coordinates_2d_from(scaled_coordinates_2d=q)
            if tuple(int(v) for v in got) != (i, j) or any(float(v) != int(v) for v in got):
                return "pixel_coordinates_2d_from(%r) = %r, but the point lies in pixel %r (centre %r)" % (q, got, (i, j), centre)
            back = geo.scaled_coordinates_2d_from(pixel_coordinates_2d=(i, j))
            if not _close(back, centre):
                return "scaled_coordinates_2d_from(%r) = %r, pixel centre is %r" % ((i, j), back, centre)
            # centre -> index -> centre and index -> centre -> index
            idx = geo.pixel_coordinates_2d_from(scaled_coordinates_2d=centre)
            if tuple(int(v) for v in idx) != (i, j):
                return "pixel centre %r converts to index %r, not %r" % (centre, idx, (i, j))
            if not _close(geo.scaled_coordinates_2d_from(pixel_coordinates_2d=idx), centre):
                return "centre -> index -> centre is not the identity at pixel %r" % ((i, j),)
            again = geo.pixel_coordinates_2d_from(scaled_coordinates_2d=back)
            if tuple(int(v) for v in again) != (i, j):
                return "index -> centre -> index is not the identity at pixel %r: %r" % ((i, j), again)
            snap = geo.scaled_coordinate_2d_to_scaled_at_pixel_centre_from(scaled_coordinate_2d=q)
            if not _close(snap, centre):
                return "scaled_coordinate_2d_to_scaled_at_pixel_centre_from(%r) = %r, centre of its pixel is %r" % (q, snap, centre)
    return None


# ------------------------------------------------------------------------------------------------ grid conversions


def _gen_gridconv(rng, tier):
    k = 0
    for _ in range(gens.budget(tier, 6000, 80000)):
        m = gens.random_mask(rng, 7, 7, min_unmasked=1)
        N = int((~m).sum())
        H, W = m.shape
        if k % 3 == 2:
            sc, og = _rand_scales(rng), _rand_origin(rng)
        else:
            sc, og = _SCALES[k % 6], _ORIGINS[(k // 6 + k) % 6]
        k += 1
        target = np.array([[rng.randrange(H), rng.randrange(W)] for _ in range(N)], dtype=int)
        cont = np.array([[rng.uniform(0.0, H), rng.uniform(0.0, W)] for _ in range(N)], dtype=float)
        yield {"mask": m, "pixel_scales": sc, "origin": og, "target": target, "frac": _fracs(rng, (N,)), "pixels": cont}


@bounded("C02", "grid-pixel-conversions", gen=_gen_gridconv,
         nontrivial=lambda mask, pixel_scales, origin, target, frac, pixels: mask.shape[0] != mask.shape[1] and target.shape[0] > 1)
def grid_pixel_conversions(mask, pixel_scales, origin, target, frac, pixels):
    """C02: 'every coordinate inside that extent converts to the index of the pixel whose square contains it, with
    flattened index i*W + j ... the continuous pixel-coordinate conversion and its inverse compose to the identity' --
    Mask2D.geometry.grid_pixel_centres_2d_from / grid_pixel_indexes_2d_from / grid_pixels_2d_from / grid_scaled_2d_from on a
    Grid2D holding one query point per unmasked pixel, each query inside an arbitrary pixel of the frame (masked or not);
    bound: 6000 (80000) random masks <= 7x7 x tabulated/random anisotropic scales and origins."""
    import autoarray as aa
    H, W = mask.shape
    sy, sx = pixel_scales
    N = target.shape[0]
    cy, cx = _centres(mask.shape, pixel_scales, origin)
    q = np.stack([cy[target[:, 0], target[:, 1]] + frac[:, 0] * sy, cx[target[:, 0], target[:, 1]] + frac[:, 1] * sx], axis=-1)
    mk = aa.Mask2D(mask=mask.copy(), pixel_scales=pixel_scales, origin=origin)
    geo = mk.geometry
    grid = aa.Grid2D(values=q.copy(), mask=mk)
    centres = geo.grid_pixel_centres_2d_from(grid_scaled_2d=grid)
    got = np.asarray(centres.slim.array)
    if got.shape != (N, 2) or not np.array_equal(got, target):
        bad = int(np.flatnonzero((got != target).any(axis=1))[0]) if got.shape == (N, 2) else -1
        return "grid_pixel_centres_2d_from: query %r (pixel %r) -> %r" % (
            q[bad].tolist(), target[bad].tolist(), got[bad].tolist() if bad >= 0 else got.shape)
    indexes = geo.grid_pixel_indexes_2d_from(grid_scaled_2d=grid)
    goti = np.asarray(indexes.slim.array)
    want_i = target[:, 0] * W + target[:, 1]
    if goti.shape != (N,) or not np.array_equal(goti, want_i):
        return "grid_pixel_indexes_2d_from = %r, flattened i*W+j = %r (queries %r)" % (goti.tolist(), want_i.tolist(), q.tolist())
    # continuous conversion and its inverse, both orders
    cont = geo.grid_pixels_2d_from(grid_scaled_2d=grid)
    back = geo.grid_scaled_2d_from(grid_pixels_2d=cont)
    if np.asarray(back.slim.array).shape != (N, 2) or not _close(back.slim.array, q):
        return "grid_scaled_2d_from(grid_pixels_2d_from(q)) = %r != q = %r" % (np.asarray(back.slim.array).tolist(), q.tolist())
    pgrid = aa.Grid2D(values=pixels.copy(), mask=mk)
    there = geo.grid_scaled_2d_from(grid_pixels_2d=pgrid)
    again = geo.grid_pixels_2d_from(grid_scaled_2d=there)
    if np.asarray(again.slim.array).shape != (N, 2) or not _close(again.slim.array, pixels):
        return "grid_pixels_2d_from(grid_scaled_2d_from(p)) = %r != p = %r" % (np.asarray(again.slim.array).tolist(), pixels.tolist())
    # integer-valued continuous pixel coordinates, handed over with an integer dtype (what grid_pixel_centres_2d_from returns):
    # the conversion is the same affine map, p -> origin_y + ((H-1)/2 - (p_y - 1/2)) s_y, origin_x + ((p_x - 1/2) - (W-1)/2) s_x
    want = np.stack([origin[0] + ((H - 1) / 2.0 - (target[:, 0] - 0.5)) * sy, origin[1] + ((target[:, 1] - 0.5) - (W - 1) / 2.0) * sx], axis=-1)
    for label, arg in (("the Grid2D returned by grid_pixel_centres_2d_from", centres),
                       ("an int64 Grid2D", aa.Grid2D(values=target.astype(np.int64), mask=mk))):
        got = np.asarray(geo.grid_scaled_2d_from(grid_pixels_2d=arg).slim.array, dtype=float)
        if got.shape != (N, 2) or not _close(got, want):
            return "grid_scaled_2d_from(%s, integer pixel coordinates %r) = %r, the affine map gives %r" % (label, target.tolist(), got.tolist(), want.tolist())
    from autoarray.geometry import geometry_util as gu
    got = np.asarray(gu.grid_scaled_2d_slim_from(grid_pixels_2d_slim=target.astype(np.int64), shape_native=(H, W), pixel_scales=pixel_scales,
                                                 origin=origin), dtype=float)
    if got.shape != (N, 2) or not _close(got, want):
        return "geometry_util.grid_scaled_2d_slim_from(int64 pixel coordinates) = %r, the affine map gives %r" % (got.tolist(), want.tolist())
    return None


# ------------------------------------------------------------------------------------------------ shape-based masks


def _rel_centres(shape, scales):
    """pixel centres measured relative to the mask origin"""
    return _centres(shape, scales, (0.0, 0.0))


def _ell_radius(dy, dx, angle_deg, q):
    """documented elliptical radius: rotate by the position angle (counter-clockwise from the positive x-axis) into the
    ellipse frame, then sqrt(x'^2 + (y'/q)^2) with q = minor/major"""
    a = np.radians(angle_deg)
    xp = dx * np.cos(a) + dy * np.sin(a)
    yp = -dx * np.sin(a) + dy * np.cos(a)
    return np.sqrt(xp ** 2 + (yp / q) ** 2)


def _compare(label, got, want_unmasked, dontcare, extra):
    got = np.asarray(got)
    if got.dtype != bool:
        return "%s: mask dtype %s" % (label, got.dtype)
    if got.shape != want_unmasked.shape:
        return "%s: mask shape %r, requested %r" % (label, got.shape, want_unmasked.shape)
    bad = ((~got) != want_unmasked) & ~dontcare
    if bad.any():
        i, j = [int(v) for v in np.argwhere(bad)[0]]
        return "%s: pixel (%d,%d) is %s but its centre %s the documented inequality; %s" % (
            label, i, j, "unmasked" if not got[i, j] else "masked", "satisfies" if want_unmasked[i, j] else "violates", extra(i, j))
    return None


def _geometry_kept(label, mk, pixel_scales, origin):
    if tuple(mk.origin) != tuple(origin) or tuple(mk.pixel_scales) != tuple(pixel_scales):
        return "%s: mask carries origin %r / pixel_scales %r, requested %r / %r" % (label, mk.origin, mk.pixel_scales, origin, pixel_scales)
    return None


def _shape_stream(rng, tier, reps_q, reps_t, hw_q=7, hw_t=10):
    """(shape, scales, origin, centre, reach): all shapes, non-square included, cycling scale pairs; `reach` is the largest
    centre-to-pixel distance so radii can be drawn where they discriminate"""
    hw = gens.budget(tier, hw_q, hw_t)
    k = 0
    for rep in range(gens.budget(tier, reps_q, reps_t)):
        for H in range(1, hw + 1):
            for W in range(1, hw + 1):
                sc = _SCALES[k % 6] if k % 4 else _rand_scales(rng)
                og = _ORIGINS[(k // 6 + k) % 6]
                ext_y, ext_x = H * sc[0] / 2.0, W * sc[1] / 2.0
                r = rng.random()
                if r < 0.25:
                    ce = (0.0, 0.0)
                elif r < 0.5:                               # pixel-aligned offset centre
                    ce = (sc[0] * rng.randint(-1, 1) * 0.5, sc[1] * rng.randint(-1, 1) * 0.5)
                else:
                    ce = (round(rng.uniform(-ext_y, ext_y), 3), round(rng.uniform(-ext_x, ext_x), 3))
                cy, cx = _rel_centres((H, W), sc)
                reach = float(np.hypot(cy - ce[0], cx - ce[1]).max()) + 0.5 * max(sc)
                k += 1
                yield (H, W), sc, og, ce, reach


def _gen_circular(rng, tier):
    for shape, sc, og, ce, reach in _shape_stream(rng, tier, 100, 800):
        radii = sorted(round(rng.uniform(0.0, reach), 4) for _ in range(3))
        yield {"shape": shape, "pixel_scales": sc, "origin": og, "centre": ce, "radii": tuple(radii)}


def _nontrivial_circ(shape, pixel_scales, origin, centre, radii):
    cy, cx = _rel_centres(shape, pixel_scales)
    r = np.hypot(cy - centre[0], cx - centre[1])
    return bool((r <= radii[1]).any() and (r > radii[1]).any())


@bounded("C02", "mask2d-circular-family", gen=_gen_circular, nontrivial=_nontrivial_circ)
def mask2d_circular_family(shape, pixel_scales, origin, centre, radii):
    """C02: 'The shape-based mask constructors (circular, annular, anti-annular ...) unmask exactly those pixels whose
    centre, measured relative to the mask origin, satisfies the documented radial inequality about the requested centre'
    -- Mask2D.circular (r <= radius), circular_annular (inner <= r <= outer), circular_anti_annular (r <= inner or
    outer <= r <= outer_2), r = Euclidean distance of the pixel centre ((H-1)/2-i)*s_y, (j-(W-1)/2)*s_x from `centre`;
    bound: all shapes <= 7x7 (10x10) x 100 (800) passes of anisotropic scales, non-zero origins, on- and off-grid centres,
    three sorted random radii each; pixels within 1e-9 of a radius are don't-care."""
    import autoarray as aa
    r0, r1, r2 = radii
    cy, cx = _rel_centres(shape, pixel_scales)
    r = np.hypot(cy - centre[0], cx - centre[1])
    near = lambda rad: np.abs(r - rad) <= BAND
    extra = lambda i, j: "r = %.12g, radii %r" % (r[i, j], radii)
    kw = dict(shape_native=shape, pixel_scales=pixel_scales, origin=origin, centre=centre)
    for rad in radii:
        mk = aa.Mask2D.circular(radius=rad, **kw)
        msg = _compare("circular(radius=%r)" % rad, mk, r <= rad, near(rad), extra) or _geometry_kept("circular", mk, pixel_scales, origin)
        if msg:
            return msg
    for inner, outer in ((r0, r1), (r1, r2), (r0, r2)):
        mk = aa.Mask2D.circular_annular(inner_radius=inner, outer_radius=outer, **kw)
        msg = _compare("circular_annular(inner=%r, outer=%r)" % (inner, outer), mk, (r >= inner) & (r <= outer),
                       near(inner) | near(outer), extra) or _geometry_kept("circular_annular", mk, pixel_scales, origin)
        if msg:
            return msg
    mk = aa.Mask2D.circular_anti_annular(inner_radius=r0, outer_radius=r1, outer_radius_2=r2, **kw)
    return _compare("circular_anti_annular(%r, %r, %r)" % radii, mk, (r <= r0) | ((r >= r1) & (r <= r2)),
                    near(r0) | near(r1) | near(r2), extra) or _geometry_kept("circular_anti_annular", mk, pixel_scales, origin)


_ANGLES = [0.0, 90.0, 45.0, -30.0, 200.0, 135.0, 360.0, -90.0]


def _gen_elliptical(rng, tier):
    k = 0
    for shape, sc, og, ce, reach in _shape_stream(rng, tier, 100, 800):
        q = rng.choice([1.0, 0.5, 0.8, 0.2, round(rng.uniform(0.1, 1.0), 3)])
        ang = _ANGLES[k % len(_ANGLES)] if k % 2 else round(rng.uniform(-180.0, 360.0), 2)
        k += 1
        # elliptical radii reach up to reach/q; draw where pixels sit
        yield {"shape": shape, "pixel_scales": sc, "origin": og, "centre": ce, "axis_ratio": q, "angle": ang,
               "radii": tuple(sorted(round(rng.uniform(0.0, reach / max(q, 0.5)), 4) for _ in range(3)))}


def _nontrivial_ell(shape, pixel_scales, origin, centre, axis_ratio, angle, radii):
    cy, cx = _rel_centres(shape, pixel_scales)
    r = _ell_radius(cy - centre[0], cx - centre[1], angle, axis_ratio)
    return bool(axis_ratio < 1.0 and (r <= radii[1]).any() and (r > radii[1]).any())


@bounded("C02", "mask2d-elliptical", gen=_gen_elliptical, nontrivial=_nontrivial_ell)
def mask2d_elliptical(shape, pixel_scales, origin, centre, axis_ratio, angle, radii):
    """C02: 'The shape-based mask constructors (... elliptical ...) unmask exactly those pixels whose centre, measured
    relative to the mask origin, satisfies the documented radial inequality about the requested centre' -- Mask2D.elliptical:
    unmasked <=> sqrt(x'^2 + (y'/q)^2) <= major_axis_radius with (x',y') the offset from `centre` rotated by -angle
    (angle in degrees counter-clockwise from the positive x-axis, q = axis ratio); bound: all shapes <= 7x7 (10x10) x 100 (800)
    passes, q in [0.1,1], tabulated and random angles in [-180,360], three random radii; 1e-9 band don't-care."""
    import autoarray as aa
    cy, cx = _rel_centres(shape, pixel_scales)
    r = _ell_radius(cy - centre[0], cx - centre[1], angle, axis_ratio)
    extra = lambda i, j: "elliptical r = %.12g (offset y=%.6g x=%.6g), radii %r" % (r[i, j], cy[i, j] - centre[0], cx[i, j] - centre[1], radii)
    for rad in radii:
        mk = aa.Mask2D.elliptical(shape_native=shape, major_axis_radius=rad, axis_ratio=axis_ratio, angle=angle,
                                  pixel_scales=pixel_scales, origin=origin, centre=centre)
        msg = _compare("elliptical(major_axis_radius=%r, q=%r, angle=%r)" % (rad, axis_ratio, angle), mk, r <= rad,
                       np.abs(r - rad) <= BAND, extra) or _geometry_kept("elliptical", mk, pixel_scales, origin)
        if msg:
            return msg
    return None


def _gen_ell_annular(rng, tier):
    k = 0
    for shape, sc, og, ce, reach in _shape_stream(rng, tier, 100, 800):
        qi = rng.choice([1.0, 0.5, 0.3, round(rng.uniform(0.1, 1.0), 3)])
        qo = rng.choice([1.0, 0.7, 0.4, round(rng.uniform(0.1, 1.0), 3)])
        ai = _ANGLES[k % len(_ANGLES)] if k % 2 else round(rng.uniform(-180.0, 360.0), 2)
        ao = _ANGLES[(k + 3) % len(_ANGLES)] if k % 3 else round(rng.uniform(-180.0, 360.0), 2)
        k += 1
        inner = round(rng.uniform(0.0, 0.6 * reach), 4)
        outer = round(rng.uniform(0.3 * reach, 1.5 * reach), 4)
        yield {"shape": shape, "pixel_scales": sc, "origin": og, "centre": ce, "inner": (inner, qi, ai), "outer": (outer, qo, ao)}


def _nontrivial_ella(shape, pixel_scales, origin, centre, inner, outer):
    cy, cx = _rel_centres(shape, pixel_scales)
    ri = _ell_radius(cy - centre[0], cx - centre[1], inner[2], inner[1])
    ro = _ell_radius(cy - centre[0], cx - centre[1], outer[2], outer[1])
    un = (ri >= inner[0]) & (ro <= outer[0])
    return bool(un.any() and (~un).any() and (ri < inner[0]).any() and (ro > outer[0]).any())


@bounded("C02", "mask2d-elliptical-annular", gen=_gen_ell_annular, nontrivial=_nontrivial_ella)
def mask2d_elliptical_annular(shape, pixel_scales, origin, centre, inner, outer):
    """C02: 'The shape-based mask constructors (... elliptical-annular) unmask exactly those pixels whose centre, measured
    relative to the mask origin, satisfies the documented radial inequality about the requested centre' --
    Mask2D.elliptical_annular: unmasked <=> r_ell(inner q, inner phi) >= inner_major_axis_radius and r_ell(outer q, outer phi)
    <= outer_major_axis_radius (pixels inside the inner ellipse masked, inside the outer ellipse unmasked); bound: all
    shapes <= 7x7 (10x10) x 100 (800) passes, independent inner/outer axis ratios and angles; 1e-9 band don't-care."""
    import autoarray as aa
    cy, cx = _rel_centres(shape, pixel_scales)
    ri = _ell_radius(cy - centre[0], cx - centre[1], inner[2], inner[1])
    ro = _ell_radius(cy - centre[0], cx - centre[1], outer[2], outer[1])
    mk = aa.Mask2D.elliptical_annular(shape_native=shape, inner_major_axis_radius=inner[0], inner_axis_ratio=inner[1],
                                      inner_phi=inner[2], outer_major_axis_radius=outer[0], outer_axis_ratio=outer[1],
                                      outer_phi=outer[2], pixel_scales=pixel_scales, origin=origin, centre=centre)
    extra = lambda i, j: "inner r_ell = %.12g vs %r, outer r_ell = %.12g vs %r" % (ri[i, j], inner[0], ro[i, j], outer[0])
    return _compare("elliptical_annular(inner=%r, outer=%r)" % (inner, outer), mk, (ri >= inner[0]) & (ro <= outer[0]),
                    (np.abs(ri - inner[0]) <= BAND) | (np.abs(ro - outer[0]) <= BAND), extra) or \
        _geometry_kept("elliptical_annular", mk, pixel_scales, origin)
