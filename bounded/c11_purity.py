"""C11 purity of constructors and queries (bounded stand-in; see docs/BOUNDED_GUIDE.md).

One check per call site / mechanism so that every defect is identified separately:

  ctor-*        byte fingerprints of caller-owned inputs before / after a constructor (and a first read)
  mappervalued-* MapperValued queries must not edit `values` / the mapper's cached mapping matrix
  history-*     run histories of reads on one object graph; every read must report the value a FRESH identical graph
                reports for it (statement: 'the same value whatever the order and number of earlier accesses')
  derived-*     an object derived by arithmetic / slicing / copy / trimming reports quantities of its OWN contents, with
                and without earlier reads on the object it was derived from
  simulator-*   fixed noise seed => identical data whatever the global RNG state
  mutable-defaults-* default argument objects are not modified by calls that rely on them
  order-pairs-* generic order-independence harness: the read alphabet is found by INTROSPECTION (every public property /
                cached_property of the chosen objects and of the helper objects they return, + listed query methods); every
                ordered pair (A, B): `read A; read B` must report the B of a fresh identical graph (meshes, mappers +
                regularization objects, structures + derive objects, Imaging + over samplers)
  inversion-inputs-and-preloads-* byte fingerprint of EVERY ndarray reachable from everything handed to aa.Inversion, incl. a
                Preloads object with every slot filled from an identical inversion, before construction vs after each read
                of every public quantity; quantities read twice and a second inversion from the same inputs agree
  inversion-wtilde-preloaded-assembly-buffers-* the same, restricted to one separately reported mechanism (w_tilde.py
                assembles the curvature matrix / data vector inside the preloaded mapper-diag / data-vector arrays)

Oracles: (a) fingerprints must be equal, (b) value of the same read on a fresh identical object (literally the property),
(c) where the quantity has a closed form of the object's own contents (|V|, arg V, shapes) that closed form.
"""
import copy
import hashlib
import itertools
import numpy as np
from pyvc.bounded import bounded
from pyvc import gens


# ----------------------------------------------------------------------------------------------- generic helpers

def _quiet():
    import logging
    logging.disable(logging.CRITICAL)


def _fp(x, depth=0):
    """byte-level fingerprint of arrays / autoarray structures / plain objects (shallow on objects)"""
    if x is None or isinstance(x, (bool, int, float, str, complex)):
        return repr(x)
    if isinstance(x, np.ndarray):
        return "nd:%s:%s:%s" % (x.dtype, x.shape, hashlib.sha1(np.ascontiguousarray(x).tobytes()).hexdigest())
    if isinstance(x, (list, tuple)):
        return "[" + ",".join(_fp(v, depth) for v in x) + "]"
    if isinstance(x, dict):
        return "{" + ",".join("%s=%s" % (k, _fp(v, depth)) for k, v in sorted(x.items(), key=lambda kv: str(kv[0]))) + "}"
    if hasattr(x, "_array"):
        out = "aa:%s:%s" % (type(x).__name__, _fp(np.asarray(x._array)))
        m = x.__dict__.get("mask", None)
        if m is not None and m is not x and hasattr(m, "_array"):
            out += "|mask:" + _fp(np.asarray(m._array)) + repr(tuple(getattr(m, "origin", ()))) + repr(tuple(getattr(m, "pixel_scales", ())))
        if "origin" in x.__dict__ or hasattr(type(x), "origin"):
            try:
                out += "|o:" + repr(tuple(x.origin)) + repr(tuple(x.pixel_scales))
            except Exception:
                pass
        return out
    if hasattr(x, "__dict__") and depth < 2:
        return "obj:%s{%s}" % (type(x).__name__, ",".join(
            "%s=%s" % (k, _fp(v, depth + 1)) for k, v in sorted(x.__dict__.items())
            if isinstance(v, (type(None), bool, int, float, str, np.ndarray, list, tuple)) or hasattr(v, "_array")))
    return "other:" + type(x).__name__


def _snap(v, depth=0):
    """copy of a reported value as nested lists of float arrays / strings (taken immediately after the read)"""
    if v is None or isinstance(v, (bool, str)):
        return repr(v)
    if isinstance(v, (int, float, np.integer, np.floating)):
        return np.array(float(v))
    if isinstance(v, complex):
        return np.array([v.real, v.imag])
    if isinstance(v, dict):
        return [_snap(x, depth) for x in v.values()]
    if isinstance(v, (list, tuple)):
        return [_snap(x, depth) for x in v]
    if hasattr(v, "_array"):
        out = [_snap(np.asarray(v._array))]
        m = v.__dict__.get("mask", None)
        if m is not None and m is not v and hasattr(m, "_array"):
            out.append(_snap(np.asarray(m._array)))
            out.append(_snap(list(getattr(m, "origin", ()))))
            out.append(_snap(list(getattr(m, "pixel_scales", ()))))
        elif "origin" in v.__dict__:
            out.append(_snap(list(v.origin)))
            out.append(_snap(list(v.pixel_scales)))
        return out
    if isinstance(v, np.ndarray) or np.isscalar(v):
        a = np.asarray(v)
        if a.dtype == object:
            return [_snap(x, depth) for x in a.tolist()]
        if np.iscomplexobj(a):
            return [a.real.astype(float).copy(), a.imag.astype(float).copy()]
        return a.astype(float).copy()
    if hasattr(v, "__dict__") and depth < 2:
        return [type(v).__name__] + [_snap(x, depth + 1) for k, x in sorted(v.__dict__.items())
                                     if isinstance(x, (np.ndarray, int, float, bool, tuple, list)) or hasattr(x, "_array")]
    return "obj:" + type(v).__name__


def _same(a, b):
    if isinstance(a, list):
        return isinstance(b, list) and len(a) == len(b) and all(_same(x, y) for x, y in zip(a, b))
    if isinstance(a, str) or isinstance(b, str):
        return isinstance(a, str) and isinstance(b, str) and a == b
    return a.shape == b.shape and bool(np.allclose(a, b, rtol=1e-9, atol=1e-12, equal_nan=True))


def _short(s):
    r = repr(s)
    return r if len(r) < 300 else r[:300] + "..."


def _try(f, g):
    try:
        return _snap(f(g))
    except Exception as e:           # an exception is a reportable value of a read: it must not depend on the history either
        return "EXC " + type(e).__name__


def _centre_mask(rng, n=7, margin=2):
    """n x n mask, outer `margin` rows/columns masked, random interior with >= 4 unmasked pixels not all in one row/column"""
    while True:
        m = np.ones((n, n), dtype=bool)
        inner = np.array([[rng.random() < 0.3 for _ in range(n - 2 * margin)] for _ in range(n - 2 * margin)], dtype=bool)
        m[margin:n - margin, margin:n - margin] = inner
        ys, xs = np.where(~m)
        if len(ys) >= 4 and len(set(ys.tolist())) >= 2 and len(set(xs.tolist())) >= 2:
            return m


_PSF = [[0.0, 0.5, 0.0], [0.5, 1.0, 0.5], [0.0, 0.5, 0.0]]


def _imaging(aa, seed, shape=(7, 7), scales=(1.0, 1.0), origin=(0.0, 0.0), sub=1, covariance=False):
    r = np.random.default_rng(seed)
    data = aa.Array2D.no_mask(values=r.normal(size=shape) + 5.0, pixel_scales=scales, origin=origin)
    noise = aa.Array2D.no_mask(values=r.uniform(1.0, 2.0, size=shape), pixel_scales=scales, origin=origin)
    psf = aa.Kernel2D.no_mask(values=_PSF, pixel_scales=scales)
    cov = None
    if covariance:
        n = shape[0] * shape[1]
        cov = np.eye(n) * 2.0 + 0.1
    return aa.Imaging(data=data, noise_map=noise, psf=psf, noise_covariance_matrix=cov,
                      over_sampling=aa.OverSamplingDataset(uniform=aa.OverSamplingUniform(sub_size=sub)))


def _graph(aa, mask, seed, use_w_tilde=False, positive_only=True, mesh="rectangular", reg="constant", settings=True):
    """inversion -> mapper -> grids -> mask, on a masked Imaging dataset"""
    mk = aa.Mask2D(mask=mask.copy(), pixel_scales=(1.0, 1.0))
    ds = _imaging(aa, seed, shape=mask.shape).apply_mask(mk)
    over = aa.OverSamplerUniform(mask=mk, sub_size=2)
    grid = over.over_sampled_grid
    if mesh == "rectangular":
        mesh_grid = aa.Mesh2DRectangular.overlay_grid(grid=grid, shape_native=(3, 3))
        cls = aa.MapperRectangular
    else:
        ext = np.asarray(grid)
        y0, y1, x0, x1 = ext[:, 0].min(), ext[:, 0].max(), ext[:, 1].min(), ext[:, 1].max()
        u = np.array([[0.05, 0.1], [0.1, 0.9], [0.5, 0.45], [0.9, 0.15], [0.95, 0.9], [0.4, 0.05], [0.6, 0.95]])
        pts = np.stack([y0 - 0.3 + u[:, 0] * (y1 - y0 + 0.6), x0 - 0.3 + u[:, 1] * (x1 - x0 + 0.6)], axis=1)
        mesh_grid = aa.Mesh2DDelaunay(values=pts)
        cls = aa.MapperDelaunay
    regularization = aa.reg.Constant(coefficient=1.0) if reg == "constant" else aa.reg.ConstantSplit(coefficient=1.0)
    mg = aa.MapperGrids(mask=mk, source_plane_data_grid=grid, source_plane_mesh_grid=mesh_grid,
                        image_plane_mesh_grid=None, adapt_data=None)
    mapper = cls(mapper_grids=mg, over_sampler=over, border_relocator=None, regularization=regularization)
    # the remaining solver switches vary with the case (both values of each over the stream): warm start on / off, edge pixels
    # forced to zero or not -- purity is claimed for every setting
    s = aa.SettingsInversion(use_w_tilde=use_w_tilde, use_positive_only_solver=positive_only,
                             positive_only_uses_p_initial=bool((seed // 2) % 2), force_edge_pixels_to_zeros=bool(seed % 2))
    inv = aa.Inversion(dataset=ds, linear_obj_list=[mapper], settings=s) if settings else \
        aa.Inversion(dataset=ds, linear_obj_list=[mapper])
    return {"mask": mk, "ds": ds, "over": over, "grid": grid, "mesh": mesh_grid, "mapper": mapper, "inv": inv,
            "settings": s, "reg": regularization, "mg": mg}


# =============================================================================================== constructors

def _gen_ctor(rng, tier):
    for m in gens.all_masks(gens.budget(tier, 6, 9), min_unmasked=1):
        yield {"mask": m, "seed": rng.randrange(10 ** 6)}
    for _ in range(gens.budget(tier, 150, 3000)):
        yield {"mask": gens.random_mask(rng, 6, 6, min_unmasked=1), "seed": rng.randrange(10 ** 6)}


def _nt_mask(mask, **kw):
    return 0 < mask.sum() < mask.size


@bounded("C11", "ctor-array2d-inputs-unmodified", gen=_gen_ctor, nontrivial=_nt_mask)
def ctor_array2d(mask, seed):
    """C11: 'constructing a structure ... never modifies the arrays, masks or objects passed to it' -- Mask2D(mask=ndarray),
    Array2D(values=native ndarray | slim ndarray | Array2D, mask=Mask2D, store_native=False|True), Array2D.no_mask and the
    first reads .slim/.native; bound: all masks <= 6 (9) cells + 150 (3000) random <= 6x6."""
    import autoarray as aa
    r = np.random.default_rng(seed)
    m_in = mask.copy()
    mk = aa.Mask2D(mask=m_in, pixel_scales=(0.5, 2.0), origin=(1.0, -2.0))
    if not np.array_equal(m_in, mask):
        return "Mask2D(mask=a) modified a"
    fmk = _fp(mk)
    nat = r.normal(size=mask.shape)
    slim = r.normal(size=int((~mask).sum()))
    for label, vals in (("native", nat), ("slim", slim)):
        for store_native in (False, True):
            v = vals.copy()
            arr = aa.Array2D(values=v, mask=mk, store_native=store_native)
            arr.slim, arr.native
            if not np.array_equal(v, vals):
                return "Array2D(values=%s ndarray, store_native=%s) modified the caller's array: %r -> %r" % (label, store_native, vals, v)
            if _fp(mk) != fmk:
                return "Array2D(values=%s ndarray) modified the Mask2D passed to it" % label
            f = _fp(arr)
            aa.Array2D(values=arr, mask=mk, store_native=not store_native).native
            if _fp(arr) != f:
                return "Array2D(values=Array2D) modified the Array2D passed to it"
    v = nat.copy()
    aa.Array2D.no_mask(values=v, pixel_scales=1.0).native
    if not np.array_equal(v, nat):
        return "Array2D.no_mask(values=a) modified a"
    return None


@bounded("C11", "ctor-grid2d-native-input-unmodified", gen=_gen_ctor, nontrivial=_nt_mask)
def ctor_grid2d_native(mask, seed):
    """C11: 'constructing a structure ... never modifies the arrays ... passed to it' -- Grid2D(values=native ndarray of
    shape (H, W, 2), mask=Mask2D, store_native=False|True) (e.g. it must not zero the caller's array at masked pixels);
    call site: grid_2d_util.convert_grid_2d; bound: all masks <= 6 (9) cells + 150 (3000) random <= 6x6."""
    import autoarray as aa
    r = np.random.default_rng(seed)
    mk = aa.Mask2D(mask=mask.copy(), pixel_scales=(0.5, 2.0), origin=(1.0, -2.0))
    g0 = r.normal(size=mask.shape + (2,)) + 3.0
    for store_native in (False, True):
        g = g0.copy()
        aa.Grid2D(values=g, mask=mk, store_native=store_native)
        if not np.array_equal(g, g0):
            bad = [tuple(int(i) for i in p) for p in np.argwhere(g != g0)][:4]
            return "Grid2D(values=g, mask=..., store_native=%s) modified the caller's native array g at %r (e.g. %r -> %r)" % (
                store_native, bad, float(g0[bad[0]]), float(g[bad[0]]))
    if not np.array_equal(np.asarray(mk._array), mask):
        return "Grid2D(...) modified the mask"
    return None


@bounded("C11", "ctor-grid2d-slim-and-classmethod-inputs-unmodified", gen=_gen_ctor, nontrivial=_nt_mask)
def ctor_grid2d_slim(mask, seed):
    """C11: same clause -- Grid2D(values=slim ndarray | Grid2D), Grid2D.no_mask(values=native ndarray), Grid2D.from_mask and
    first reads .slim/.native/.flipped/.in_radians; bound as ctor-grid2d-native."""
    import autoarray as aa
    r = np.random.default_rng(seed)
    mk = aa.Mask2D(mask=mask.copy(), pixel_scales=(0.5, 2.0), origin=(1.0, -2.0))
    fmk = _fp(mk)
    s0 = r.normal(size=(int((~mask).sum()), 2)) + 3.0
    for store_native in (False, True):
        s = s0.copy()
        g = aa.Grid2D(values=s, mask=mk, store_native=store_native)
        g.slim, g.native, g.flipped, g.in_radians
        if not np.array_equal(s, s0):
            return "Grid2D(values=slim ndarray, store_native=%s) modified the caller's array" % store_native
        f = _fp(g)
        aa.Grid2D(values=g, mask=mk, store_native=not store_native).native
        if _fp(g) != f:
            return "Grid2D(values=Grid2D, store_native=%s) modified the Grid2D passed to it" % (not store_native)
    n0 = r.normal(size=mask.shape + (2,))
    n = n0.copy()
    aa.Grid2D.no_mask(values=n, pixel_scales=(0.5, 2.0)).native
    if not np.array_equal(n, n0):
        return "Grid2D.no_mask(values=a) modified a"
    aa.Grid2D.from_mask(mask=mk).native
    if _fp(mk) != fmk:
        return "Grid2D construction modified the Mask2D passed to it"
    return None


@bounded("C11", "ctor-vectoryx2d-native-input-unmodified", gen=_gen_ctor, nontrivial=_nt_mask)
def ctor_vectors(mask, seed):
    """C11: same clause -- VectorYX2D(values=native ndarray (H, W, 2), grid=native ndarray, mask=Mask2D); call site:
    grid_2d_util.convert_grid_2d (shared with Grid2D); bound as ctor-grid2d-native."""
    import autoarray as aa
    r = np.random.default_rng(seed)
    mk = aa.Mask2D(mask=mask.copy(), pixel_scales=(0.5, 2.0), origin=(1.0, -2.0))
    v0 = r.normal(size=mask.shape + (2,)) + 3.0
    g0 = r.normal(size=mask.shape + (2,)) + 3.0
    v, g = v0.copy(), g0.copy()
    aa.VectorYX2D(values=v, grid=g, mask=mk)
    if not np.array_equal(v, v0):
        return "VectorYX2D(values=v, ...) modified the caller's native array v: %r -> %r" % (v0, v)
    if not np.array_equal(g, g0):
        return "VectorYX2D(grid=g, ...) modified the caller's native array g"
    return None


def _gen_seed(rng, tier):
    for _ in range(gens.budget(tier, 200, 1500)):
        yield {"seed": rng.randrange(10 ** 6)}


@bounded("C11", "ctor-mask-kernel-visibilities-inputs-unmodified", gen=_gen_seed)
def ctor_misc(seed):
    """C11: same clause -- Mask2D(mask, invert=True|False), Kernel2D.no_mask / Kernel2D(values, mask) with
    normalize=True|False, Visibilities / VisibilitiesNoiseMap(ndarray), Grid2DIrregular, Array1D, Grid1D and their first
    reads; bound: 200 (1500) seeded value sets, shapes <= 5x5."""
    import autoarray as aa
    r = np.random.default_rng(seed)
    h, w = int(r.integers(1, 6)), int(r.integers(1, 6))
    m0 = r.random((h, w)) < 0.5
    for inv in (False, True):
        m = m0.copy()
        aa.Mask2D(mask=m, pixel_scales=1.0, invert=inv)
        if not np.array_equal(m, m0):
            return "Mask2D(mask=a, invert=%s) modified a" % inv
    k0 = r.uniform(0.1, 2.0, size=(3, 5))
    for norm in (False, True):
        k = k0.copy()
        K = aa.Kernel2D.no_mask(values=k, pixel_scales=1.0, normalize=norm)
        K.native, K.normalized
        if not np.array_equal(k, k0):
            return "Kernel2D.no_mask(values=a, normalize=%s) modified a" % norm
        k = k0.copy()
        aa.Kernel2D(values=k, mask=aa.Mask2D.all_false(shape_native=(3, 5), pixel_scales=1.0), normalize=norm).native
        if not np.array_equal(k, k0):
            return "Kernel2D(values=a, normalize=%s) modified a" % norm
    v0 = r.normal(size=6) + 1j * r.normal(size=6)
    v = v0.copy()
    V = aa.Visibilities(visibilities=v)
    V.amplitudes, V.phases, V.in_array, V.in_grid
    if not np.array_equal(v, v0):
        return "Visibilities(a) modified a"
    n0 = np.abs(v0) + 1.0 + 1j * (np.abs(v0) + 1.0)
    n = n0.copy()
    N = aa.VisibilitiesNoiseMap(visibilities=n)
    N.amplitudes
    if not np.array_equal(n, n0):
        return "VisibilitiesNoiseMap(a) modified a"
    g0 = r.normal(size=(5, 2))
    g = g0.copy()
    aa.Grid2DIrregular(values=g)
    if not np.array_equal(g, g0):
        return "Grid2DIrregular(values=a) modified a"
    a0 = r.normal(size=5)
    a = a0.copy()
    aa.Array1D.no_mask(values=a, pixel_scales=1.0).native
    if not np.array_equal(a, a0):
        return "Array1D.no_mask(values=a) modified a"
    return None


def _gen_imaging(rng, tier):
    for _ in range(gens.budget(tier, 150, 800)):
        yield {"mask": _centre_mask(rng, 7, 2), "seed": rng.randrange(10 ** 6), "covariance": rng.random() < 0.3}


@bounded("C11", "ctor-imaging-and-derivations-inputs-unmodified", gen=_gen_imaging, nontrivial=_nt_mask)
def ctor_imaging(mask, seed, covariance):
    """C11: 'constructing a ... dataset ... never modifies the arrays, masks or objects passed to it' and derivations do not
    modify the object they derive from -- Imaging(data, noise_map, psf, noise_covariance_matrix, over_sampling) and
    apply_mask / apply_noise_scaling (both modes) / apply_over_sampling / trimmed_after_convolution_from + reads of
    grids, convolver, w_tilde, signal_to_noise_map; fingerprints of data, noise_map, psf, covariance, over_sampling object,
    mask and parent dataset; bound: 150 (800) seeded 7x7 datasets with random central masks."""
    import autoarray as aa
    _quiet()
    r = np.random.default_rng(seed)
    sc, o = (1.0, 2.0), (0.5, -1.0)
    # both storage forms of the caller's arrays (an unmasked natively stored array IS its own native form: nothing may hand it out for editing)
    sn = bool(seed % 2)
    full = aa.Mask2D.all_false(shape_native=mask.shape, pixel_scales=sc, origin=o)
    data = aa.Array2D(values=r.normal(size=mask.shape) + 5.0, mask=full, store_native=sn)
    noise = aa.Array2D(values=r.uniform(1.0, 2.0, size=mask.shape), mask=full, store_native=sn)
    psf = aa.Kernel2D.no_mask(values=_PSF, pixel_scales=sc)
    cov = (np.eye(mask.size) * 2.0 + 0.1) if covariance else None
    osd = aa.OverSamplingDataset(uniform=aa.OverSamplingUniform(sub_size=2))
    mk = aa.Mask2D(mask=mask.copy(), pixel_scales=sc, origin=o)

    def fps():
        return {"data": _fp(data), "noise_map": _fp(noise), "psf": _fp(psf), "cov": _fp(cov), "over_sampling": _fp(osd),
                "over_sampling.uniform": _fp(osd.uniform), "mask": _fp(mk)}
    f0 = fps()

    def changed(what):
        f1 = fps()
        bad = [k for k in f0 if f0[k] != f1[k]]
        return "%s modified caller-owned input(s): %r" % (what, bad) if bad else None
    ds = aa.Imaging(data=data, noise_map=noise, psf=psf, noise_covariance_matrix=cov, over_sampling=osd)
    ds.grids.uniform, ds.grids.pixelization, ds.signal_to_noise_map, ds.signal_to_noise_max
    err = changed("Imaging(...) + reads")
    if err:
        return err

    def dfp(d):
        return (_fp(d.data), _fp(d.noise_map), _fp(d.psf), _fp(d.noise_covariance_matrix))
    p0 = dfp(ds)
    steps = [("apply_mask", lambda: ds.apply_mask(mask=mk)),
             ("apply_noise_scaling", lambda: ds.apply_noise_scaling(mask=mk, noise_value=1.0e8)),
             ("apply_noise_scaling(signal_to_noise_value)", lambda: ds.apply_noise_scaling(mask=mk, signal_to_noise_value=3.0)),
             ("apply_over_sampling", lambda: ds.apply_over_sampling(aa.OverSamplingDataset(uniform=aa.OverSamplingUniform(sub_size=4)))),
             ("trimmed_after_convolution_from", lambda: ds.trimmed_after_convolution_from(kernel_shape=(3, 3)))]
    for name, f in steps:
        d2 = f()
        d2.data.native, d2.noise_map.native
        err = changed("Imaging.%s" % name)
        if err:
            return err
        if dfp(ds) != p0:
            return "Imaging.%s modified the dataset it was called on" % name
    dm = ds.apply_mask(mask=mk)
    m0 = dfp(dm)
    dm.grids.uniform, dm.grids.blurring, dm.convolver, dm.w_tilde, dm.signal_to_noise_map
    if dfp(dm) != m0 or dfp(ds) != p0:
        return "reading grids / convolver / w_tilde of the masked dataset modified a dataset"
    return changed("reads on the masked dataset")


def _gen_graph(rng, tier):
    for i in range(gens.budget(tier, 150, 600)):
        yield {"mask": _centre_mask(rng, 7, 2), "seed": rng.randrange(10 ** 6), "use_w_tilde": bool(i & 1),
               "positive_only": bool(i & 2), "mesh": "delaunay" if i % 3 == 2 else "rectangular"}


_INV_READS_CORE = ["data_vector", "curvature_matrix", "regularization_matrix", "curvature_reg_matrix", "reconstruction",
                   "mapped_reconstructed_data", "mapped_reconstructed_image", "log_det_curvature_reg_matrix_term",
                   "log_det_regularization_matrix_term", "regularization_term", "reconstruction_noise_map"]


@bounded("C11", "ctor-mapper-inversion-inputs-unmodified", gen=_gen_graph, nontrivial=_nt_mask)
def ctor_graph(mask, seed, use_w_tilde, positive_only, mesh):
    """C11: 'constructing a ... mapper ... or inversion never modifies the arrays, masks or objects passed to it' nor does
    reading the inversion's quantities -- MapperRectangular / MapperDelaunay + aa.Inversion (mapping and w-tilde,
    positive-only on/off): fingerprints of mask, data grid, mesh grid, dataset data / noise map / psf, regularization and
    settings objects before construction vs after construction and after reading 11 inversion quantities;
    bound: 150 (600) seeded 7x7 graphs."""
    import autoarray as aa
    _quiet()
    g = _graph(aa, mask, seed, use_w_tilde, positive_only, mesh)
    # fingerprints immediately after building the inputs are not observable (the graph is built in one go), so build the
    # identical inputs twice: once untouched (reference), once used.
    ref = _graph(aa, mask, seed, use_w_tilde, positive_only, mesh)

    def fps(q):
        return {"mask": _fp(q["mask"]), "grid": _fp(q["grid"]), "mesh": _fp(np.asarray(q["mesh"]._array)), "data": _fp(q["ds"].data),
                "noise_map": _fp(q["ds"].noise_map), "psf": _fp(q["ds"].psf), "settings": _fp(q["settings"]),
                "regularization": _fp(q["reg"])}
    f_ref = fps(ref)
    if fps(g) != f_ref:
        bad = [k for k in f_ref if fps(g)[k] != f_ref[k]]
        return "building the same graph twice gives different inputs (non-determinism or mutation during construction): %r" % bad
    for n in _INV_READS_CORE:
        _try(lambda q: getattr(q["inv"], n), g)
    _try(lambda q: q["mapper"].mapping_matrix, g)
    f1 = fps(g)
    bad = [k for k in f_ref if f1[k] != f_ref[k]]
    if bad:
        return "constructing + reading the inversion modified caller-owned inputs: %r" % bad
    return None


@bounded("C11", "ctor-inversion-settings-unmodified", gen=_gen_seed)
def ctor_settings(seed):
    """C11: 'constructing a ... inversion never modifies the ... objects passed to it' -- the SettingsInversion / Preloads
    objects handed to aa.Inversion for an imaging dataset and for a visibilities dataset (DatasetInterface with
    Visibilities data; construction only) keep every attribute; call sites: inversion/factory.py inversion_imaging_from,
    inversion_interferometer_from; bound: 200 (1500) seeds x settings in {use_w_tilde} x {imaging, visibilities}."""
    import autoarray as aa
    _quiet()
    r = np.random.default_rng(seed)
    m = np.ones((5, 5), dtype=bool)
    m[1:4, 1:4] = False
    for use_w_tilde in (True, False):
        g = _graph(aa, np.pad(m, 1, constant_values=True), seed, use_w_tilde=use_w_tilde)
        for kind in ("imaging", "visibilities"):
            s = aa.SettingsInversion(use_w_tilde=use_w_tilde)
            p = aa.Preloads()
            s0, p0 = dict(s.__dict__), dict(p.__dict__)
            if kind == "imaging":
                ds = g["ds"]
            else:
                vis = aa.Visibilities(visibilities=r.normal(size=4) + 1j * r.normal(size=4))
                nm = aa.VisibilitiesNoiseMap(visibilities=np.ones(4) + 1j * np.ones(4))
                ds = aa.DatasetInterface(data=vis, noise_map=nm, transformer=None)
            aa.Inversion(dataset=ds, linear_obj_list=[g["mapper"]], settings=s, preloads=p)
            ch = {k: (s0[k], v) for k, v in s.__dict__.items() if repr(s0.get(k)) != repr(v)}
            if ch:
                return "aa.Inversion(dataset=<%s>, settings=s) modified the caller's settings object: %r" % (kind, ch)
            ch = {k: (p0[k], v) for k, v in p.__dict__.items() if _fp(p0.get(k)) != _fp(v)}
            if ch:
                return "aa.Inversion(dataset=<%s>, preloads=p) modified the caller's preloads object: %r" % (kind, sorted(ch))
    return None


@bounded("C11", "mutable-defaults-unchanged", gen=_gen_seed)
def mutable_defaults(seed):
    """C11 (state 'module-level default SettingsInversion / Preloads / OverSamplingDataset instances'): calls that omit
    `settings` / `preloads` / `over_sampling` must leave the shared default objects of inversion_from,
    inversion_imaging_from, inversion_interferometer_from, Imaging.__init__, Imaging.apply_over_sampling and
    AbstractDataset.__init__ unchanged, so that 'repeating a computation with equal inputs gives identical results';
    bound: 200 (1500) seeds, each: imaging inversion, visibilities inversion, Imaging construction and derivations."""
    import autoarray as aa
    from autoarray.inversion.inversion import factory
    from autoarray.dataset.abstract.dataset import AbstractDataset
    _quiet()
    fns = {"inversion_from": factory.inversion_from, "inversion_imaging_from": factory.inversion_imaging_from,
           "inversion_interferometer_from": factory.inversion_interferometer_from, "Imaging.__init__": aa.Imaging.__init__,
           "Imaging.apply_over_sampling": aa.Imaging.apply_over_sampling, "AbstractDataset.__init__": AbstractDataset.__init__}

    def state():
        out = {}
        for name, f in fns.items():
            for i, d in enumerate(f.__defaults__ or ()):
                if hasattr(d, "__dict__"):
                    out["%s default #%d (%s)" % (name, i, type(d).__name__)] = {k: _fp(v) for k, v in d.__dict__.items()}
        return out
    s0 = state()
    raw0 = [(d, dict(d.__dict__)) for f in fns.values() for d in (f.__defaults__ or ()) if hasattr(d, "__dict__")]
    try:
        return _mutable_defaults_body(aa, seed, state, s0)
    finally:                          # keep evaluations independent of each other: put the shared defaults back
        for d, raw in raw0:
            d.__dict__.clear()
            d.__dict__.update(raw)


def _mutable_defaults_body(aa, seed, state, s0):
    r = np.random.default_rng(seed)
    m = np.ones((7, 7), dtype=bool)
    m[2:5, 2:5] = False
    g = _graph(aa, m, seed, settings=False)
    _try(lambda q: q["inv"].reconstruction, g)
    s1 = state()
    if s1 != s0:
        bad = {n: {k: (s0[n][k], s1[n][k]) for k in s0[n] if s0[n][k] != s1[n][k]} for n in s0 if s0[n] != s1[n]}
        return "an imaging inversion with default settings modified shared default argument objects: %r" % bad
    d2 = g["ds"].apply_over_sampling()
    d2.grids.uniform
    aa.Imaging(data=g["ds"].data, noise_map=g["ds"].noise_map, psf=g["ds"].psf).grids.uniform
    s1 = state()
    if s1 != s0:
        return "Imaging(...) / apply_over_sampling() with default over_sampling modified the shared default: %r" % [n for n in s0 if s0[n] != s1[n]]
    vis = aa.Visibilities(visibilities=r.normal(size=4) + 1j * r.normal(size=4))
    nm = aa.VisibilitiesNoiseMap(visibilities=np.ones(4) + 1j * np.ones(4))
    aa.Inversion(dataset=aa.DatasetInterface(data=vis, noise_map=nm, transformer=None), linear_obj_list=[g["mapper"]])
    s1 = state()
    if s1 != s0:
        bad = {n: {k: (s0[n][k], s1[n][k]) for k in s0[n] if s0[n][k] != s1[n][k]} for n in s0 if s0[n] != s1[n]}
        return "aa.Inversion(<visibilities dataset>, linear_obj_list) with default settings modified shared default argument objects: %r" % bad
    return None


# =============================================================================================== MapperValued

def _gen_valued(rng, tier):
    qs_v = ["values_masked", "max_pixel_centre", "max_pixel_list_from", "interpolated_array_from",
            "mapped_reconstructed_image_from", "magnification_via_mesh_from"]
    for i in range(gens.budget(tier, 300, 1000)):
        n = 9
        pm = np.array([rng.random() < 0.4 for _ in range(n)], dtype=bool)
        if i % 5 == 4:
            pm = None
        yield {"mask": _centre_mask(rng, 7, 2), "seed": rng.randrange(10 ** 6), "values": gens.reals(rng, (n,), 0.5, 5.0, special=False),
               "pixel_mask": pm, "query": qs_v[i % len(qs_v)]}


def _nt_valued(mask, seed, values, pixel_mask, query):
    return pixel_mask is not None and pixel_mask.any() and not pixel_mask.all()


def _valued_query(mv, query):
    if query == "values_masked":
        return mv.values_masked
    if query == "max_pixel_centre":
        return mv.max_pixel_centre
    if query == "max_pixel_list_from":
        return mv.max_pixel_list_from(total_pixels=2, filter_neighbors=True)
    if query == "interpolated_array_from":
        return mv.interpolated_array_from(shape_native=(3, 3))
    if query == "mapped_reconstructed_image_from":
        return mv.mapped_reconstructed_image_from()
    return mv.magnification_via_mesh_from()


@bounded("C11", "mappervalued-queries-keep-values", gen=_gen_valued, nontrivial=_nt_valued)
def valued_values(mask, seed, values, pixel_mask, query):
    """C11: 'reading any derived quantity or calling any query method never changes the value that any other quantity
    subsequently reports ... [nor] the arrays passed' -- MapperValued(mapper, values, mesh_pixel_mask): after
    values_masked / max_pixel_centre / max_pixel_list_from / interpolated_array_from / mapped_reconstructed_image_from /
    magnification_via_mesh_from the caller's `values` array and `mapper_valued.values` are unchanged and mesh_pixel_mask is
    unchanged; call site: MapperValued.values_masked; bound: 300 (1000) seeded rectangular 3x3 mappers on 7x7 masks."""
    import autoarray as aa
    _quiet()
    g = _graph(aa, mask, seed)
    v = values.copy()
    pm = None if pixel_mask is None else pixel_mask.copy()
    mv = aa.MapperValued(mapper=g["mapper"], values=v, mesh_pixel_mask=pm)
    if not np.array_equal(v, values):
        return "MapperValued(...) modified the caller's values"
    try:
        _valued_query(mv, query)
    except Exception:                 # whether the query itself succeeds is not C11's business; its side effects are
        pass
    if not np.array_equal(v, values):
        return "MapperValued.%s modified the caller's `values` array in place: %r -> %r (mesh_pixel_mask=%r)" % (query, values, v, pixel_mask)
    if not np.array_equal(np.asarray(mv.values), values):
        return "MapperValued.%s changed what `.values` reports" % query
    if pixel_mask is not None and not np.array_equal(pm, pixel_mask):
        return "MapperValued.%s modified mesh_pixel_mask" % query
    return None


@bounded("C11", "mappervalued-queries-keep-mapping-matrix", gen=_gen_valued, nontrivial=_nt_valued)
def valued_mapping_matrix(mask, seed, values, pixel_mask, query):
    """C11: 'calling any query method never changes the value that any other quantity subsequently reports ... on the
    objects it was built from' -- after any MapperValued query the mapper's mapping_matrix, and the reconstruction /
    curvature matrix of an inversion using that mapper, equal those of a fresh identical graph; call site:
    MapperValued.mapped_reconstructed_image_from (`mapping_matrix[:, mesh_pixel_mask] = 0.0` on the cached matrix);
    bound: 300 (1000) seeded graphs."""
    import autoarray as aa
    _quiet()
    ref = _graph(aa, mask, seed)
    want_mm = np.array(ref["mapper"].mapping_matrix, dtype=float).copy()
    want_cm = _try(lambda q: q["inv"].curvature_matrix, ref)
    want_rec = _try(lambda q: q["inv"].reconstruction, ref)
    for warm in (True, False):                      # with / without the mapping matrix already cached
        g = _graph(aa, mask, seed)
        if warm:
            g["mapper"].mapping_matrix
        mv = aa.MapperValued(mapper=g["mapper"], values=values.copy(), mesh_pixel_mask=None if pixel_mask is None else pixel_mask.copy())
        try:
            _valued_query(mv, query)
        except Exception:             # whether the query itself succeeds is not C11's business; its side effects are
            pass
        got = np.array(g["mapper"].mapping_matrix, dtype=float)
        if got.shape != want_mm.shape or not np.array_equal(got, want_mm):
            cols = sorted(set(int(c) for c in np.argwhere(got != want_mm)[:, 1]))
            return "after MapperValued.%s (mapping matrix %s beforehand) mapper.mapping_matrix differs from a fresh mapper's in columns %r (mesh_pixel_mask=%r)" % (
                query, "read" if warm else "not read", cols, pixel_mask)
        if not _same(_try(lambda q: q["inv"].curvature_matrix, g), want_cm) or not _same(_try(lambda q: q["inv"].reconstruction, g), want_rec):
            return "after MapperValued.%s the inversion built on the same mapper reports a different curvature matrix / reconstruction" % query
    return None


# =============================================================================================== histories

_REF = {}


def _history(key, build, reads, history):
    """each read of the history must report what the same read reports on a fresh identical graph"""
    refs = _REF.setdefault(key, {})
    if len(_REF) > 64:
        _REF.clear()
        refs = _REF.setdefault(key, {})
    for r in history:
        if r not in refs:
            refs[r] = _try(reads[r], build())
    g = build()
    for i, r in enumerate(history):
        got = _try(reads[r], g)
        if not _same(got, refs[r]):
            return "after the reads %r, `%s` reports %s; on a fresh identical object it reports %s" % (
                history[:i], r, _short(got), _short(refs[r]))
    return None


def _gen_histories(names, fixtures, rng, tier, n_pair_fixtures=1, n_random=300, n_random_thorough=6000, triples_core=None):
    """all ordered pairs (incl. repeats) on the first fixtures, then (thorough) all triples of the core alphabet, then
    seeded random histories of length 3..4"""
    for fx in fixtures[:n_pair_fixtures]:
        for a, b in itertools.product(names, repeat=2):
            yield dict(fx, history=[a, b])
    if tier == "thorough" and triples_core:
        for fx in fixtures[:1]:
            for h in itertools.product(triples_core, repeat=3):
                yield dict(fx, history=list(h))
            for h in itertools.product(triples_core[:6], repeat=4):      # every history of length 4 over 6 reads
                yield dict(fx, history=list(h))
    for i in range(gens.budget(tier, n_random, n_random_thorough)):
        fx = fixtures[i % len(fixtures)]
        yield dict(fx, history=[rng.choice(names) for _ in range(rng.choice([3, 4, 4]))])


# ---- structures

def _struct_reads():
    R = {}
    for n in ["slim", "native", "native_skip_mask", "binned_across_rows", "binned_across_columns"]:
        R["arr." + n] = (lambda g, n=n: getattr(g["arr"], n))
    R["arr.extent_of_zoomed_array"] = lambda g: g["arr"].extent_of_zoomed_array(buffer=1)
    R["arr.zoomed_around_mask"] = lambda g: g["arr"].zoomed_around_mask(buffer=1)
    R["arr.resized_from"] = lambda g: g["arr"].resized_from(new_shape=(9, 8))
    R["arr.padded_before_convolution_from"] = lambda g: g["arr"].padded_before_convolution_from(kernel_shape=(3, 3))
    R["arr.trimmed_after_convolution_from"] = lambda g: g["arr"].trimmed_after_convolution_from(kernel_shape=(3, 3))
    R["arr*2"] = lambda g: g["arr"] * 2.0
    R["copy(arr)"] = lambda g: copy.copy(g["arr"])
    R["arr.apply_mask"] = lambda g: g["arr"].apply_mask(mask=g["mask2"])
    for n in ["slim", "native", "flipped", "in_radians", "is_uniform", "scaled_minima", "scaled_maxima", "shape_native_scaled_interior"]:
        R["grid." + n] = (lambda g, n=n: getattr(g["grid"], n))
    R["grid.over_sampler.over_sampled_grid"] = lambda g: g["grid"].over_sampler.over_sampled_grid
    R["grid.extent_with_buffer_from"] = lambda g: g["grid"].extent_with_buffer_from()
    R["grid.padded_grid_from"] = lambda g: g["grid"].padded_grid_from(kernel_shape_native=(3, 3))
    R["grid.distances_to_coordinate_from"] = lambda g: g["grid"].distances_to_coordinate_from((0.1, 0.2))
    R["grid.blurring_grid_via_kernel_shape_from"] = lambda g: g["grid"].blurring_grid_via_kernel_shape_from((3, 3))
    for n in ["mask_centre", "is_circular", "circular_radius", "pixels_in_mask", "is_all_false", "is_all_true",
              "shape_native_masked_pixels", "zoom_centre", "zoom_offset_pixels", "zoom_offset_scaled", "zoom_region",
              "zoom_shape_native", "zoom_mask_unmasked"]:
        R["mask." + n] = (lambda g, n=n: getattr(g["mask"], n))
    for n in ["all_false", "edge", "border", "edge_buffed"]:
        R["mask.derive_mask." + n] = (lambda g, n=n: getattr(g["mask"].derive_mask, n))
    for n in ["unmasked_slim", "masked_slim", "edge_slim", "edge_native", "border_slim", "border_native", "native_for_slim"]:
        R["mask.derive_indexes." + n] = (lambda g, n=n: getattr(g["mask"].derive_indexes, n))
    for n in ["all_false", "unmasked", "edge", "border"]:
        R["mask.derive_grid." + n] = (lambda g, n=n: getattr(g["mask"].derive_grid, n))
    R["mask.geometry.extent"] = lambda g: g["mask"].geometry.extent
    R["mask.derive_mask.blurring_from"] = lambda g: g["mask"].derive_mask.blurring_from((3, 3))
    R["mask.rescaled_from"] = lambda g: g["mask"].rescaled_from(rescale_factor=2.0)
    R["mask.resized_from"] = lambda g: g["mask"].resized_from(new_shape=(9, 9))
    return R


_STRUCT_READS = _struct_reads()
_STRUCT_CORE = ["arr.native", "arr.zoomed_around_mask", "arr*2", "grid.is_uniform", "grid.over_sampler.over_sampled_grid",
                "grid.padded_grid_from", "mask.circular_radius", "mask.derive_mask.edge", "mask.derive_grid.border",
                "mask.zoom_mask_unmasked", "mask.derive_indexes.border_slim", "arr.apply_mask"]


def _gen_struct(rng, tier):
    fixtures = [{"mask": _centre_mask(rng, 7, 1), "seed": rng.randrange(10 ** 6)} for _ in range(6)]
    return _gen_histories(sorted(_STRUCT_READS), fixtures, rng, tier, 1, 300, 6000, _STRUCT_CORE)


@bounded("C11", "history-structure-reads", gen=_gen_struct, nontrivial=lambda mask, seed, history: len(set(history)) > 1)
def history_structures(mask, seed, history):
    """C11: 'every public quantity of a ... mask or structure has the same value whatever the order and number of earlier
    accesses' -- histories over 57 reads of one (Mask2D, Array2D, Grid2D) graph (slim/native/binned/zoomed/resized/padded/
    trimmed/arithmetic/copy/apply_mask; grid flipped/is_uniform/over_sampler/padded/blurring; mask geometry, zoom, derive_mask /
    derive_indexes / derive_grid views), each read compared with the same read on a fresh identical graph; bound: all 57^2
    ordered pairs on one 7x7 fixture + 300 (6000) seeded histories of length 3..4 on 6 fixtures (thorough: + all triples of
    a 12-read core alphabet and all length-4 histories over 6 of them)."""
    import autoarray as aa
    _quiet()

    def build():
        r = np.random.default_rng(seed)
        mk = aa.Mask2D(mask=mask.copy(), pixel_scales=(1.0, 1.0), origin=(0.5, -1.0))
        m2 = mask.copy()
        m2[:, : mask.shape[1] // 2] = True
        return {"mask": mk, "arr": aa.Array2D(values=r.normal(size=mask.shape), mask=mk),
                "grid": aa.Grid2D.from_mask(mk, over_sampling=aa.OverSamplingUniform(sub_size=2)),
                "mask2": aa.Mask2D(mask=m2, pixel_scales=(1.0, 1.0), origin=(0.5, -1.0))}
    return _history(("struct", mask.tobytes(), mask.shape, seed), build, _STRUCT_READS, history)


# ---- inversion graph

def _inv_reads():
    R = {}
    for n in _INV_READS_CORE + ["curvature_reg_matrix_reduced", "reconstruction_reduced", "operated_mapping_matrix", "mapping_matrix",
                                "reconstruction_dict", "mapped_reconstructed_data_dict", "mapped_reconstructed_image_dict",
                                "reconstruction_noise_map_with_covariance", "regularization_weights_mapper_dict",
                                "mapper_edge_pixel_list", "data_subtracted_dict", "regularization_matrix_reduced"]:
        R["inv." + n] = (lambda g, n=n: getattr(g["inv"], n))
    for n in ["mapping_matrix", "unique_mappings", "pix_indexes_for_sub_slim_index", "pix_weights_for_sub_slim_index",
              "pix_sizes_for_sub_slim_index", "regularization_matrix", "sub_slim_indexes_for_pix_index", "pix_sub_weights",
              "edge_pixel_list", "neighbors"]:
        R["mapper." + n] = (lambda g, n=n: getattr(g["mapper"], n))
    R["mapper.pix_indexes_for_slim_indexes"] = lambda g: g["mapper"].pix_indexes_for_slim_indexes(pix_indexes=[0, 4])
    R["mapper.mapped_to_source_from"] = lambda g: g["mapper"].mapped_to_source_from(array=g["ds"].data)
    R["mapper.pixel_signals_from"] = lambda g: g["mapper"].pixel_signals_from(signal_scale=1.0)
    for n in ["data", "noise_map", "signal_to_noise_map", "grid", "w_tilde", "convolver"]:
        R["ds." + n] = (lambda g, n=n: getattr(g["ds"], n))
    R["ds.grids.pixelization"] = lambda g: g["ds"].grids.pixelization
    R["ds.grids.blurring"] = lambda g: g["ds"].grids.blurring
    R["grid(mapper input)"] = lambda g: g["grid"]
    R["mesh(mapper input)"] = lambda g: np.asarray(g["mesh"]._array)
    return R


_INV_READS = _inv_reads()
_INV_TRIPLE_CORE = ["inv.curvature_matrix", "inv.curvature_reg_matrix", "inv.regularization_matrix", "inv.data_vector",
                    "inv.reconstruction", "inv.mapped_reconstructed_image", "inv.log_det_curvature_reg_matrix_term",
                    "mapper.mapping_matrix", "inv.operated_mapping_matrix", "ds.w_tilde", "ds.convolver", "mapper.unique_mappings"]


def _gen_inv(rng, tier):
    fixtures = []
    for i in range(8):
        fixtures.append({"mask": _centre_mask(rng, 7, 2), "seed": rng.randrange(10 ** 6), "use_w_tilde": bool(i & 1),
                         "positive_only": not bool(i & 2), "mesh": "delaunay" if i in (3, 6) else "rectangular",
                         "reg": "split" if i == 6 else "constant"})
    return _gen_histories(sorted(_INV_READS), fixtures, rng, tier, 1, 250, 6000, _INV_TRIPLE_CORE)


@bounded("C11", "history-inversion-graph-reads", gen=_gen_inv,
         nontrivial=lambda mask, seed, use_w_tilde, positive_only, mesh, reg, history: len(set(history)) > 1)
def history_inversion(mask, seed, use_w_tilde, positive_only, mesh, reg, history):
    """C11: 'every public quantity of an inversion, ... dataset, mapper ... has the same value whatever the order and number
    of earlier accesses' (incl. the curvature-matrix buffer reused for curvature+regularization) -- histories over 47 reads
    of the graph inversion -> mapper -> grids -> masked Imaging (mapping and w-tilde formalisms, positive-only solver
    on/off, rectangular and Delaunay meshes, Constant / ConstantSplit regularization); bound: all 47^2 ordered pairs on one
    fixture + 250 (6000) seeded histories of length 3..4 on 8 fixtures (thorough: + all triples of a 12-read core and all length-4 histories over 6 of them)."""
    import autoarray as aa
    _quiet()
    key = ("inv", mask.tobytes(), seed, use_w_tilde, positive_only, mesh, reg)
    return _history(key, lambda: _graph(aa, mask, seed, use_w_tilde, positive_only, mesh, reg), _INV_READS, history)


# ---- dataset

def _ds_reads():
    R = {}
    for n in ["data", "noise_map", "psf", "signal_to_noise_map", "signal_to_noise_max", "grid", "convolver", "w_tilde", "mask",
              "shape_native", "pixel_scales", "noise_covariance_matrix_inv"]:
        R["ds." + n] = (lambda g, n=n: getattr(g["ds"], n))
    for n in ["uniform", "non_uniform", "pixelization", "blurring"]:
        R["ds.grids." + n] = (lambda g, n=n: getattr(g["ds"].grids, n))
    R["ds.grids.border_relocator.sub_border_grid"] = lambda g: g["ds"].grids.border_relocator.sub_border_grid
    R["ds.grids.uniform.over_sampler.over_sampled_grid"] = lambda g: g["ds"].grids.uniform.over_sampler.over_sampled_grid
    for n in ["data", "noise_map", "signal_to_noise_map", "grid"]:
        R["raw." + n] = (lambda g, n=n: getattr(g["raw"], n))
    R["raw.grids.uniform"] = lambda g: g["raw"].grids.uniform
    R["raw.apply_mask"] = lambda g: (lambda d: [d.data, d.noise_map, d.grids.uniform, d.grids.blurring])(g["raw"].apply_mask(mask=g["mask"]))
    R["raw.apply_noise_scaling"] = lambda g: (lambda d: [d.data, d.noise_map, d.grids.uniform])(g["raw"].apply_noise_scaling(mask=g["mask"]))
    R["raw.apply_noise_scaling(snr)"] = lambda g: (lambda d: [d.data, d.noise_map])(g["raw"].apply_noise_scaling(mask=g["mask"], signal_to_noise_value=2.0))
    R["raw.apply_over_sampling"] = lambda g: (lambda d: [d.data, d.grids.uniform, d.grids.uniform.over_sampler.over_sampled_grid])(
        g["raw"].apply_over_sampling(g["aa"].OverSamplingDataset(uniform=g["aa"].OverSamplingUniform(sub_size=4))))
    R["ds.apply_over_sampling"] = lambda g: (lambda d: [d.data, d.grids.uniform, d.grids.uniform.over_sampler.over_sampled_grid])(
        g["ds"].apply_over_sampling(g["aa"].OverSamplingDataset(uniform=g["aa"].OverSamplingUniform(sub_size=4))))
    R["ds.apply_mask(second mask)"] = lambda g: (lambda d: [d.data, d.noise_map, d.grids.uniform])(g["ds"].apply_mask(mask=g["mask2"]))
    return R


_DS_READS = _ds_reads()
_DS_CORE = ["ds.grids.uniform", "ds.grids.blurring", "ds.convolver", "ds.w_tilde", "ds.signal_to_noise_map", "raw.apply_mask",
            "raw.apply_noise_scaling", "raw.apply_over_sampling", "ds.apply_over_sampling", "ds.apply_mask(second mask)",
            "raw.grids.uniform", "ds.noise_map"]


def _gen_ds(rng, tier):
    fixtures = [{"mask": _centre_mask(rng, 7, 2), "seed": rng.randrange(10 ** 6), "covariance": i == 2} for i in range(5)]
    return _gen_histories(sorted(_DS_READS), fixtures, rng, tier, 1, 300, 6000, _DS_CORE)


@bounded("C11", "history-dataset-reads", gen=_gen_ds, nontrivial=lambda mask, seed, covariance, history: len(set(history)) > 1)
def history_dataset(mask, seed, covariance, history):
    """C11: 'every public quantity of a ... dataset ... has the same value whatever the order and number of earlier accesses'
    and masking / noise scaling / over-sampling derivations report the same contents whatever was read before -- histories
    over 30 reads of an unmasked Imaging `raw` and the masked Imaging `ds = raw.apply_mask(mask)` (data, noise map, S/N,
    grids.*, border relocator, convolver, w_tilde, apply_mask / apply_noise_scaling / apply_over_sampling results;
    trimming has its own check); bound: all 30^2 ordered pairs on one fixture + 300 (6000) seeded histories of length 3..4
    on 5 fixtures (thorough: + all triples of a 12-read core and all length-4 histories over 6 of them)."""
    import autoarray as aa
    _quiet()

    def build():
        sc, o = (1.0, 2.0), (0.5, -1.0)
        raw = _imaging(aa, seed, shape=mask.shape, scales=sc, origin=o, sub=2, covariance=covariance)
        mk = aa.Mask2D(mask=mask.copy(), pixel_scales=sc, origin=o)
        m2 = mask.copy()
        m2[: mask.shape[0] // 2 + 1, :] = True
        if m2.all():
            m2 = mask.copy()
        return {"aa": aa, "raw": raw, "mask": mk, "ds": raw.apply_mask(mask=mk), "mask2": aa.Mask2D(mask=m2, pixel_scales=sc, origin=o)}
    return _history(("ds", mask.tobytes(), seed, covariance), build, _DS_READS, history)


# =============================================================================================== derived objects

_VIS_DERIV = ["mul2", "add", "neg", "slice", "copy", "deepcopy", "with_new_array", "sub_other", "rmul", "div"]


def _vis_derive(aa, v, how, other):
    if how == "mul2":
        return v * 2.0
    if how == "rmul":
        return 3.0 * v
    if how == "div":
        return v / (1.0 + 1.0j)
    if how == "add":
        return v + (1.0 - 2.0j)
    if how == "neg":
        return -v
    if how == "slice":
        return v[1:]
    if how == "copy":
        return copy.copy(v)
    if how == "deepcopy":
        return copy.deepcopy(v)
    if how == "with_new_array":
        return v.with_new_array(other.copy())
    return v - aa.Visibilities(visibilities=other.copy())


def _gen_vis(rng, tier):
    for i in range(gens.budget(tier, 2000, 8000)):
        n = rng.randint(2, 6)
        yield {"re": gens.reals(rng, (n,), -5, 5, special=False), "im": gens.reals(rng, (n,), -5, 5, special=False),
               "re2": gens.reals(rng, (n,), -5, 5, special=False), "im2": gens.reals(rng, (n,), -5, 5, special=False),
               "how": _VIS_DERIV[i % len(_VIS_DERIV)], "pre_reads": [["amplitudes"], ["phases"], ["amplitudes", "phases"], []][(i // len(_VIS_DERIV)) % 4]}


@bounded("C11", "derived-visibilities-amplitudes-phases", gen=_gen_vis,
         nontrivial=lambda re, im, re2, im2, how, pre_reads: len(pre_reads) > 0)
def derived_visibilities(re, im, re2, im2, how, pre_reads):
    """C11: 'a derived object always reports quantities consistent with its own contents' and reads on the source do not
    change what objects 'later derived from it by arithmetic, slicing, copying' report -- Visibilities.amplitudes / phases
    of v*2, 3*v, v/c, v+c, -v, v[1:], copy, deepcopy, with_new_array, v-w, with amplitudes / phases of v read first or not;
    oracle: |z| and atan2(Im z, Re z) of the derived object's own array; mechanism: AbstractNDArray.__copy__ copies
    __dict__ including cached_property entries; bound: 2000 (8000) seeded vectors of length 2..6 x 10 derivations x 4
    pre-read sets."""
    import autoarray as aa
    v = aa.Visibilities(visibilities=re + 1j * im)
    other = re2 + 1j * im2
    for r in pre_reads:
        getattr(v, r)
    d = _vis_derive(aa, v, how, other)
    z = np.asarray(d._array)
    amp, ph = np.asarray(d.amplitudes), np.asarray(d.phases)
    if amp.shape != z.shape or not np.allclose(amp, np.abs(z), rtol=1e-9, atol=1e-12):
        return "derivation %r after reading %r on the source: derived.amplitudes=%r but |derived values|=%r" % (how, pre_reads, amp, np.abs(z))
    if ph.shape != z.shape or not np.allclose(ph, np.arctan2(z.imag, z.real), rtol=1e-9, atol=1e-12):
        return "derivation %r after reading %r on the source: derived.phases=%r but arg(derived values)=%r" % (how, pre_reads, ph, np.arctan2(z.imag, z.real))
    want = re + 1j * im
    if not np.array_equal(np.asarray(v._array), want) or not np.allclose(np.asarray(v.amplitudes), np.abs(want), rtol=1e-9, atol=1e-12):
        return "the derivation changed the source object"
    return None


_GRID_DERIV = ["pow2", "mul_field", "deflection", "with_new_array", "copy", "sub_scalar", "slice", "mul2"]


def _grid_derive(aa, g, how, field):
    if how == "pow2":
        return g ** 2
    if how == "mul_field":
        return g * field
    if how == "deflection":
        return g.grid_2d_via_deflection_grid_from(deflection_grid=aa.Grid2D(values=field.copy(), mask=g.mask))
    if how == "with_new_array":
        return g.with_new_array(field.copy())
    if how == "copy":
        return copy.copy(g)
    if how == "sub_scalar":
        return g - 0.25
    if how == "slice":
        return g[1:]
    return g * 2.0


def _gen_grid_derived(rng, tier):
    for i in range(gens.budget(tier, 1500, 6000)):
        m = gens.random_mask(rng, 5, 5, hmin=2, wmin=2, min_unmasked=3, p=0.3)
        n = int((~m).sum())
        yield {"mask": m, "field": gens.reals(rng, (n, 2), 0.5, 3.0, special=False), "how": _GRID_DERIV[i % len(_GRID_DERIV)],
               "pre_reads": [["is_uniform"], ["is_uniform", "over_sampler"], []][(i // len(_GRID_DERIV)) % 3]}


@bounded("C11", "derived-grid2d-is-uniform", gen=_gen_grid_derived,
         nontrivial=lambda mask, field, how, pre_reads: len(pre_reads) > 0)
def derived_grid(mask, field, how, pre_reads):
    """C11: same clause for Grid2D -- is_uniform (and the over-sampled grid) of g**2, g*field, the deflected grid
    g.grid_2d_via_deflection_grid_from(...), with_new_array, copy, g-c, g[1:], g*2 must equal what the SAME derivation
    reports when nothing was read on g beforehand; mechanism: AbstractNDArray.__copy__ / with_new_array carry g's cached
    is_uniform; bound: 1500 (6000) random masks <= 5x5 x 8 derivations x {is_uniform, over_sampler} pre-reads."""
    import autoarray as aa

    def build():
        mk = aa.Mask2D(mask=mask.copy(), pixel_scales=(1.0, 1.0), origin=(0.5, -1.0))
        return aa.Grid2D.from_mask(mk, over_sampling=aa.OverSamplingUniform(sub_size=2))

    def report(d):
        return [_try(lambda x: x.is_uniform, d), _try(lambda x: np.asarray(x._array), d)]
    g = build()
    for r in pre_reads:
        getattr(g, r)
    got = report(_grid_derive(aa, g, how, field))
    want = report(_grid_derive(aa, build(), how, field))
    if not _same(got, want):
        return "derivation %r after reading %r on the source grid: derived.is_uniform=%s, without the earlier reads it is %s (derived values %s)" % (
            how, pre_reads, got[0], want[0], _short(want[1]))
    return None


def _gen_mask_derived(rng, tier):
    k = 0
    for n in (5, 6, 7, 8, 9):
        for radius in (1.0, 1.5, 2.0, 2.5, 3.0):
            for how in ("invert", "copy", "deepcopy"):
                for pre in (["circular_radius"], ["is_circular"], []):
                    if radius * 2 + 1 <= n:
                        yield {"n": n, "radius": radius, "scale": [1.0, 0.5, 2.0][k % 3], "how": how, "pre_reads": pre}
                        k += 1


@bounded("C11", "derived-mask2d-circular-radius", gen=_gen_mask_derived, nontrivial=lambda n, radius, scale, how, pre_reads: len(pre_reads) > 0)
def derived_mask(n, radius, scale, how, pre_reads):
    """C11: same clause for Mask2D -- circular_radius / is_circular of mask.invert(), copy(mask), deepcopy(mask) must equal
    what the same derivation reports when circular_radius was not read on the source first; mechanism:
    AbstractNDArray.__copy__ (used by Mask2D.invert via self.copy()) carries the cached circular_radius; bound: circular
    masks n x n, n = 5..9, radii 1..3 (step 0.5), pixel scales {0.5, 1, 2}, 3 derivations x 3 pre-read sets (exhaustive)."""
    import autoarray as aa

    def build():
        return aa.Mask2D.circular(shape_native=(n, n), radius=radius * scale, pixel_scales=scale)

    def derive(m):
        return m.invert() if how == "invert" else (copy.copy(m) if how == "copy" else copy.deepcopy(m))

    def report(d):
        return [_try(lambda x: x.circular_radius, d), _try(lambda x: x.is_circular, d), _try(lambda x: np.asarray(x._array), d)]
    m = build()
    for r in pre_reads:
        _try(lambda x: getattr(x, r), m)
    got, want = report(derive(m)), report(derive(build()))
    if not _same(got, want):
        return "%s of a circular mask (n=%d, radius=%r, scale=%r) after reading %r on the source: circular_radius=%s, without the earlier read it is %s" % (
            how, n, radius * scale, scale, pre_reads, got[0], want[0])
    return None


_TRIM_PRE = [["grids"], ["grids.uniform"], ["grids.pixelization", "grids.blurring"], ["convolver"], ["w_tilde"], ["grid", "convolver", "w_tilde"], []]


def _gen_trim(rng, tier):
    for i in range(gens.budget(tier, 210, 700)):
        yield {"mask": _centre_mask(rng, 9, 3), "seed": rng.randrange(10 ** 6), "masked": bool((i // len(_TRIM_PRE)) % 2),
               "pre_reads": _TRIM_PRE[i % len(_TRIM_PRE)]}


@bounded("C11", "derived-dataset-trimmed-after-convolution", gen=_gen_trim, nontrivial=lambda mask, seed, masked, pre_reads: len(pre_reads) > 0)
def derived_trimmed(mask, seed, masked, pre_reads):
    """C11: 'a derived object always reports quantities consistent with its own contents' -- Imaging.trimmed_after_convolution_from
    ((3, 3)) of an unmasked / masked 9x9 dataset: grids.uniform / pixelization / blurring, convolver and w_tilde of the trimmed
    dataset must (a) equal what the same trimming reports when nothing was read on the parent first and (b) live on the
    trimmed data's own mask (7x7); mechanism: AbstractDataset.trimmed_after_convolution_from shallow-copies __dict__ with
    the parent's cached grids / convolver / w_tilde; bound: 210 (700) seeded datasets x 7 pre-read sets x {unmasked, masked}."""
    import autoarray as aa
    _quiet()

    def build():
        raw = _imaging(aa, seed, shape=mask.shape, scales=(1.0, 2.0), origin=(0.5, -1.0), sub=2)
        if masked:
            return raw.apply_mask(mask=aa.Mask2D(mask=mask.copy(), pixel_scales=(1.0, 2.0), origin=(0.5, -1.0)))
        return raw

    def read(d, name):
        o = d
        for part in name.split("."):
            o = getattr(o, part)
        return o

    def report(d):
        return {"data": _try(lambda x: x.data, d), "grids.uniform": _try(lambda x: x.grids.uniform, d),
                "grids.pixelization": _try(lambda x: x.grids.pixelization, d), "grids.blurring": _try(lambda x: x.grids.blurring, d),
                "convolver": _try(lambda x: x.convolver, d), "w_tilde": _try(lambda x: x.w_tilde, d)}
    p = build()
    for r in pre_reads:
        _try(lambda x: read(x, r), p)
    t = p.trimmed_after_convolution_from(kernel_shape=(3, 3))
    got = report(t)
    want = report(build().trimmed_after_convolution_from(kernel_shape=(3, 3)))
    for k in want:
        if not _same(got[k], want[k]):
            extra = ""
            try:
                extra = " (trimmed data shape %r, trimmed.grids.uniform mask shape %r)" % (tuple(t.data.shape_native), tuple(t.grids.uniform.mask.shape))
            except Exception:
                pass
            return "trimmed dataset after reading %r on the parent: `%s` differs from the value reported without the earlier reads%s" % (pre_reads, k, extra)
    try:
        if tuple(t.grids.uniform.mask.shape) != tuple(t.data.mask.shape):
            return "trimmed.grids.uniform lives on a %r mask, trimmed.data on %r" % (tuple(t.grids.uniform.mask.shape), tuple(t.data.mask.shape))
    except Exception:
        pass
    return None


# =============================================================================================== determinism

def _gen_sim(rng, tier):
    for i in range(gens.budget(tier, 400, 1500)):
        h, w = rng.randint(3, 6), rng.randint(3, 6)
        # boundary seeds first: 0 is a fixed seed like any other (only -1 asks for a fresh one), as are 1 and 2**32 - 1
        seed = [0, 1, 2 ** 32 - 1, 2][i] if i < 4 else (rng.choice([0, 1, 2 ** 32 - 1]) if rng.random() < 0.15 else rng.randint(0, 10 ** 6))
        yield {"image": gens.reals(rng, (h, w), 0.5, 5.0, special=False), "noise_seed": seed,
               "state_a": rng.randint(0, 2 ** 31), "state_b": rng.randint(0, 2 ** 31), "burn": rng.randint(0, 50), "add_noise": i % 4 != 3}


@bounded("C11", "simulator-fixed-seed-deterministic", gen=_gen_sim, nontrivial=lambda image, noise_seed, state_a, state_b, burn, add_noise: add_noise)
def simulator_deterministic(image, noise_seed, state_a, state_b, burn, add_noise):
    """C11: 'repeating a computation with equal inputs gives identical results, including simulated datasets with a fixed
    noise seed irrespective of the prior state of the global random generator' -- SimulatorImaging(noise_seed=k)
    .via_image_from(image) run under two different global np.random states (different seeds, different numbers of draws
    consumed): data and noise map byte-identical, the input image and psf unmodified; bound: 400 (1500) seeded images <= 6x6."""
    import autoarray as aa
    _quiet()
    psf = aa.Kernel2D.no_mask(values=_PSF, pixel_scales=(0.5, 0.5))
    img = aa.Array2D.no_mask(values=image.copy(), pixel_scales=(0.5, 0.5))
    f_img, f_psf = _fp(img), _fp(psf)
    outs = []
    saved = np.random.get_state()
    try:
        for st, extra in ((state_a, 0), (state_b, burn)):
            np.random.seed(st)
            if extra:
                np.random.normal(size=extra)
            sim = aa.SimulatorImaging(exposure_time=300.0, psf=psf, background_sky_level=1.0, noise_seed=noise_seed,
                                      add_poisson_noise_to_data=add_noise)
            d = sim.via_image_from(image=img)
            outs.append((np.asarray(d.data.native._array).copy(), np.asarray(d.noise_map.native._array).copy()))
    finally:
        np.random.set_state(saved)
    if not np.array_equal(outs[0][0], outs[1][0]):
        return "noise_seed=%d: simulated data differ between two global RNG states (max |diff| %g)" % (noise_seed, np.abs(outs[0][0] - outs[1][0]).max())
    if not np.array_equal(outs[0][1], outs[1][1]):
        return "noise_seed=%d: simulated noise maps differ between two global RNG states" % noise_seed
    if _fp(img) != f_img or _fp(psf) != f_psf:
        return "via_image_from modified the input image / psf"
    return None


# =============================================================================================== generic harnesses
#
# (1) introspection: every public zero-argument quantity (property / cached_property whose name does not start with '_')
#     of chosen objects of a freshly built object graph is an element of the read alphabet; objects returned by such a
#     quantity that are not values themselves (derive_mask, geometry, over_sampler, grids, ...) are entered recursively.
# (2) values are compared through `_val` (a strict snapshot: arrays, autoarray structures, scipy triangulations, plain
#     records of arrays, nested lists / tuples / dicts); anything else is 'not comparable' and only used as an EARLIER read.
# (3) `_order_history`: every read of a history must report what the same read reports on a fresh identical graph.

class _NotComparable(Exception):
    pass


def _is_quantity_descriptor(a):
    import functools
    return isinstance(a, (property, functools.cached_property)) or type(a).__name__ in ("CachedProperty", "cached_property")


def _public_quantities(obj):
    import inspect
    names = []
    for k in dir(type(obj)):
        if k.startswith("_"):
            continue
        try:
            a = inspect.getattr_static(type(obj), k)
        except AttributeError:
            continue
        if _is_quantity_descriptor(a):
            names.append(k)
    return sorted(names)


def _val_array(a):
    a = np.asarray(a)
    if a.dtype == object:
        return ["objarr"] + [_val(x, 1) for x in a.tolist()]
    if np.iscomplexobj(a):
        return [a.real.astype(float).copy(), a.imag.astype(float).copy()]
    if a.dtype.kind not in "biuf":
        return "arr:" + repr(a.tolist())
    return a.astype(float).copy()


def _val(v, depth=0):
    """strict comparable snapshot of a reported value; raises _NotComparable for objects that are not values"""
    if depth > 6:
        raise _NotComparable("depth")
    if v is None or isinstance(v, (bool, str, bytes, np.bool_)):
        return repr(v)
    if isinstance(v, (int, float, np.integer, np.floating)):
        return np.array(float(v))
    if isinstance(v, (complex, np.complexfloating)):
        return np.array([v.real, v.imag], dtype=float)
    if isinstance(v, dict):
        return ["dict"] + [[k if isinstance(k, str) else (repr(k) if isinstance(k, (int, float, bool, tuple)) else type(k).__name__),
                            _val(x, depth + 1)] for k, x in v.items()]
    if isinstance(v, (list, tuple)):
        return ["seq"] + [_val(x, depth + 1) for x in v]
    mod = type(v).__module__ or ""
    if mod.startswith("scipy.spatial"):
        out = ["scipy:" + type(v).__name__]
        for n in ("points", "simplices", "neighbors", "vertices", "ridge_points", "ridge_vertices", "regions", "point_region"):
            if hasattr(v, n):
                out.append(_val(getattr(v, n), depth + 1))
        return out
    if mod.startswith("scipy.sparse"):
        return ["sparse", _val_array(v.toarray())]
    if hasattr(v, "_array"):
        out = ["aa:" + type(v).__name__, _val_array(v._array)]
        m = v.__dict__.get("mask", None)
        if m is not None and m is not v and hasattr(m, "_array"):
            out += [_val_array(m._array), _val(tuple(getattr(m, "origin", ())), depth + 1), _val(tuple(getattr(m, "pixel_scales", ())), depth + 1)]
        elif "origin" in v.__dict__ and "pixel_scales" in v.__dict__:
            out += [_val(tuple(v.__dict__["origin"]), depth + 1), _val(tuple(v.__dict__["pixel_scales"]), depth + 1)]
        return out
    if isinstance(v, np.ndarray):
        out = _val_array(v)
        extra = getattr(v, "__dict__", None)
        if extra:
            out = ["nd:" + type(v).__name__, out] + [[k, _val(x, depth + 1)] for k, x in sorted(extra.items())]
        return out
    if mod.startswith("autoarray") and hasattr(v, "__dict__") and not _public_quantities(v):
        return ["rec:" + type(v).__name__] + [[k, _val(x, depth + 1)] for k, x in sorted(v.__dict__.items())]     # plain record
    raise _NotComparable(type(v).__name__)


class _Silence:
    """the library print()s a notice for every Voronoi interpolation call when its optional C extension is absent"""

    def __enter__(self):
        import contextlib
        import io
        self._cm = contextlib.redirect_stdout(io.StringIO())
        self._cm.__enter__()

    def __exit__(self, *a):
        return self._cm.__exit__(*a)


def _resolve(graph, path, extras):
    if path in extras:
        return extras[path](graph)
    parts = path.split(".")
    o = graph[parts[0]]
    for p in parts[1:]:
        o = getattr(o, p)
    return o


def _read_val(graph, path, extras):
    try:
        with _Silence():
            v = _resolve(graph, path, extras)
    except Exception as e:           # an exception is a reportable outcome of a read
        return "EXC " + type(e).__name__
    try:
        return _val(v)
    except _NotComparable:
        return "NOTCOMPARABLE " + type(v).__name__
    except RecursionError:
        return "NOTCOMPARABLE (recursive) " + type(v).__name__


def _is_scalar_val(s):
    """snapshot of a scalar / tuple of scalars / string (no array content)"""
    if isinstance(s, str):
        return True
    if isinstance(s, list):
        return all(_is_scalar_val(x) for x in s[1:]) if s and isinstance(s[0], str) else all(_is_scalar_val(x) for x in s)
    return getattr(s, "ndim", 1) == 0


def _enumerate_quantities(graph, roots, extras, max_depth=2):
    """[(path, kind)] for every public zero-argument quantity reachable from the root objects that does not raise on this
    fresh graph; kind: 'array' (comparable, has array content), 'scalar' (comparable, scalars only), 'object'"""
    out = []

    def rec(obj, path, depth, seen):
        for name in _public_quantities(obj):
            p = path + "." + name
            try:
                with _Silence():
                    v = getattr(obj, name)
            except Exception:
                continue                                  # raises on a fresh object: not part of the alphabet
            try:
                s = _val(v)
                kind = "scalar" if _is_scalar_val(s) else "array"
            except (_NotComparable, RecursionError):
                kind = "object"
            out.append((p, kind))
            if kind == "object" and depth < max_depth and (type(v).__module__ or "").startswith("autoarray") and type(v) not in seen:
                rec(v, p, depth + 1, seen | {type(v)})

    for r in roots:
        o = _resolve(graph, r, {})
        rec(o, r, 1, {type(o)})
    for name, f in extras.items():
        if any(name == p for p, _ in out):
            continue
        try:
            with _Silence():
                s = _val(f(graph))
            out.append((name, "scalar" if _is_scalar_val(s) else "array"))
        except (_NotComparable, RecursionError):
            out.append((name, "object"))
        except Exception:
            continue
    return out


_OREF = {}


def _order_history(key, build, extras, history):
    """each comparable read of the history must report what the same read reports on a FRESH identical graph (the
    property: 'the same value whatever the order and number of earlier accesses'); reads that raise on a fresh graph or
    are not comparable act as earlier reads only"""
    if len(_OREF) > 48:
        _OREF.clear()
    refs = _OREF.setdefault(key, {})
    for r in history:
        if r not in refs:
            refs[r] = _read_val(build(), r, extras)
    g = build()
    for i, r in enumerate(history):
        got = _read_val(g, r, extras)
        want = refs[r]
        if isinstance(want, str) and (want.startswith("EXC ") or want.startswith("NOTCOMPARABLE")):
            continue
        if not _same(got, want):
            return "after the reads %r, `%s` reports %s; on a fresh identical object it reports %s" % (
                history[:i], r, _short(got), _short(want))
    return None


def _gen_order(fixture_cases, enumerate_case, rng, tier, n_pair_cases, quick_filter="ss", triple_cap=14):
    """quick: all ordered pairs (A, B), B comparable, on the first `n_pair_cases` fixture cases -- quick_filter None: every
    pair; "ss": pairs of two scalar-valued quantities only in the thorough tier; "sa": pairs whose FIRST read is scalar-valued
    (and pairs object-valued read -> scalar-valued read) only in the thorough tier; thorough: every pair on every case + all triples (A1, A2, B) over (a capped number of) the
    array-valued quantities + seeded random histories of length 3..5"""
    cases = fixture_cases if tier == "thorough" else fixture_cases[:n_pair_cases]
    alph = {}
    for ci, fx in enumerate(cases):
        qs = enumerate_case(fx)
        alph[ci] = qs
        names = [p for p, _ in qs]
        kind = dict(qs)
        comparable = [p for p in names if kind[p] != "object"]
        heavy = [p for p in names if kind[p] != "scalar"]
        qf = None if tier == "thorough" else quick_filter
        for b in comparable:                               # array-valued observations first
            if kind[b] == "array":
                for a in (heavy if qf == "sa" else names):
                    yield dict(fx, history=[a, b])
        arrays_only = [p for p in names if kind[p] == "array"]
        for b in comparable:
            if kind[b] == "scalar":
                for a in (arrays_only if qf == "sa" else heavy if qf == "ss" else names):
                    yield dict(fx, history=[a, b])
    if tier == "thorough":
        for ci, fx in enumerate(cases[:2]):
            kind = dict(alph[ci])
            core = [p for p, k in alph[ci] if k == "array"]
            rng.shuffle(core)
            core = sorted(core[:triple_cap])
            for h in itertools.product(core, repeat=3):
                yield dict(fx, history=list(h))
        for i in range(4000):
            ci = i % len(cases)
            names = [p for p, _ in alph[ci]]
            yield dict(cases[ci], history=[rng.choice(names) for _ in range(rng.choice([3, 4, 5]))])


# ---- meshes

def _mesh_points(seed, n):
    """n points: a jittered lattice stretched outwards (interior Voronoi cells of different finite size, unbounded cells
    on the hull, no cocircular quadruples)"""
    r = np.random.default_rng(seed)
    k = int(np.ceil(np.sqrt(n)))
    y, x = np.meshgrid(np.linspace(-1.5, 1.5, k), np.linspace(-1.0, 2.0, k), indexing="ij")
    p = np.stack([y.ravel(), x.ravel()], axis=1)[:n]
    p = p * (1.0 + 0.3 * np.abs(p))
    return p + 0.08 * r.normal(size=p.shape)


def _build_mesh_graph(aa, kind, seed, n):
    pts = _mesh_points(seed, n)
    if kind == "delaunay":
        mesh = aa.Mesh2DDelaunay(values=pts)
    elif kind == "voronoi":
        mesh = aa.Mesh2DVoronoi(values=pts)
    else:
        mesh = aa.Mesh2DRectangular.overlay_grid(grid=aa.Grid2DIrregular(values=pts), shape_native=(3, 4))
    return {"mesh": mesh, "values": np.random.default_rng(seed + 1).normal(size=mesh.pixels) + 3.0}


_MESH_EXTRAS = {
    "mesh.interpolated_array_from": lambda g: g["mesh"].interpolated_array_from(values=g["values"], shape_native=(4, 5)),
    "mesh.interpolated_array_from(extent)": lambda g: g["mesh"].interpolated_array_from(
        values=g["values"], shape_native=(3, 3), extent=(-1.0, 1.0, -1.0, 1.0)),
    "copy(mesh)": lambda g: copy.copy(g["mesh"]),
    "mesh*2": lambda g: g["mesh"] * 2.0,
}


def _mesh_cases():
    return [{"kind": "delaunay", "seed": 11, "n": 12}, {"kind": "voronoi", "seed": 5, "n": 10},
            {"kind": "rectangular", "seed": 7, "n": 12}, {"kind": "voronoi", "seed": 23, "n": 16},
            {"kind": "delaunay", "seed": 2, "n": 9}, {"kind": "delaunay", "seed": 31, "n": 25}]


def _gen_order_mesh(rng, tier):
    import autoarray as aa
    _quiet()
    return _gen_order(_mesh_cases(), lambda fx: _enumerate_quantities(_build_mesh_graph(aa, **fx), ["mesh"], _MESH_EXTRAS, 2),
                      rng, tier, n_pair_cases=3, quick_filter=None)


@bounded("C11", "order-pairs-meshes", gen=_gen_order_mesh, nontrivial=lambda kind, seed, n, history: len(set(history)) > 1)
def order_pairs_meshes(kind, seed, n, history):
    """C11: 'reading any derived quantity ... never changes the value that any other quantity subsequently reports - on the
    same object ...; every public quantity of a ... structure has the same value whatever the order and number of earlier
    accesses' -- generic order-independence harness on source-plane meshes: the read alphabet is found by introspection
    (every property / cached_property of Mesh2DDelaunay, Mesh2DVoronoi, Mesh2DRectangular and of the derive / geometry
    objects they return that does not raise on a fresh mesh, + interpolated_array_from, copy, arithmetic); for every
    ordered pair (A, B) `read A; read B` must report the B a fresh identical mesh reports; bound: all ordered pairs
    (incl. A = B) on 3 meshes (12-point Delaunay, 10-point Voronoi, 3x4 rectangular; thorough: 6 meshes up to 25 points +
    all triples over 14 array-valued quantities + 4000 seeded histories of length 3..5)."""
    import autoarray as aa
    _quiet()
    return _order_history(("mesh", kind, seed, n), lambda: _build_mesh_graph(aa, kind, seed, n), _MESH_EXTRAS, history)


# ---- mappers + regularization objects

_REG_KINDS = ["constant", "constant_zeroth", "zeroth", "adaptive", "brightness_zeroth", "gaussian", "exponential", "matern",
              "constant_split", "adaptive_split", "adaptive_split_zeroth"]


def _make_reg(aa, kind):
    r = aa.reg
    return {"constant": lambda: r.Constant(coefficient=1.5), "constant_zeroth": lambda: r.ConstantZeroth(coefficient_neighbor=1.0, coefficient_zeroth=0.5),
            "zeroth": lambda: r.Zeroth(coefficient=0.7), "adaptive": lambda: r.AdaptiveBrightness(inner_coefficient=0.5, outer_coefficient=2.0, signal_scale=1.5),
            "brightness_zeroth": lambda: r.BrightnessZeroth(coefficient=0.8, signal_scale=1.2),
            "gaussian": lambda: r.GaussianKernel(coefficient=1.0, scale=0.8), "exponential": lambda: r.ExponentialKernel(coefficient=1.0, scale=0.8),
            "matern": lambda: r.MaternKernel(coefficient=1.0, scale=0.8, nu=1.5), "constant_split": lambda: r.ConstantSplit(coefficient=1.2),
            "adaptive_split": lambda: r.AdaptiveBrightnessSplit(inner_coefficient=0.5, outer_coefficient=2.0, signal_scale=1.5),
            "adaptive_split_zeroth": lambda: r.AdaptiveBrightnessSplitZeroth(zeroth_coefficient=0.3, zeroth_signal_scale=1.0, inner_coefficient=0.5,
                                                                              outer_coefficient=2.0, signal_scale=1.5)}[kind]()


def _build_mapper_graph(aa, mask, seed, mesh, reg, sub=2):
    """mapper -> (mesh, data grid, over sampler, mask) + one regularization object of every scheme"""
    r = np.random.default_rng(seed)
    mk = aa.Mask2D(mask=mask.copy(), pixel_scales=(1.0, 1.0))
    over = aa.OverSamplerUniform(mask=mk, sub_size=sub)
    grid = over.over_sampled_grid
    ext = np.asarray(grid)
    y0, y1, x0, x1 = ext[:, 0].min(), ext[:, 0].max(), ext[:, 1].min(), ext[:, 1].max()
    if mesh == "rectangular":
        mesh_grid = aa.Mesh2DRectangular.overlay_grid(grid=grid, shape_native=(3, 3))
        cls = aa.MapperRectangular
    else:
        u = np.array([[0.05, 0.1], [0.1, 0.9], [0.5, 0.45], [0.9, 0.15], [0.95, 0.9], [0.4, 0.05], [0.6, 0.95], [0.3, 0.6], [0.7, 0.4]])
        pts = np.stack([y0 - 0.3 + u[:, 0] * (y1 - y0 + 0.6), x0 - 0.3 + u[:, 1] * (x1 - x0 + 0.6)], axis=1)
        mesh_grid = aa.Mesh2DDelaunay(values=pts) if mesh == "delaunay" else aa.Mesh2DVoronoi(values=pts)
        cls = aa.MapperDelaunay if mesh == "delaunay" else aa.MapperVoronoi
    adapt = aa.Array2D(values=r.uniform(0.5, 3.0, size=int((~mask).sum())), mask=mk)
    mg = aa.MapperGrids(mask=mk, source_plane_data_grid=grid, source_plane_mesh_grid=mesh_grid, image_plane_mesh_grid=None, adapt_data=adapt)
    mapper = cls(mapper_grids=mg, over_sampler=over, border_relocator=None, regularization=_make_reg(aa, reg))
    g = {"mask": mk, "over": over, "grid": grid, "mesh": mesh_grid, "mapper": mapper, "mg": mg, "adapt": adapt,
         "values": r.normal(size=mesh_grid.pixels) + 3.0, "image": aa.Array2D(values=r.normal(size=int((~mask).sum())) + 2.0, mask=mk)}
    for k in _REG_KINDS:
        try:
            g["reg_" + k] = _make_reg(aa, k)
        except ImportError:             # scheme needs an optional dependency that is not installed: not in the alphabet
            pass
    return g


def _mapper_extras():
    X = {}
    for k in _REG_KINDS:
        X["reg_%s.regularization_matrix_from(mapper)" % k] = (lambda g, k=k: g["reg_" + k].regularization_matrix_from(linear_obj=g["mapper"]))
        X["reg_%s.regularization_weights_from(mapper)" % k] = (lambda g, k=k: g["reg_" + k].regularization_weights_from(linear_obj=g["mapper"]))
    X["mapper.pixel_signals_from"] = lambda g: g["mapper"].pixel_signals_from(signal_scale=1.3)
    X["mapper.pix_indexes_for_slim_indexes"] = lambda g: g["mapper"].pix_indexes_for_slim_indexes(pix_indexes=[0, 4])
    X["mapper.mapped_to_source_from"] = lambda g: g["mapper"].mapped_to_source_from(array=g["image"])
    X["mapper.data_weight_total_for_pix_from"] = lambda g: g["mapper"].data_weight_total_for_pix_from()
    X["mapper.extent_from"] = lambda g: g["mapper"].extent_from(values=g["values"])
    X["mapper.interpolated_array_from"] = lambda g: g["mapper"].interpolated_array_from(values=g["values"], shape_native=(4, 4))
    X["mesh(input).array"] = lambda g: np.asarray(g["mesh"]._array)
    X["grid(input).array"] = lambda g: np.asarray(g["grid"]._array)
    X["adapt_data(input)"] = lambda g: g["adapt"]
    return X


_MAPPER_EXTRAS = _mapper_extras()
_MAPPER_MASK = np.ones((7, 7), dtype=bool)
_MAPPER_MASK[2:5, 2:5] = False
_MAPPER_MASK[2, 4] = True
_MAPPER_MASK[1, 3] = False


def _mapper_cases():
    m2 = np.ones((6, 7), dtype=bool)
    m2[1:5, 2:5] = False
    m2[3, 3] = True
    return [{"mask": _MAPPER_MASK, "seed": 4, "mesh": "delaunay", "reg": "constant_split"},
            {"mask": _MAPPER_MASK, "seed": 9, "mesh": "rectangular", "reg": "adaptive"},
            {"mask": m2, "seed": 1, "mesh": "voronoi", "reg": "adaptive_split"},
            {"mask": m2, "seed": 3, "mesh": "delaunay", "reg": "gaussian"},
            {"mask": m2, "seed": 6, "mesh": "rectangular", "reg": "constant_zeroth"}]


def _mapper_alphabet(aa, fx):
    """mapper quantities (introspected), the mesh's array-valued quantities (introspected) and the regularization queries"""
    qs = _enumerate_quantities(_build_mapper_graph(aa, **fx), ["mapper", "mesh", "mg"], _MAPPER_EXTRAS, 1)
    return [(p, k) for p, k in qs if not (p.startswith("mesh.") and k != "array")]


def _gen_order_mapper(rng, tier):
    import autoarray as aa
    _quiet()
    return _gen_order(_mapper_cases(), lambda fx: _mapper_alphabet(aa, fx), rng, tier, n_pair_cases=2, quick_filter="sa")


@bounded("C11", "order-pairs-mappers-regularizations", gen=_gen_order_mapper,
         nontrivial=lambda mask, seed, mesh, reg, history: len(set(history)) > 1)
def order_pairs_mappers(mask, seed, mesh, reg, history):
    """C11: 'reading any derived quantity or calling any query method never changes the value that any other quantity
    subsequently reports - on the same object, on the objects it was built from ...' -- generic order-independence harness
    on a mapper graph: alphabet = every public property / cached_property of MapperDelaunay / MapperRectangular /
    MapperVoronoi and MapperGrids (introspected), the array-valued ones of the mesh the mapper was built from, the mapper's
    query methods, and regularization_matrix_from(linear_obj=mapper) / regularization_weights_from of one object of each of
    the 11 regularization schemes (Constant ... AdaptiveBrightnessSplitZeroth, kernels); for every ordered pair (A, B)
    `read A; read B` must report the B of a fresh identical graph (pairs A = B: a query called twice); bound: all ordered
    pairs (first read scalar-valued: thorough only) on a Delaunay + ConstantSplit and a rectangular + AdaptiveBrightness
    mapper on 7x7 masks (thorough: 5 graphs incl. Voronoi, all triples over 14 array-valued reads, 4000 seeded histories)."""
    import autoarray as aa
    _quiet()
    return _order_history(("mapper", mask.tobytes(), mask.shape, seed, mesh, reg),
                          lambda: _build_mapper_graph(aa, mask, seed, mesh, reg), _MAPPER_EXTRAS, history)


# ---- structures and their derive_* / geometry objects

_SD_ROOTS = ["mask", "arr", "grid", "mask.derive_mask", "mask.derive_indexes", "mask.derive_grid", "mask.geometry", "grid.over_sampler"]
_SD_ROOTS_THOROUGH = _SD_ROOTS + ["arr.derive_mask", "arr.derive_indexes", "grid.derive_grid", "grid.derive_mask", "grid.geometry", "arr.geometry"]


def _build_struct_graph(aa, mask, seed, scales, origin):
    r = np.random.default_rng(seed)
    mk = aa.Mask2D(mask=mask.copy(), pixel_scales=scales, origin=origin)
    m2 = mask.copy()
    m2[:, : mask.shape[1] // 2] = True
    return {"mask": mk, "arr": aa.Array2D(values=r.normal(size=mask.shape), mask=mk),
            "grid": aa.Grid2D.from_mask(mk, over_sampling=aa.OverSamplingUniform(sub_size=2)),
            "mask2": aa.Mask2D(mask=m2, pixel_scales=scales, origin=origin)}


def _struct_cases():
    m1 = np.ones((6, 7), dtype=bool)
    m1[1:5, 1:6] = False
    m1[2, 3] = True
    m1[0, 2] = False
    m2 = np.ones((7, 7), dtype=bool)
    m2[1:6, 2:5] = False
    m2[3, 1] = False
    m2[3, 3] = True
    m3 = np.zeros((4, 5), dtype=bool)
    m3[0, 0] = True
    return [{"mask": m1, "seed": 3, "scales": (1.0, 2.0), "origin": (0.5, -1.0)},
            {"mask": m2, "seed": 8, "scales": (1.0, 1.0), "origin": (0.0, 0.0)},
            {"mask": m3, "seed": 5, "scales": (0.5, 0.5), "origin": (1.0, 1.0)}]


def _gen_order_struct(rng, tier):
    import autoarray as aa
    _quiet()
    return _gen_order(_struct_cases(), lambda fx: _enumerate_quantities(
        _build_struct_graph(aa, **fx), _SD_ROOTS_THOROUGH if tier == "thorough" else _SD_ROOTS, _STRUCT_READS, 1),
                      rng, tier, n_pair_cases=1, quick_filter="sa")


@bounded("C11", "order-pairs-structures-derive-objects", gen=_gen_order_struct,
         nontrivial=lambda mask, seed, scales, origin, history: len(set(history)) > 1)
def order_pairs_structures(mask, seed, scales, origin, history):
    """C11: 'every public quantity of a ... mask or structure has the same value whatever the order and number of earlier
    accesses' -- generic order-independence harness on one (Mask2D, Array2D, Grid2D) graph: alphabet = every public
    property / cached_property (introspected) of the mask, array and grid, of the mask's derive_mask / derive_indexes /
    derive_grid / geometry objects and of grid.over_sampler (thorough: also the array's and grid's derive / geometry objects), + the query methods of
    history-structure-reads (resize, pad, trim, zoom, arithmetic, copy, apply_mask, blurring ...); for every ordered pair
    (A, B) `read A; read B` must report the B of a fresh identical graph; bound: all ordered pairs whose first read is
    array- or object-valued on one 6x7 mask with a hole, anisotropic scales and non-zero origin (thorough: every pair on 3
    graphs incl. a 7x7 and an almost unmasked 4x5 mask, all triples over 14 array-valued reads, 4000 seeded histories)."""
    import autoarray as aa
    _quiet()
    return _order_history(("struct2", mask.tobytes(), mask.shape, seed, scales, origin),
                          lambda: _build_struct_graph(aa, mask, seed, scales, origin), _STRUCT_READS, history)


# ---- Imaging datasets and over samplers

_DO_ROOTS = ["raw", "ds", "ds.grids", "ds.grids.border_relocator", "ds.grids.uniform.over_sampler", "ds.convolver", "ds.w_tilde",
             "over", "iter"]


def _build_ds_graph(aa, mask, seed, covariance):
    sc, o = (1.0, 2.0), (0.5, -1.0)
    raw = _imaging(aa, seed, shape=mask.shape, scales=sc, origin=o, sub=2, covariance=covariance)
    mk = aa.Mask2D(mask=mask.copy(), pixel_scales=sc, origin=o)
    m2 = mask.copy()
    m2[: mask.shape[0] // 2 + 1, :] = True
    if m2.all():
        m2 = mask.copy()
    n = int((~mask).sum())
    subs = [1 + (k % 3) for k in range(n)]
    over = aa.OverSamplerUniform(mask=mk, sub_size=aa.Array2D(values=subs, mask=mk))
    it = aa.OverSamplerIterate(mask=mk, fractional_accuracy=0.99, sub_steps=[2, 4])
    vals = np.random.default_rng(seed + 7).normal(size=sum(s * s for s in subs))
    return {"aa": aa, "raw": raw, "mask": mk, "ds": raw.apply_mask(mask=mk), "mask2": aa.Mask2D(mask=m2, pixel_scales=sc, origin=o),
            "over": over, "iter": it, "sub_values": vals}


def _bump(obj, grid, *args, **kwargs):
    g = np.array(grid, dtype=float).reshape(-1, 2)
    return np.exp(-((g[:, 0] - 0.4) ** 2 + (g[:, 1] + 0.8) ** 2) / 3.0) + 0.05


def _ds_extras():
    X = dict(_DS_READS)
    X["over.binned_array_2d_from"] = lambda g: g["over"].binned_array_2d_from(array=g["sub_values"])
    X["over.array_via_func_from"] = lambda g: g["over"].array_via_func_from(func=_bump, obj=g)
    X["iter.array_via_func_from"] = lambda g: g["iter"].array_via_func_from(func=_bump, obj=None)
    X["sub_values(input)"] = lambda g: g["sub_values"]
    return X


_DS_EXTRAS = _ds_extras()


def _ds_cases(rng):
    return [{"mask": _centre_mask(rng, 7, 2), "seed": 10 + i, "covariance": i == 1} for i in range(4)]


def _gen_order_ds(rng, tier):
    import autoarray as aa
    _quiet()
    return _gen_order(_ds_cases(rng), lambda fx: _enumerate_quantities(_build_ds_graph(aa, **fx), _DO_ROOTS, _DS_EXTRAS, 1),
                      rng, tier, n_pair_cases=1, quick_filter="sa")


@bounded("C11", "order-pairs-imaging-oversamplers", gen=_gen_order_ds,
         nontrivial=lambda mask, seed, covariance, history: len(set(history)) > 1)
def order_pairs_imaging(mask, seed, covariance, history):
    """C11: 'every public quantity of a ... dataset ... has the same value whatever the order and number of earlier accesses'
    -- generic order-independence harness on an Imaging graph: alphabet = every public property / cached_property
    (introspected) of the unmasked and the masked Imaging, of its GridsDataset, border relocator, uniform-grid over sampler,
    Convolver and WTildeImaging, of a stand-alone OverSamplerUniform with a per-pixel sub-size map 1..3 and of an
    OverSamplerIterate, + the dataset derivations of history-dataset-reads and binned_array_2d_from / array_via_func_from;
    for every ordered pair (A, B) `read A; read B` must report the B of a fresh identical graph; bound: all ordered pairs
    whose first read is array- or object-valued on one seeded 7x7 dataset (thorough: every pair on 4 datasets, one with a
    noise covariance matrix, all triples over 14 array-valued reads, 4000 seeded histories)."""
    import autoarray as aa
    _quiet()
    return _order_history(("ds2", mask.tobytes(), seed, covariance), lambda: _build_ds_graph(aa, mask, seed, covariance), _DS_EXTRAS, history)


# =============================================================================================== inversion inputs incl. Preloads

def _walk(obj, path, arrays, scalars, seen, depth=0):
    """every ndarray (by reference) and every scalar attribute reachable from `obj` through attributes / dicts / lists
    (objects of the autoarray package and scipy triangulations are entered, up to 7 levels)"""
    if depth > 7 or obj is None:
        return
    if isinstance(obj, (bool, int, float, str, complex, np.integer, np.floating, np.bool_)):
        scalars[path] = repr(obj)
        return
    if id(obj) in seen:
        return
    if isinstance(obj, np.ndarray):
        seen.add(id(obj))
        arrays.append((path, obj))
        extra = getattr(obj, "__dict__", None)
        if extra:
            for k, v in list(extra.items()):
                _walk(v, path + "." + k, arrays, scalars, seen, depth + 1)
        return
    if isinstance(obj, dict):
        seen.add(id(obj))
        for i, (k, v) in enumerate(list(obj.items())):
            _walk(v, "%s[%s]" % (path, k if isinstance(k, (str, int)) else "%s#%d" % (type(k).__name__, i)), arrays, scalars, seen, depth + 1)
        return
    if isinstance(obj, (list, tuple)):
        seen.add(id(obj))
        if len(obj) <= 64 or not all(isinstance(x, (int, float, bool)) for x in obj):
            for i, v in enumerate(obj):
                _walk(v, "%s[%d]" % (path, i), arrays, scalars, seen, depth + 1)
        return
    mod = type(obj).__module__ or ""
    if mod.startswith("scipy.spatial"):
        seen.add(id(obj))
        for n in ("points", "simplices", "neighbors", "vertices", "ridge_points", "point_region"):
            if hasattr(obj, n):
                _walk(getattr(obj, n), path + "." + n, arrays, scalars, seen, depth + 1)
        return
    if mod.startswith("autoarray") and hasattr(obj, "__dict__"):
        seen.add(id(obj))
        for k, v in list(obj.__dict__.items()):
            if k == "run_time_dict":
                continue
            _walk(v, path + "." + k, arrays, scalars, seen, depth + 1)


def _hash_array(a):
    if a.dtype == object:
        return "obj:" + hashlib.sha1(repr(a.tolist()).encode()).hexdigest()
    return "%s:%s:%s" % (a.dtype, a.shape, hashlib.sha1(np.ascontiguousarray(a).tobytes()).hexdigest())


class _Fingerprint:
    """byte-level fingerprint of every ndarray reachable from the named root objects (kept BY REFERENCE, so that an in-place
    edit is seen even when the owner drops or replaces its attribute) + every scalar attribute by path"""

    def __init__(self, roots):
        self.roots = roots
        self.arrays, self.scalars = [], {}
        seen = set()
        for name, o in roots.items():
            _walk(o, name, self.arrays, self.scalars, seen)
        self.hashes = [_hash_array(a) for _, a in self.arrays]

    def changed(self, deep=False):
        """paths whose bytes / scalar values differ from the snapshot (None if unchanged)"""
        bad = [p for (p, a), h in zip(self.arrays, self.hashes) if _hash_array(a) != h]
        if deep:
            arrays, scalars = [], {}
            seen = set()
            for name, o in self.roots.items():
                _walk(o, name, arrays, scalars, seen)
            now = dict((p, _hash_array(a)) for p, a in arrays)
            then = dict((p, h) for (p, _), h in zip(self.arrays, self.hashes))
            bad += [p + " (rebound)" for p in then if p in now and now[p] != then[p] and p not in bad]
            bad += [p + ": %s -> %s" % (self.scalars[p], scalars[p]) for p in self.scalars if p in scalars and scalars[p] != self.scalars[p]]
        return bad or None


_PRELOAD_SLOTS = ["curvature_matrix", "regularization_matrix", "operated_mapping_matrix", "w_tilde", "data_vector_mapper",
                  "curvature_matrix_mapper_diag", "log_det_regularization_matrix_term", "mapper_operated_mapping_matrix_dict",
                  "linear_func_operated_mapping_matrix_dict", "data_linear_func_matrix_dict", "relocated_grid"]

_INV_CONFIGS = [(["rectangular"], ["constant"]), (["delaunay"], ["constant_split"]), (["rectangular", "delaunay"], ["constant", "constant"]),
                (["rectangular"], [None]), (["delaunay", "rectangular"], ["adaptive", None]), (["delaunay"], ["gaussian"]),
                (["rectangular", "rectangular"], ["adaptive", "constant_zeroth"]), (["delaunay"], [None])]


def _inv_inputs(aa, mask, seed, meshes, regs, via_mesh_api, preloads=None, funcs=0):
    """everything a caller hands to aa.Inversion: masked Imaging, mappers (each with its grids / mesh / regularization),
    SettingsInversion; deterministic in its arguments"""
    r = np.random.default_rng(seed)
    shape = mask.shape
    data = aa.Array2D.no_mask(values=r.normal(size=shape) + 5.0, pixel_scales=1.0)
    noise = aa.Array2D.no_mask(values=r.uniform(1.0, 2.0, size=shape), pixel_scales=1.0)
    psf = aa.Kernel2D.no_mask(values=_PSF, pixel_scales=1.0)
    osd = aa.OverSamplingDataset(uniform=aa.OverSamplingUniform(sub_size=1), pixelization=aa.OverSamplingUniform(sub_size=2))
    mk = aa.Mask2D(mask=mask.copy(), pixel_scales=1.0)
    ds = aa.Imaging(data=data, noise_map=noise, psf=psf, over_sampling=osd).apply_mask(mask=mk)
    over = ds.grids.pixelization.over_sampler
    grid = over.over_sampled_grid
    ext = np.asarray(grid)
    y0, y1, x0, x1 = ext[:, 0].min(), ext[:, 0].max(), ext[:, 1].min(), ext[:, 1].max()
    adapt = aa.Array2D(values=r.uniform(0.5, 3.0, size=int((~mask).sum())), mask=mk)
    out = {"ds": ds, "mask": mk, "over": over, "grid": grid, "adapt": adapt, "mappers": [], "regs": [], "mesh_inputs": []}
    for i, (mesh, reg) in enumerate(zip(meshes, regs)):
        regularization = None if reg is None else _make_reg(aa, reg)
        u = np.array([[0.05, 0.1], [0.1, 0.9], [0.5, 0.45], [0.9, 0.15], [0.95, 0.9], [0.4, 0.05], [0.6, 0.95], [0.3, 0.6]]) + 0.01 * i
        pts = np.stack([y0 - 0.3 + u[:, 0] * (y1 - y0 + 0.6), x0 - 0.3 + u[:, 1] * (x1 - x0 + 0.6)], axis=1)
        if via_mesh_api:
            kw = dict(mask=mk, source_plane_data_grid=grid, border_relocator=ds.grids.border_relocator, adapt_data=adapt,
                      preloads=preloads if preloads is not None else aa.Preloads())
            if mesh == "rectangular":
                mg = aa.mesh.Rectangular(shape=(3, 3 + i)).mapper_grids_from(**kw)
            else:
                mesh_in = aa.Grid2DIrregular(values=pts)
                out["mesh_inputs"].append(mesh_in)
                mg = aa.mesh.Delaunay().mapper_grids_from(source_plane_mesh_grid=mesh_in, **kw)
        else:
            if mesh == "rectangular":
                mesh_grid = aa.Mesh2DRectangular.overlay_grid(grid=grid, shape_native=(3, 3 + i))
            else:
                mesh_grid = aa.Mesh2DDelaunay(values=pts)
            out["mesh_inputs"].append(mesh_grid)
            mg = aa.MapperGrids(mask=mk, source_plane_data_grid=grid, source_plane_mesh_grid=mesh_grid, image_plane_mesh_grid=None, adapt_data=adapt)
        out["mappers"].append(aa.Mapper(mapper_grids=mg, over_sampler=over, regularization=regularization, border_relocator=None))
        out["regs"].append(regularization)
    out["linear_objs"] = list(out["mappers"])
    if funcs:                                      # a linear function list (e.g. linear light profiles) in front of the mappers
        fm = r.uniform(0.1, 1.0, size=(int((~mask).sum()), funcs))
        out["func_matrix"] = fm
        out["linear_objs"].insert(0, aa.m.MockLinearObjFuncList(parameters=funcs, grid=None, mapping_matrix=fm))
    return out


def _preload_values(aa, donor, donor_inv, slots, use_w_tilde):
    """Preloads keyword arguments computed from an identical inversion (copies: the donor keeps nothing in common)"""
    kw = {}

    def put(slot, f):
        if slot in slots:
            try:
                v = f()
            except Exception:
                return                      # the identical inversion cannot provide this slot (e.g. no regularization at all)
            if v is not None:
                kw[slot] = v
    put("operated_mapping_matrix", lambda: np.array(donor_inv.operated_mapping_matrix, copy=True))
    put("curvature_matrix", lambda: np.array(donor_inv.curvature_matrix, copy=True))
    put("regularization_matrix", lambda: np.array(donor_inv.regularization_matrix, copy=True))
    put("data_vector_mapper", lambda: np.array(donor_inv._data_vector_mapper, copy=True))
    put("curvature_matrix_mapper_diag", lambda: np.array(donor_inv._curvature_matrix_mapper_diag, copy=True))
    put("log_det_regularization_matrix_term", lambda: float(donor_inv.log_det_regularization_matrix_term))
    put("mapper_operated_mapping_matrix_dict", lambda: dict(
        (k, np.array(v, copy=True)) for k, v in donor_inv.mapper_operated_mapping_matrix_dict.items()))
    put("linear_func_operated_mapping_matrix_dict", lambda: dict(
        (k, np.array(v, copy=True)) for k, v in donor_inv.linear_func_operated_mapping_matrix_dict.items()))
    put("data_linear_func_matrix_dict", lambda: dict((k, np.array(v, copy=True)) for k, v in donor_inv.data_linear_func_matrix_dict.items()))
    put("relocated_grid", lambda: copy.deepcopy(donor["mappers"][0].source_plane_data_grid))
    if "w_tilde" in slots and use_w_tilde:
        kw["w_tilde"] = donor["ds"].w_tilde
        kw["use_w_tilde"] = True
    return kw


def _assembly_buffer_slots(use_w_tilde, meshes, funcs):
    """slots whose preloaded array the w-tilde inversion uses as the buffer in which it assembles the full curvature matrix
    / data vector (separately recorded mechanism, see inversion-wtilde-preloaded-assembly-buffers-unmodified)"""
    out = []
    if use_w_tilde and (len(meshes) > 1 or funcs > 0):
        out.append("curvature_matrix_mapper_diag")
    if use_w_tilde and funcs > 0:
        out.append("data_vector_mapper")
    return out


def _gen_inv_preloads(rng, tier):
    n_single = len(_PRELOAD_SLOTS)
    for i in range(gens.budget(tier, 120, 1500)):
        meshes, regs = _INV_CONFIGS[(i // 2) % len(_INV_CONFIGS)]
        j = (i // (2 * len(_INV_CONFIGS)))
        use_w_tilde = bool(i & 1)
        funcs = [0, 0, 0, 1, 0, 2, 0][i % 7]
        if i % 3 == 0:
            slots = list(_PRELOAD_SLOTS)
        elif i % 3 == 1:
            slots = [_PRELOAD_SLOTS[(i // 3) % n_single]]
        else:
            slots = [s for s in _PRELOAD_SLOTS if rng.random() < 0.5]
        skip = _assembly_buffer_slots(use_w_tilde, meshes, funcs)
        yield {"mask": _centre_mask(rng, 7, 2), "seed": rng.randrange(10 ** 6), "use_w_tilde": use_w_tilde, "positive_only": bool(rng.getrandbits(1)),
               "meshes": meshes, "regs": regs, "slots": [s for s in slots if s not in skip], "warm": bool((i + j) % 2),
               "via_mesh_api": bool(rng.random() < 0.4), "rotate": rng.randrange(40), "funcs": funcs}


def _gen_inv_assembly(rng, tier):
    for i in range(gens.budget(tier, 40, 400)):
        meshes, regs = _INV_CONFIGS[i % len(_INV_CONFIGS)]
        funcs = [0, 1, 2][i % 3]
        if funcs == 0 and len(meshes) < 2:
            meshes, regs = _INV_CONFIGS[2]
        slots = _assembly_buffer_slots(True, meshes, funcs)
        if i % 2:
            slots = slots + [s for s in _PRELOAD_SLOTS if s not in slots and rng.random() < 0.3]
        yield {"mask": _centre_mask(rng, 7, 2), "seed": rng.randrange(10 ** 6), "use_w_tilde": True, "positive_only": bool(rng.getrandbits(1)),
               "meshes": meshes, "regs": regs, "slots": slots, "warm": bool(i % 2), "via_mesh_api": False, "rotate": rng.randrange(40),
               "funcs": funcs}


def _inv_purity_body(aa, mask, seed, use_w_tilde, positive_only, meshes, regs, slots, warm, via_mesh_api, rotate, funcs=0):
    donor = _inv_inputs(aa, mask, seed, meshes, regs, via_mesh_api, funcs=funcs)
    settings_kw = dict(use_w_tilde=use_w_tilde, use_positive_only_solver=positive_only,
                       positive_only_uses_p_initial=bool((seed // 2) % 2), force_edge_pixels_to_zeros=bool(seed % 2))
    donor_inv = aa.Inversion(dataset=donor["ds"], linear_obj_list=donor["linear_objs"], settings=aa.SettingsInversion(**settings_kw))
    preloads = aa.Preloads(**_preload_values(aa, donor, donor_inv, slots, use_w_tilde))
    fp_pre = _Fingerprint({"preloads": preloads})
    g = _inv_inputs(aa, mask, seed, meshes, regs, via_mesh_api, preloads=preloads, funcs=funcs)
    bad = fp_pre.changed(deep=True)
    if bad:
        return "building mapper grids with mesh.mapper_grids_from(preloads=p) modified p: %r" % bad[:6]
    settings = aa.SettingsInversion(**settings_kw)
    if warm:                                     # fill every cache of the inputs, so that cached arrays are fingerprinted too
        for o in [g["ds"], g["ds"].grids] + g["mappers"] + [m.source_plane_mesh_grid for m in g["mappers"]]:
            for n in _public_quantities(o):
                try:
                    getattr(o, n)
                except Exception:
                    pass
    roots = {"dataset": g["ds"], "settings": settings, "preloads": preloads, "mask": g["mask"], "over_sampler": g["over"],
             "source_plane_data_grid": g["grid"], "adapt_data": g["adapt"]}
    for i, m in enumerate(g["mappers"]):
        roots["mapper%d" % i] = m
        roots["regularization%d" % i] = g["regs"][i]
    for i, m in enumerate(g["mesh_inputs"]):
        roots["mesh_input%d" % i] = m
    if funcs:
        roots["linear_func_list"] = g["linear_objs"][0]
        roots["linear_func_mapping_matrix"] = g["func_matrix"]
    fp = _Fingerprint(roots)
    what = "slots %r, use_w_tilde=%s, meshes %r, regularizations %r%s" % (
        sorted(preloads_set(preloads)), use_w_tilde, meshes, regs, ", + a linear function list with %d functions" % funcs if funcs else "")

    def make():
        return aa.Inversion(dataset=g["ds"], linear_obj_list=g["linear_objs"], settings=settings, preloads=preloads)
    inv = make()
    bad = fp.changed(deep=True)
    if bad:
        return "aa.Inversion(...) construction modified caller-owned inputs %r (%s)" % (bad[:6], what)
    names = _public_quantities(inv)
    names = names[rotate % len(names):] + names[:rotate % len(names)]
    first = {}
    for n in names:
        first[n] = _read_val({"inv": inv}, "inv." + n, {})
        bad = fp.changed()
        if bad:
            return "reading inversion.%s modified caller-owned inputs %r (%s; reads so far %r)" % (n, bad[:6], what, names[:names.index(n) + 1])
    bad = fp.changed(deep=True)
    if bad:
        return "reading the inversion's quantities modified caller-owned inputs %r (%s)" % (bad[:6], what)
    for n in names:
        again = _read_val({"inv": inv}, "inv." + n, {})
        if isinstance(first[n], str) and first[n].startswith("NOTCOMPARABLE"):
            continue
        if not _same(again, first[n]):
            return "inversion.%s read a second time (after all other quantities) reports %s, the first read reported %s (%s)" % (
                n, _short(again), _short(first[n]), what)
    inv2 = make()
    for n in names:
        v2 = _read_val({"inv": inv2}, "inv." + n, {})
        if isinstance(first[n], str) and first[n].startswith("NOTCOMPARABLE"):
            continue
        if not _same(v2, first[n]):
            return "a second inversion built from the same dataset / mappers / settings / preloads reports %s = %s, the first one reported %s (%s)" % (
                n, _short(v2), _short(first[n]), what)
    bad = fp.changed(deep=True)
    if bad:
        return "the second inversion modified caller-owned inputs %r (%s)" % (bad[:6], what)
    return None


def preloads_set(p):
    return [k for k, v in p.__dict__.items() if v is not None]


@bounded("C11", "inversion-inputs-and-preloads-unmodified", gen=_gen_inv_preloads,
         nontrivial=lambda slots, **k: len(slots) > 0)
def inversion_inputs_and_preloads(mask, seed, use_w_tilde, positive_only, meshes, regs, slots, warm, via_mesh_api, rotate, funcs):
    """C11: 'Constructing a ... mapper ... or inversion never modifies the arrays, masks or objects passed to it, and reading
    any derived quantity ... never changes the value that any other quantity subsequently reports - on the same object, on
    the objects it was built from ...; Repeating a computation with equal inputs gives identical results' -- EVERY ndarray
    reachable (attributes / dicts / lists, 7 levels, kept by reference) and every scalar attribute of everything handed to
    aa.Inversion -- the masked Imaging, each mapper with its grids / mesh / adapt data / regularization, SettingsInversion,
    and a Preloads object whose slots (curvature_matrix, regularization_matrix, operated_mapping_matrix, w_tilde + use_w_tilde,
    data_vector_mapper, curvature_matrix_mapper_diag, log_det_regularization_matrix_term, the three dict slots,
    relocated_grid) were filled with copies computed from an identical inversion -- is fingerprinted before construction
    (optionally after warming every cache of the dataset and mappers) and must be byte-identical after construction and
    after EACH read of every public quantity of the inversion (introspected); the quantities read a second time, and those of
    a second inversion built from the same inputs, must equal the first; mapping and w-tilde formalisms, 1-2 mappers
    (rectangular / Delaunay, built directly or through mesh.mapper_grids_from(preloads=...)), with / without regularization,
    optionally a linear function list (1-2 functions) in front of the mappers, positive-only solver on / off; the slots
    curvature_matrix_mapper_diag / data_vector_mapper in the w-tilde formalism with >= 2 mappers or a function list are
    the business of inversion-wtilde-preloaded-assembly-buffers-unmodified;
    bound: 120 (1500) seeded 7x7 graphs x {all slots, each single slot, random subsets}."""
    import autoarray as aa
    _quiet()
    return _inv_purity_body(aa, mask, seed, use_w_tilde, positive_only, meshes, regs, slots, warm, via_mesh_api, rotate, funcs)


@bounded("C11", "inversion-wtilde-preloaded-assembly-buffers-unmodified", gen=_gen_inv_assembly, nontrivial=lambda slots, **k: len(slots) > 0)
def inversion_wtilde_assembly_buffers(mask, seed, use_w_tilde, positive_only, meshes, regs, slots, warm, via_mesh_api, rotate, funcs):
    """C11: 'Constructing a ... inversion never modifies the arrays ... passed to it, and reading any derived quantity ...'
    -- the same fingerprint check as inversion-inputs-and-preloads-unmodified, restricted to one mechanism: the w-tilde
    formalism with Preloads(curvature_matrix_mapper_diag=..., data_vector_mapper=...) and either >= 2 mappers or a linear
    function list, where InversionImagingWTilde assembles the full curvature matrix / data vector (off-diagonal mapper
    blocks, function rows / columns / entries) in the array returned by _curvature_matrix_mapper_diag /
    _data_vector_mapper; call sites: inversion/imaging/w_tilde.py _curvature_matrix_multi_mapper,
    _curvature_matrix_func_list_and_mapper, _data_vector_func_list_and_mapper; bound: 40 (400) seeded 7x7 graphs."""
    import autoarray as aa
    _quiet()
    return _inv_purity_body(aa, mask, seed, use_w_tilde, positive_only, meshes, regs, slots, warm, via_mesh_api, rotate, funcs)


# =============================================================================================== dataset/preprocess helpers

_PRE_ARRAY_PARAMS = ("array", "array_eps", "array_counts", "array_adus", "data_eps", "data", "weight_map", "inverse_noise_map",
                     "exposure_time_map", "background_noise_map", "background_variances", "image", "noise_map")


def _gen_preprocess(rng, tier):
    import inspect
    from autoarray.dataset import preprocess as pp
    names = sorted(n for n, f in vars(pp).items() if inspect.isfunction(f) and f.__module__ == pp.__name__ and not n.startswith("_"))
    for rep in range(gens.budget(tier, 12, 120)):
        for name in names:
            yield {"name": name, "seed": rng.randrange(10 ** 6), "as_view": bool(rep % 2), "noise_seed": [1, 0, 7, 123456][rep % 4]}


@bounded("C11", "preprocess-helpers-pure-and-repeatable", gen=_gen_preprocess, nontrivial=lambda **k: True)
def preprocess_helpers_pure(name, seed, as_view, noise_seed):
    """C11: 'No query ... modifies the arrays ... passed to it ... repeating a computation with equal inputs gives identical
    results, including simulated datasets with a fixed noise seed' -- every public helper of autoarray.dataset.preprocess that
    takes array arguments (found by introspection, called with bare numpy arrays -- or views of larger arrays -- filling every
    parameter whose name marks an array; exposure time / gain / sigma / limits get fixed scalars, `seed` a fixed seed): the
    bytes of every array argument (and of the parent array of a view) are unchanged, and a second call with equal inputs gives
    the identical result; helpers whose call fails with these generic arguments are skipped; 12 (120) rounds over all helpers."""
    import inspect
    from autoarray.dataset import preprocess as pp
    _quiet()
    fn = getattr(pp, name)
    r = np.random.default_rng(seed)
    sig = inspect.signature(fn)
    shape = (4, 5)

    def make_args():
        rr = np.random.default_rng(seed)
        args, parents = {}, {}
        for pn, prm in sig.parameters.items():
            if pn in _PRE_ARRAY_PARAMS:
                base = rr.uniform(0.5, 3.0, size=(shape[0] + 2, shape[1] + 2))
                if as_view:
                    parents[pn] = base
                    args[pn] = base[1:-1, 1:-1]
                else:
                    args[pn] = np.ascontiguousarray(base[1:-1, 1:-1])
            elif pn == "seed":
                args[pn] = noise_seed
            elif pn in ("exposure_time", "gain", "sigma", "upper_limit", "signal_to_noise_limit"):
                args[pn] = 2.5
            elif pn == "no_edges":
                args[pn] = 1
            elif pn == "new_shape":
                args[pn] = (6, 7)
            elif pn == "shape":
                args[pn] = shape
            elif prm.default is not inspect.Parameter.empty:
                continue
            else:
                return None, None
        return args, parents

    args, parents = make_args()
    if args is None or not any(isinstance(v, np.ndarray) for v in args.values()):
        return None
    snap = {k: v.copy() for k, v in args.items() if isinstance(v, np.ndarray)}
    psnap = {k: v.copy() for k, v in parents.items()}
    saved = np.random.get_state()
    try:
        try:
            out1 = fn(**args)
        except Exception:
            return None                                   # not callable with generic arguments: not this check's business
        for k, v in snap.items():
            if not np.array_equal(args[k], v):
                return "%s(...) changed its argument `%s` (a bare ndarray%s) in place" % (name, k, ", a view of the caller's larger array" if as_view else "")
        for k, v in psnap.items():
            if not np.array_equal(parents[k], v):
                return "%s(...) wrote through the view passed as `%s` into the caller's parent array" % (name, k)
        if "seed" in sig.parameters or not any(w in name for w in ("random", "noise_added", "poisson_noise", "gaussian_noise")):
            np.random.seed(987)
            np.random.normal(size=5)
            args2, _ = make_args()
            out2 = fn(**args2)
            a1, a2 = np.asarray(out1, dtype=float) if not isinstance(out1, (list, tuple)) else None, None
            if a1 is not None:
                a2 = np.asarray(out2, dtype=float)
                if a1.shape != a2.shape or not np.array_equal(a1, a2, equal_nan=True):
                    return "%s(...) called twice with equal inputs%s gives different results" % (name, " and seed=%r" % noise_seed if "seed" in sig.parameters else "")
    finally:
        np.random.set_state(saved)
    return None
