"""C09 over-sampling: uniform sub-grid geometry, binning by per-pixel means, the @over_sample decorator and the
iterative scheme (bounded stand-in; see docs/BOUNDED_GUIDE.md).

Oracles: pixel centres from C02's formula  y = o_y + ((H-1)/2 - i) s_y,  x = o_x + (j - (W-1)/2) s_x ;  sub-pixel (a, b) of a
sub x sub partition (a counted from the top, b from the left) has centre  y = cy + s_y/2 - (a + 1/2) s_y/sub ,
x = cx - s_x/2 + (b + 1/2) s_x/sub ; binned value = arithmetic mean over the pixel's own sub x sub block.
reuse-*: the same oracles for every mask of a SEQUENCE of masks served by one and the same OverSamplingUniform /
OverSamplingIterate / OverSamplingDataset object (stale state kept on the over-sampling object)."""
import numpy as np
from pyvc.bounded import bounded
from pyvc import gens

RTOL = 1e-9
ATOL = 1e-9


# ------------------------------------------------------------------------------------------------ oracle

def _centres(mask, ps, og):
    H, W = mask.shape
    out = []
    for i in range(H):
        for j in range(W):
            if not mask[i, j]:
                out.append((og[0] + ((H - 1) / 2.0 - i) * ps[0], og[1] + (j - (W - 1) / 2.0) * ps[1]))
    return np.array(out, dtype=float).reshape(-1, 2)


def _sub_blocks(mask, ps, og, subs):
    """list (slim order) of arrays (sub*sub, 2): sub-pixel centres top-to-bottom, left-to-right"""
    cs = _centres(mask, ps, og)
    blocks = []
    for k in range(cs.shape[0]):
        s = int(subs[k])
        cy, cx = cs[k]
        b = np.empty((s * s, 2))
        for a in range(s):
            for c in range(s):
                b[a * s + c, 0] = cy + ps[0] / 2.0 - (a + 0.5) * ps[0] / s
                b[a * s + c, 1] = cx - ps[1] / 2.0 + (c + 0.5) * ps[1] / s
        blocks.append(b)
    return blocks


def _f(spec, yx):
    """generated user functions of (y, x); spec = {"kind": int, "c": [coefficients]}"""
    yx = np.asarray(yx, dtype=float).reshape(-1, 2)
    y, x = yx[:, 0], yx[:, 1]
    k, c = spec["kind"], spec["c"]
    if k == 0:      # smooth positive profile (gaussian blob)
        return c[0] * np.exp(-((y - c[1]) ** 2 + (x - c[2]) ** 2) / (0.3 + abs(c[3])))
    if k == 1:      # non-symmetric polynomial with sign changes
        return c[0] + c[1] * y + c[2] * x + c[3] * y * x + c[4] * y * y
    if k == 2:      # oscillating: zeros and sign changes
        return np.sin(c[0] * y + c[1]) * np.cos(c[2] * x + c[3])
    if k == 3:      # clipped: exact zeros over a region, positive elsewhere
        return np.maximum(0.0, c[0] * (y - c[1]) + c[2] * (x - c[3]))
    if k == 4:      # cuspy profile (Sersic-like), positive
        r = np.sqrt((y - c[1]) ** 2 + (x - c[2]) ** 2)
        return abs(c[0]) * np.exp(-3.0 * np.sqrt(r / (0.2 + abs(c[3]))))
    if k == 5:      # kink with a sign change
        return np.abs(x - c[0]) - abs(c[1]) * 0.3 + 0.1 * c[2] * y
    if k == 6:      # constant
        return np.full(y.shape, c[0])
    if k == 7:      # positive with a steep gradient: levels disagree strongly
        return np.exp(c[0] * y + c[1] * x)
    raise ValueError(k)


N_KINDS = 8


def _spec(rng, kind=None):
    return {"kind": rng.randrange(N_KINDS) if kind is None else kind, "c": [rng.uniform(-2.0, 2.0) for _ in range(5)]}


def _binned(spec, blocks):
    return np.array([float(np.mean(_f(spec, b))) for b in blocks])


def _close(a, b):
    a = np.asarray(a, dtype=float)
    b = np.asarray(b, dtype=float)
    return a.shape == b.shape and bool(np.allclose(a, b, rtol=RTOL, atol=ATOL))


def _geom(rng):
    ps = rng.choice([(1.0, 1.0), (0.5, 2.0), (2.0, 0.3), (0.1, 0.1), (1.0, 0.25)])
    og = rng.choice([(0.0, 0.0), (0.5, -1.0), (-3.0, 2.0), (0.001, 0.001)])
    return ps, og


def _sub_map(rng, n, hi):
    mode = rng.randrange(3)
    if mode == 0:
        s = rng.randint(1, hi)
        return [s] * n
    if mode == 1:
        return [rng.randint(1, hi) for _ in range(n)]
    return [rng.choice([1, hi]) for _ in range(n)]


def _gen_geometry(rng, tier):
    hi = gens.budget(tier, 4, 8)
    for m in gens.all_masks(gens.budget(tier, 8, 10), min_unmasked=1):
        ps, og = _geom(rng)
        yield {"mask": m, "pixel_scales": ps, "origin": og, "sub": _sub_map(rng, int((~m).sum()), hi),
               "as_int": bool(rng.getrandbits(1)), "values_seed": rng.randrange(2 ** 31)}
    for _ in range(gens.budget(tier, 200, 3000)):
        m = gens.random_mask(rng, 6, 6, min_unmasked=1)
        ps, og = _geom(rng)
        yield {"mask": m, "pixel_scales": ps, "origin": og, "sub": _sub_map(rng, int((~m).sum()), hi),
               "as_int": bool(rng.getrandbits(1)), "values_seed": rng.randrange(2 ** 31)}


def _sampler(aa, mask, ps, og, sub, as_int, route=0):
    """OverSamplerUniform for a per-pixel sub map (or the plain int when uniform and as_int)"""
    mk = aa.Mask2D(mask=mask.copy(), pixel_scales=ps, origin=og)
    if as_int and len(set(sub)) == 1:
        sub_size = int(sub[0])
    else:
        sub_size = aa.Array2D(values=[int(s) for s in sub], mask=mk)
    if route == 0:
        return mk, sub_size, aa.OverSamplerUniform(mask=mk, sub_size=sub_size)
    if route == 1:
        return mk, sub_size, aa.OverSamplingUniform(sub_size=sub_size).over_sampler_from(mask=mk)
    grid = aa.Grid2D.from_mask(mask=mk, over_sampling=aa.OverSamplingUniform(sub_size=sub_size))
    return mk, sub_size, grid.over_sampler


# ------------------------------------------------------------------------------------------------ geometry of the sub-grid

@bounded("C09", "over-sampled-grid", gen=_gen_geometry,
         nontrivial=lambda mask, sub, **k: 0 < mask.sum() and max(sub) > 1)
def over_sampled_grid(mask, pixel_scales, origin, sub, as_int, values_seed):
    """C09: 'the over-sampled grid holds sub_size^2 points per unmasked pixel at the centres of a uniform sub_size x
    sub_size partition of that pixel, ordered pixel by pixel (slim order) then top-to-bottom, left-to-right' --
    OverSamplerUniform.over_sampled_grid (built directly, via OverSamplingUniform.over_sampler_from and via
    Grid2D.over_sampler) and slim_for_sub_slim; bound: all masks <= 8 (10) cells + 200 (3000) random <= 6x6, anisotropic
    scales, non-zero origins, uniform and per-pixel sub-size maps 1..4 (1..8)."""
    import autoarray as aa
    blocks = _sub_blocks(mask, pixel_scales, origin, sub)
    want = np.vstack(blocks)
    want_owner = np.concatenate([[k] * len(b) for k, b in enumerate(blocks)])
    for route in (0, 1, 2):
        mk, sub_size, os_ = _sampler(aa, mask, pixel_scales, origin, sub, as_int, route)
        got = np.asarray(os_.over_sampled_grid, dtype=float)
        if got.shape != want.shape:
            return "route %d: over_sampled_grid has shape %r, want %r (sum of sub^2 over unmasked pixels)" % (
                route, got.shape, want.shape)
        if not _close(got, want):
            bad = int(np.argmax(np.abs(got - want).sum(axis=1)))
            return "route %d: sub-pixel %d (pixel %d) at %r, want %r" % (route, bad, want_owner[bad], got[bad], want[bad])
        owner = np.asarray(os_.slim_for_sub_slim)
        if owner.shape != want_owner.shape or not np.array_equal(owner, want_owner):
            return "route %d: slim_for_sub_slim is not pixel-by-pixel in slim order" % route
        if os_.sub_total != want.shape[0]:
            return "route %d: sub_total %r != %d" % (route, os_.sub_total, want.shape[0])
    return None


# ------------------------------------------------------------------------------------------------ binning

@bounded("C09", "binned-means", gen=_gen_geometry, nontrivial=lambda mask, sub, **k: 0 < mask.sum() and max(sub) > 1)
def binned_means(mask, pixel_scales, origin, sub, as_int, values_seed):
    """C09: 'binning over-sampled values returns for each pixel the arithmetic mean of its own sub-values, so constants
    and affine functions of position are reproduced exactly at pixel centres and sub-pixel areas sum to the unmasked
    area' -- OverSamplerUniform.binned_array_2d_from on seeded random sub-values (ndarray and ArrayIrregular input), on a
    constant, on an affine function evaluated on the sampler's own over_sampled_grid; sub_pixel_areas; bound: all masks
    <= 8 (10) cells + 200 (3000) random <= 6x6, sub-size maps 1..4 (1..8)."""
    import autoarray as aa
    mk, sub_size, os_ = _sampler(aa, mask, pixel_scales, origin, sub, as_int, 0)
    r = np.random.default_rng(values_seed)
    n = int((~mask).sum())
    sizes = [int(s) ** 2 for s in sub]
    total = sum(sizes)
    vals = r.uniform(-10.0, 10.0, size=total)
    vals[r.random(total) < 0.1] = 0.0
    offs = np.concatenate([[0], np.cumsum(sizes)])
    want = np.array([np.mean(vals[offs[k]:offs[k + 1]]) for k in range(n)])
    keep = vals.copy()
    got = os_.binned_array_2d_from(array=vals)
    if not isinstance(got, aa.Array2D) or not np.array_equal(np.asarray(got.mask), mask):
        return "binned result is not an Array2D on the sampler's mask"
    if not _close(np.asarray(got.slim), want):
        return "binned value != arithmetic mean of the pixel's own sub-values: %r vs %r" % (np.asarray(got.slim), want)
    if not np.array_equal(vals, keep):
        return "binned_array_2d_from modified its input"
    got = os_.binned_array_2d_from(array=aa.ArrayIrregular(values=vals.copy()))
    if not _close(np.asarray(got.slim), want):
        return "binned value (ArrayIrregular input) != arithmetic mean of the pixel's own sub-values"
    const = float(r.uniform(-5, 5))
    got = os_.binned_array_2d_from(array=np.full(total, const))
    if not _close(np.asarray(got.slim), np.full(n, const)):
        return "a constant is not reproduced by binning"
    a, b, c = r.uniform(-3, 3, size=3)
    g = np.asarray(os_.over_sampled_grid, dtype=float)
    got = os_.binned_array_2d_from(array=a + b * g[:, 0] + c * g[:, 1])
    cs = _centres(mask, pixel_scales, origin)
    if not _close(np.asarray(got.slim), a + b * cs[:, 0] + c * cs[:, 1]):
        return "an affine function of position is not reproduced at the pixel centres: %r vs %r" % (
            np.asarray(got.slim), a + b * cs[:, 0] + c * cs[:, 1])
    areas = np.asarray(os_.sub_pixel_areas, dtype=float)
    want_areas = np.concatenate([[pixel_scales[0] * pixel_scales[1] / sz] * sz for sz in sizes])
    if areas.shape != want_areas.shape or not np.allclose(areas, want_areas, rtol=1e-12, atol=0.0):
        return "sub_pixel_areas are not pixel_area / sub^2 for each sub-pixel"
    if not np.isclose(areas.sum(), n * pixel_scales[0] * pixel_scales[1], rtol=1e-9, atol=0.0):
        return "sub-pixel areas sum to %r, unmasked area is %r" % (areas.sum(), n * pixel_scales[0] * pixel_scales[1])
    return None


# ------------------------------------------------------------------------------------------------ decorator

def _make_profile(aa, spec, stacked, log):
    """a user class whose method is evaluated through @over_sample (optionally stacked on @to_array)"""
    from autoarray.operators.over_sampling.decorator import over_sample

    def body(obj, grid, gain=1.0, *args, offset=0.0, **kwargs):
        # "any user function": one whose values depend on further positional and keyword arguments of the call
        g = np.array(grid, dtype=float).reshape(-1, 2)
        log.append(g.shape[0])
        return gain * _f(spec, g) + offset

    class Profile:
        centre = (0.0, 0.0)

    if stacked:
        Profile.image_2d_from = over_sample(aa.grid_dec.to_array(body))
    else:
        Profile.image_2d_from = over_sample(body)
    return Profile()


def _gen_decorator(rng, tier):
    hi = gens.budget(tier, 4, 8)
    i = 0
    for m in gens.all_masks(gens.budget(tier, 8, 10), min_unmasked=1):
        ps, og = _geom(rng)
        yield {"mask": m, "pixel_scales": ps, "origin": og, "sub": _sub_map(rng, int((~m).sum()), hi),
               "as_int": bool(rng.getrandbits(1)), "spec": _spec(rng, i % N_KINDS), "stacked": bool(rng.getrandbits(1)),
               "route": rng.randrange(2)}
        i += 1
    for _ in range(gens.budget(tier, 200, 3000)):
        m = gens.random_mask(rng, 6, 6, min_unmasked=1)
        ps, og = _geom(rng)
        yield {"mask": m, "pixel_scales": ps, "origin": og, "sub": _sub_map(rng, int((~m).sum()), hi),
               "as_int": bool(rng.getrandbits(1)), "spec": _spec(rng), "stacked": bool(rng.getrandbits(1)),
               "route": rng.randrange(2)}


@bounded("C09", "decorator-uniform", gen=_gen_decorator,
         nontrivial=lambda mask, sub, spec, **k: max(sub) > 1 and spec["kind"] != 6)
def decorator_uniform(mask, pixel_scales, origin, sub, as_int, spec, stacked, route):
    """C09: 'Any user function evaluated on a grid through the over-sampling decorator returns exactly this binned result
    (and the plain evaluation when the sub-size is one)' -- a generated function of (y,x) (8 families: smooth, polynomial
    with sign changes, oscillating, clipped to exact zeros, cuspy, kinked, constant, steep) as a method decorated with
    @over_sample (bare, or stacked on @to_array), called with Grid2D.from_mask(mask, over_sampling=OverSamplingUniform)
    (route 0) or with a Grid2DOverSampled (route 1); oracle = mean of f over the oracle sub-pixel centres; bound: all
    masks <= 8 (10) cells + 200 (3000) random <= 6x6, sub-size maps 1..4 (1..8), anisotropic scales, origins."""
    import autoarray as aa
    from autoarray.operators.over_sampling.grid_oversampled import Grid2DOverSampled
    mk, sub_size, os_ = _sampler(aa, mask, pixel_scales, origin, sub, as_int, 0)
    log = []
    prof = _make_profile(aa, spec, stacked, log)
    blocks = _sub_blocks(mask, pixel_scales, origin, sub)
    n = len(blocks)
    if route == 0:
        grid = aa.Grid2D.from_mask(mask=mk, over_sampling=aa.OverSamplingUniform(sub_size=sub_size))
    else:
        grid = Grid2DOverSampled(grid=os_.over_sampled_grid, over_sampler=os_, pixels_in_mask=n)
    got = prof.image_2d_from(grid)
    want = _binned(spec, blocks)
    gv = np.asarray(got.slim if hasattr(got, "slim") else got, dtype=float)
    if gv.shape != (n,):
        return "result has shape %r, want one value per unmasked pixel (%d)" % (gv.shape, n)
    if not _close(gv, want):
        k = int(np.argmax(np.abs(gv - want)))
        plain = _f(spec, _centres(mask, pixel_scales, origin))
        return "pixel %d (sub %d): decorator gives %r, mean over its sub-pixels is %r (plain centre value %r)" % (
            k, sub[k], gv[k], want[k], plain[k])
    # the same call with arguments that change the function's values (the mean is linear: gain * mean + offset)
    for label, a, kw in (("f(grid, 2.5)", (2.5,), {}), ("f(grid, offset=-1.25)", (), {"offset": -1.25}),
                         ("f(grid, gain=-0.5, offset=3.0)", (), {"gain": -0.5, "offset": 3.0})):
        got2 = prof.image_2d_from(grid, *a, **kw)
        g2 = np.asarray(got2.slim if hasattr(got2, "slim") else got2, dtype=float)
        w2 = (a[0] if a else kw.get("gain", 1.0)) * want + kw.get("offset", 0.0)
        if g2.shape != (n,) or not _close(g2, w2):
            return "call %s through the decorator: result %r, binned values of the function WITH these arguments %r" % (label, g2, w2)
    if max(sub) == 1 and route == 0:
        log[:] = log[:1]
        if not _close(gv, _f(spec, _centres(mask, pixel_scales, origin))):
            return "sub-size one does not give the plain evaluation at pixel centres"
        if log != [n]:
            return "sub-size one: function evaluated on %r points, want a single plain evaluation on %d" % (log, n)
    if (stacked or max(sub) > 1 or route == 1) and hasattr(got, "mask"):
        if not np.array_equal(np.asarray(got.mask), mask):
            return "result is on a different mask"
    return None


def _gen_plain_method(rng, tier):
    for m in gens.all_masks(gens.budget(tier, 4, 6), min_unmasked=1):
        ps, og = _geom(rng)
        yield {"mask": m, "pixel_scales": ps, "origin": og, "spec": _spec(rng), "sub": rng.choice([1, 1, 2, 3])}


@bounded("C09", "decorator-plain-method", gen=_gen_plain_method, nontrivial=lambda sub, **k: sub == 1)
def decorator_plain_method(mask, pixel_scales, origin, spec, sub):
    """C09: 'Any user function evaluated on a grid through the over-sampling decorator returns exactly this binned result
    (and the plain evaluation when the sub-size is one)' -- the user function is an ordinary method
    `def image_2d_from(self, grid, *args, **kwargs)` carrying only @over_sample (no inner structure decorator); uniform
    sub-size 1, 2 or 3; bound: all masks <= 4 (6) cells."""
    import autoarray as aa
    from autoarray.operators.over_sampling.decorator import over_sample

    class Profile:
        centre = (0.0, 0.0)

        @over_sample
        def image_2d_from(self, grid, *args, **kwargs):
            return _f(spec, np.array(grid, dtype=float).reshape(-1, 2))

    mk = aa.Mask2D(mask=mask.copy(), pixel_scales=pixel_scales, origin=origin)
    grid = aa.Grid2D.from_mask(mask=mk, over_sampling=aa.OverSamplingUniform(sub_size=int(sub)))
    n = int((~mask).sum())
    want = _binned(spec, _sub_blocks(mask, pixel_scales, origin, [sub] * n))
    try:
        got = Profile().image_2d_from(grid)
    except TypeError as e:
        return "sub-size %d: calling the decorated method raised TypeError: %s" % (sub, e)
    gv = np.asarray(got.slim if hasattr(got, "slim") else got, dtype=float)
    if gv.shape != want.shape or not _close(gv, want):
        return "sub-size %d: got %r, want %r" % (sub, gv, want)
    return None


# ------------------------------------------------------------------------------------------------ iterative scheme

TIE = 1e-7


def _iterate_oracle(spec, mask, ps, og, steps, frac, rel):
    """direct reading of the statement's rule; returns (values, ambiguous) -- ambiguous when some comparison sits within
    TIE of a threshold so that rounding could decide it either way"""
    cs = _centres(mask, ps, og)
    n = cs.shape[0]
    levels = [_f(spec, cs)]                                        # previous level of the first sub-size: sub-size one
    for s in steps:
        levels.append(_binned(spec, _sub_blocks(mask, ps, og, [s] * n)))
    out = np.empty(n)
    ambiguous = False
    for k in range(n):
        chosen = None
        for t in range(1, len(steps)):                             # levels[t] is the value at steps[t-1]
            prev, new = levels[t - 1][k], levels[t][k]
            if prev != 0.0 and abs(prev) < 1e-9:
                ambiguous = True                                   # sign of the previous value is within rounding
            if prev > 0:
                lo, hi = (new, prev) if new <= prev else (prev, new)
                ratio = lo / hi
            else:
                ratio = None                                       # agreement undefined -> not met
            ok = ratio is not None and ratio >= frac
            if ratio is not None and abs(ratio - frac) < TIE:
                ambiguous = True
            if rel is not None:
                diff = abs(prev - new)
                if abs(diff - rel) < TIE * max(1.0, rel):
                    ambiguous = True
                ok = ok and diff <= rel
            if ok:
                chosen = new
                break
        out[k] = levels[-1][k] if chosen is None else chosen
    return out, ambiguous, levels


def _gen_iterate(rng, tier):
    schedules = [[2, 4], [2, 3], [2, 4, 8], [3], [2, 3, 4], [4, 2], [2, 2, 3]]
    fracs = [0.5, 0.9, 0.99, 0.9999, 0.999999, 0.2]
    i = 0

    def case(m):
        nonlocal i
        ps, og = _geom(rng)
        c = {"mask": m, "pixel_scales": ps, "origin": og, "spec": _spec(rng, i % N_KINDS),
             "steps": schedules[(i // 2) % len(schedules)], "frac": fracs[(i // 3) % len(fracs)],
             "rel": None if rng.random() < 0.6 else (0.0 if rng.random() < 0.15 else 10.0 ** rng.uniform(-4, 0)), "via_decorator": bool(i % 2)}
        i += 1
        return c

    for m in gens.all_masks(gens.budget(tier, 6, 8), min_unmasked=1):
        yield case(m)
    for _ in range(gens.budget(tier, 500, 5000)):
        yield case(gens.random_mask(rng, 4, 4, min_unmasked=1))


def _run_iterate(aa, spec, mask, ps, og, steps, frac, rel, via_decorator):
    mk = aa.Mask2D(mask=mask.copy(), pixel_scales=ps, origin=og)
    log = []
    if via_decorator:
        prof = _make_profile(aa, spec, False, log)
        grid = aa.Grid2D.from_mask(mask=mk, over_sampling=aa.OverSamplingIterate(
            fractional_accuracy=frac, relative_accuracy=rel, sub_steps=list(steps)))
        got = prof.image_2d_from(grid)
    else:
        def func(obj, grid, *args, **kwargs):
            return _f(spec, np.array(grid, dtype=float).reshape(-1, 2))
        os_ = aa.OverSamplerIterate(mask=mk, fractional_accuracy=frac, relative_accuracy=rel, sub_steps=list(steps))
        got = os_.array_via_func_from(func=func, obj=None)
    return np.asarray(got.slim if hasattr(got, "slim") else got, dtype=float)


def _centres_all_zero(spec, mask, ps, og):
    return not np.any(_f(spec, _centres(mask, ps, og)))


@bounded("C09", "iterate-stopping-rule", gen=_gen_iterate,
         nontrivial=lambda mask, steps, spec, **k: len(steps) > 1 and spec["kind"] != 6)
def iterate_stopping_rule(mask, pixel_scales, origin, spec, steps, frac, rel, via_decorator):
    """C09: 'The iterative scheme returns for each pixel the binned value at the first sub-size of its schedule whose
    agreement with the previous level (ratio of the smaller to the larger value, defined only when the previous value is
    positive) meets the requested fractional accuracy and, if set, the absolute-difference tolerance; otherwise the value at
    the last sub-size' -- OverSamplerIterate.array_via_func_from and @over_sample with OverSamplingIterate, against a
    direct per-pixel reading of the rule (previous level of the first sub-size = plain value at the pixel centre);
    inputs whose comparisons fall within 1e-7 of a threshold are skipped (ties), as are functions that vanish at every
    pixel centre (covered by iterate-zero-at-all-centres); bound: all masks <= 6 (8) cells + 500 (5000) random <= 4x4, 8
    function families, 7 schedules, accuracies 0.2..0.999999, absolute tolerance unset or 1e-4..1."""
    import autoarray as aa
    if _centres_all_zero(spec, mask, pixel_scales, origin):
        return None
    want, ambiguous, levels = _iterate_oracle(spec, mask, pixel_scales, origin, steps, frac, rel)
    if ambiguous:
        return None
    got = _run_iterate(aa, spec, mask, pixel_scales, origin, steps, frac, rel, via_decorator)
    if got.shape != want.shape:
        return "result has shape %r, want %r" % (got.shape, want.shape)
    if not _close(got, want):
        k = int(np.argmax(np.abs(got - want)))
        return "pixel %d: got %r, rule gives %r; levels (sub 1, %s) = %r" % (
            k, got[k], want[k], ", ".join(str(s) for s in steps), [float(l[k]) for l in levels])
    return None


def _gen_iterate_zero(rng, tier):
    i = 0
    for m in gens.all_masks(gens.budget(tier, 4, 6), min_unmasked=1):
        ps, og = _geom(rng)
        yield {"mask": m, "pixel_scales": ps, "origin": og, "amp": rng.uniform(0.5, 3.0),
               "steps": [[2, 4], [2, 3], [2, 4, 8], [3]][i % 4], "frac": [0.5, 0.99, 0.9999][i % 3],
               "via_decorator": bool(i % 2)}
        i += 1


@bounded("C09", "iterate-zero-at-all-centres", gen=_gen_iterate_zero, nontrivial=lambda **k: True)
def iterate_zero_at_all_centres(mask, pixel_scales, origin, amp, steps, frac, via_decorator):
    """C09: '... agreement with the previous level (ratio ..., defined only when the previous value is positive) ...;
    otherwise the value at the last sub-size' for 'functions with zeros': a user function that is exactly zero in a small
    box around every pixel centre and positive towards the pixel edges (f = amp * (max(0, dy - 0.1) + max(0, dx - 0.1)),
    dy/dx = distance to the nearest pixel centre in pixel units).  The sub-size-one level is 0 in every pixel, so it can
    never meet the accuracy; the rule continues with the schedule and ends at the last sub-size if nothing agrees;
    bound: all masks <= 4 (6) cells, 4 schedules, 3 accuracies."""
    import autoarray as aa
    H, W = mask.shape
    ps, og = pixel_scales, origin

    class _Spec(dict):
        pass

    def f(yx):
        yx = np.asarray(yx, dtype=float).reshape(-1, 2)
        v = (og[0] + (H - 1) / 2.0 * ps[0] - yx[:, 0]) / ps[0]
        u = (yx[:, 1] - og[1] + (W - 1) / 2.0 * ps[1]) / ps[1]
        dv, du = np.abs(v - np.round(v)), np.abs(u - np.round(u))
        return amp * (np.maximum(0.0, dv - 0.1) + np.maximum(0.0, du - 0.1))

    cs = _centres(mask, ps, og)
    n = cs.shape[0]
    levels = [f(cs)]
    if np.any(levels[0]):
        return None      # rounding left a non-zero centre value: not the case this check is about
    for s in steps:
        levels.append(np.array([float(np.mean(f(b))) for b in _sub_blocks(mask, ps, og, [s] * n)]))
    want = np.empty(n)
    for k in range(n):
        chosen = None
        for t in range(1, len(steps)):
            prev, new = levels[t - 1][k], levels[t][k]
            if prev > 0:
                ratio = min(prev, new) / max(prev, new)
                if abs(ratio - frac) < TIE:
                    return None
                if ratio >= frac:
                    chosen = new
                    break
        want[k] = levels[-1][k] if chosen is None else chosen
    mk = aa.Mask2D(mask=mask.copy(), pixel_scales=ps, origin=og)
    if via_decorator:
        from autoarray.operators.over_sampling.decorator import over_sample

        class Profile:
            centre = (0.0, 0.0)

            @over_sample
            def image_2d_from(self, grid, *args, **kwargs):
                return f(np.array(grid, dtype=float))

        grid = aa.Grid2D.from_mask(mask=mk, over_sampling=aa.OverSamplingIterate(fractional_accuracy=frac,
                                                                                   sub_steps=list(steps)))
        got = Profile().image_2d_from(grid)
    else:
        os_ = aa.OverSamplerIterate(mask=mk, fractional_accuracy=frac, sub_steps=list(steps))
        got = os_.array_via_func_from(func=lambda obj, grid, *a, **kw: f(np.array(grid, dtype=float)), obj=None)
    got = np.asarray(got.slim if hasattr(got, "slim") else got, dtype=float)
    if got.shape != want.shape or not _close(got, want):
        return "function zero at every pixel centre: got %r, rule gives %r (levels %r)" % (
            got, want, [l.tolist() for l in levels])
    return None


# ------------------------------------------------------------------------------------------------ one over-sampling object, many masks

_REUSE_PS = [(1.0, 1.0), (0.5, 2.0), (2.0, 0.3), (0.1, 0.1), (1.0, 0.25), (1.0, 2.0), (0.4, 0.9)]
_REUSE_OG = [(0.0, 0.0), (0.5, -1.0), (-3.0, 2.0), (0.3, -0.7), (0.1, 0.2)]
_REUSE_ROUTES = ["over_sampler_from", "grid_from_mask", "grid_ctor", "subtracted_from", "dataset"]


def _other_pattern(rng, mask):
    """a mask of the same shape with a different True/False pattern and at least one unmasked pixel (None if impossible)"""
    if mask.size < 2:
        return None
    for _ in range(20):
        m2 = mask.copy()
        for _ in range(rng.randint(1, 2)):
            i, j = rng.randrange(mask.shape[0]), rng.randrange(mask.shape[1])
            m2[i, j] = not m2[i, j]
        if (~m2).sum() >= 1 and not np.array_equal(m2, mask):
            return m2
    return None


def _reuse_case(rng, m, hi, i):
    """a sequence of uses of ONE over-sampling object: 2..4 steps; consecutive steps share the True/False pattern and
    differ in pixel scales and / or origin, or (pattern id 1) share the geometry and differ in the pattern"""
    k = rng.choice([2, 2, 3, 4])
    mode = i % 4                       # 0: scales+origin differ, 1: only origin, 2: only scales, 3: pattern differs too
    ps0, og0 = rng.choice(_REUSE_PS), rng.choice(_REUSE_OG)
    geoms, pats = [], []
    m2 = _other_pattern(rng, m) if mode == 3 else None
    for s in range(k):
        while True:
            ps = ps0 if mode == 1 else rng.choice(_REUSE_PS)
            og = og0 if mode == 2 else rng.choice(_REUSE_OG)
            if mode == 3 and s % 2 == 1 and m2 is not None:
                ps, og = geoms[-1]      # same geometry as the previous step, other pattern
                break
            if not geoms or (tuple(ps), tuple(og)) != (tuple(geoms[-1][0]), tuple(geoms[-1][1])):
                break
        geoms.append((tuple(ps), tuple(og)))
        pats.append(1 if (mode == 3 and s % 2 == 1 and m2 is not None) else 0)
    n = int((~m).sum())
    uniform = m2 is not None
    sub = [rng.randint(2, hi)] * n if uniform else _sub_map(rng, n, hi)
    return {"mask": m, "mask2": m2, "geoms": geoms, "patterns": pats, "sub": sub,
            "as_int": True if uniform else bool(rng.getrandbits(1)),
            "routes": [rng.choice(_REUSE_ROUTES[:4] if rng.random() < 0.85 else _REUSE_ROUTES) for _ in range(k)],
            "offset": (rng.choice([0.25, -1.5, 0.7]), rng.choice([-0.35, 2.0, 0.05]))}


def _gen_reuse(rng, tier):
    hi = gens.budget(tier, 3, 6)
    i = 0
    for m in gens.all_masks(gens.budget(tier, 6, 8), min_unmasked=1):
        c = _reuse_case(rng, m, hi, i)
        c["spec"] = _spec(rng, [1, 0, 2, 7, 3, 4, 5][i % 7])
        i += 1
        yield c
    for _ in range(gens.budget(tier, 400, 3000)):
        c = _reuse_case(rng, gens.random_mask(rng, 5, 5, min_unmasked=1), hi, i)
        c["spec"] = _spec(rng)
        i += 1
        yield c


def _nt_reuse(geoms, sub, **k):
    return len(geoms) >= 2 and max(sub) > 1


@bounded("C09", "reuse-one-uniform-object-many-masks", gen=_gen_reuse, nontrivial=_nt_reuse)
def reuse_uniform_object(mask, mask2, geoms, patterns, sub, as_int, routes, offset, spec):
    """C09: 'For every mask and per-pixel sub-size map, the over-sampled grid holds sub_size^2 points per unmasked pixel at
    the centres of a uniform sub_size x sub_size partition of THAT pixel ... Any user function evaluated on a grid through
    the over-sampling decorator returns exactly this binned result' -- whatever the over-sampling OBJECT was used for
    before: ONE OverSamplingUniform (and one OverSamplingDataset holding it) is used successively for 2..4 masks that share
    shape and True/False pattern but differ in pixel scales and / or origin (or share the geometry and differ in the
    pattern), through over_sampler_from, Grid2D.from_mask(..., over_sampling=obj).over_sampler, Grid2D(values, mask,
    over_sampling=obj), grid.subtracted_from(offset) and Imaging(over_sampling=...).apply_mask(mask).grids; at every step
    the over-sampled grid, slim_for_sub_slim, sub_pixel_areas and the @over_sample-decorated function must equal the
    oracle for THAT step's mask (sub-pixel centres of its own pixels, per-pixel means); every step is then repeated once
    (second use of the same mask after the others); bound: all masks <= 6 (8) cells + 400 (3000) random <= 5x5, sequences
    of 2..4 geometries from 7 pixel scales x 5 origins, uniform and per-pixel sub maps 1..3 (1..6), 8 function families."""
    import autoarray as aa
    n0 = int((~mask).sum())
    if as_int and len(set(sub)) == 1:
        sub_size = int(sub[0])
    else:
        sub_size = aa.Array2D(values=[int(s) for s in sub], mask=aa.Mask2D(mask=mask.copy(), pixel_scales=geoms[0][0], origin=geoms[0][1]))
    osu = aa.OverSamplingUniform(sub_size=sub_size)
    # the dataset's two schemes differ (uniform: the scheme under test; pixelization: one sub size more everywhere), so that a
    # pixelization grid that carries anything of the uniform grid -- whichever of the two is read first -- answers for the wrong scheme
    sub_pix = int(max(int(v) for v in sub)) + 1
    osd = aa.OverSamplingDataset(uniform=osu, pixelization=aa.OverSamplingUniform(sub_size=sub_pix))
    log = []
    prof = _make_profile(aa, spec, False, log)

    def check(label, pattern, ps, og, subs, sampler=None, grid=None):
        blocks = _sub_blocks(pattern, ps, og, subs)
        want = np.vstack(blocks)
        if sampler is None:
            sampler = grid.over_sampler
        got = np.asarray(sampler.over_sampled_grid, dtype=float)
        if got.shape != want.shape or not _close(got, want):
            return "%s: over-sampled grid is not at the sub-pixel centres of this mask (pixel scales %r, origin %r): first point %r, want %r" % (
                label, ps, og, got[:1].tolist(), want[:1].tolist())
        owner = np.concatenate([[k] * len(b) for k, b in enumerate(blocks)])
        if not np.array_equal(np.asarray(sampler.slim_for_sub_slim), owner):
            return "%s: slim_for_sub_slim is not pixel-by-pixel in slim order" % label
        areas = np.asarray(sampler.sub_pixel_areas, dtype=float)
        want_areas = np.concatenate([[ps[0] * ps[1] / int(s) ** 2] * int(s) ** 2 for s in subs])
        if areas.shape != want_areas.shape or not np.allclose(areas, want_areas, rtol=1e-12, atol=0.0):
            return "%s: sub_pixel_areas are not this mask's pixel area / sub^2" % label
        wantv = _binned(spec, blocks)
        if grid is not None:
            res = prof.image_2d_from(grid)
        else:
            res = sampler.array_via_func_from(func=lambda obj, g, *a, **kw: _f(spec, np.array(g, dtype=float)), obj=prof)
        gv = np.asarray(res.slim if hasattr(res, "slim") else res, dtype=float)
        if gv.shape != wantv.shape or not _close(gv, wantv):
            k = int(np.argmax(np.abs(gv - wantv))) if gv.shape == wantv.shape else 0
            return "%s: function through the over-sampling object gives %r at pixel %d, mean over this mask's sub-pixels is %r" % (
                label, gv.tolist()[k:k + 1], k, wantv[k])
        if hasattr(res, "mask") and max(subs) > 1 and not np.array_equal(np.asarray(res.mask), pattern):
            return "%s: result is on a different mask" % label
        return None

    steps = list(range(len(geoms))) + list(range(len(geoms)))       # every mask is used a second time after the others
    for t, s in enumerate(steps):
        (ps, og), route = geoms[s], routes[s]
        pattern = mask2 if patterns[s] == 1 else mask
        subs = [int(sub[0])] * int((~pattern).sum()) if patterns[s] == 1 or len(sub) != int((~pattern).sum()) else sub
        label = "use %d (%s, geometry #%d)" % (t + 1, route, s)
        mk = aa.Mask2D(mask=pattern.copy(), pixel_scales=ps, origin=og)
        if route == "over_sampler_from":
            err = check(label, pattern, ps, og, subs, sampler=osu.over_sampler_from(mask=mk))
        elif route == "grid_from_mask":
            err = check(label, pattern, ps, og, subs, grid=aa.Grid2D.from_mask(mask=mk, over_sampling=osu))
        elif route == "grid_ctor":
            err = check(label, pattern, ps, og, subs, grid=aa.Grid2D(values=_centres(pattern, ps, og), mask=mk, over_sampling=osu))
        elif route == "subtracted_from":
            og_b = (og[0] + offset[0], og[1] + offset[1])
            base = aa.Grid2D.from_mask(mask=aa.Mask2D(mask=pattern.copy(), pixel_scales=ps, origin=og_b), over_sampling=osu)
            err = check(label + " base grid", pattern, ps, og_b, subs, grid=base)
            if err is None:
                shifted = base.subtracted_from(offset=offset)
                og_s = (og_b[0] - offset[0], og_b[1] - offset[1])
                if not np.allclose(np.asarray(shifted.mask.origin), og_s, rtol=0, atol=1e-12):
                    return None                                    # geometry of the shifted grid is C12's business
                err = check(label + " shifted grid", pattern, ps, og_s, subs, grid=shifted)
        else:
            shape = pattern.shape
            data = aa.Array2D.no_mask(values=np.ones(shape), pixel_scales=ps, origin=og)
            ds = aa.Imaging(data=data, noise_map=aa.Array2D.no_mask(values=np.ones(shape), pixel_scales=ps, origin=og),
                            over_sampling=osd).apply_mask(mask=mk)
            subs_pix = [sub_pix] * int((~pattern).sum())
            if t % 2 == 0:
                err = check(label + " grids.uniform", pattern, ps, og, subs, grid=ds.grids.uniform)
                if err is None:
                    err = check(label + " grids.pixelization (read after grids.uniform)", pattern, ps, og, subs_pix, grid=ds.grids.pixelization)
            else:
                err = check(label + " grids.pixelization", pattern, ps, og, subs_pix, grid=ds.grids.pixelization)
                if err is None:
                    err = check(label + " grids.uniform (read after grids.pixelization)", pattern, ps, og, subs, grid=ds.grids.uniform)
        if err:
            return err + " [sequence of geometries %r, patterns %r]" % (geoms, patterns)
    return None


def _gen_reuse_iterate(rng, tier):
    schedules = [[2, 4], [2, 3], [2, 4, 8], [3], [2, 3, 4]]
    fracs = [0.5, 0.9, 0.99, 0.9999]
    i = 0

    def case(m):
        nonlocal i
        k = rng.choice([2, 3])
        geoms = []
        while len(geoms) < k:
            g = (tuple(rng.choice(_REUSE_PS)), tuple(rng.choice(_REUSE_OG)))
            if not geoms or g != geoms[-1]:
                geoms.append(g)
        c = {"mask": m, "geoms": geoms, "spec": _spec(rng, [0, 7, 4, 1, 2, 3, 5][i % 7]), "steps": schedules[i % len(schedules)],
             "frac": fracs[(i // 2) % len(fracs)], "rel": None if rng.random() < 0.7 else (0.0 if rng.random() < 0.15 else 10.0 ** rng.uniform(-3, 0)),
             "via_decorator": [bool(rng.getrandbits(1)) for _ in range(k)]}
        i += 1
        return c

    for m in gens.all_masks(gens.budget(tier, 6, 7), min_unmasked=1):
        yield case(m)
    for _ in range(gens.budget(tier, 300, 2000)):
        yield case(gens.random_mask(rng, 4, 4, min_unmasked=1))


@bounded("C09", "reuse-one-iterate-object-many-masks", gen=_gen_reuse_iterate,
         nontrivial=lambda geoms, steps, spec, **k: len(geoms) >= 2 and spec["kind"] != 6)
def reuse_iterate_object(mask, geoms, spec, steps, frac, rel, via_decorator):
    """C09: 'The iterative scheme returns for each pixel the binned value at the first sub-size of its schedule whose
    agreement with the previous level ... meets the requested fractional accuracy ...; otherwise the value at the last
    sub-size' -- for every mask, whatever the OverSamplingIterate object was used for before: ONE OverSamplingIterate is
    used successively (and then once more each) for 2..3 masks with the same True/False pattern and different pixel
    scales / origins, through over_sampler_from(mask).array_via_func_from and through @over_sample with
    Grid2D.from_mask(mask, over_sampling=obj); oracle = the statement's rule on THAT mask's sub-pixel centres; steps with a
    comparison within 1e-7 of a threshold, or a function vanishing at every pixel centre, are skipped; bound: all masks <=
    6 (7) cells + 300 (2000) random <= 4x4, 5 schedules, 4 accuracies, 7 function families."""
    import autoarray as aa
    osi = aa.OverSamplingIterate(fractional_accuracy=frac, relative_accuracy=rel, sub_steps=list(steps))
    log = []
    prof = _make_profile(aa, spec, False, log)
    order = list(range(len(geoms))) + list(range(len(geoms)))
    for t, s in enumerate(order):
        ps, og = geoms[s]
        if _centres_all_zero(spec, mask, ps, og):
            continue
        want, ambiguous, levels = _iterate_oracle(spec, mask, ps, og, steps, frac, rel)
        if ambiguous:
            continue
        mk = aa.Mask2D(mask=mask.copy(), pixel_scales=ps, origin=og)
        if via_decorator[s]:
            got = prof.image_2d_from(aa.Grid2D.from_mask(mask=mk, over_sampling=osi))
        else:
            got = osi.over_sampler_from(mask=mk).array_via_func_from(
                func=lambda obj, g, *a, **kw: _f(spec, np.array(g, dtype=float).reshape(-1, 2)), obj=None)
        got = np.asarray(got.slim if hasattr(got, "slim") else got, dtype=float)
        if got.shape != want.shape or not _close(got, want):
            return "use %d of one OverSamplingIterate (pixel scales %r, origin %r, %s): got %r, rule on this mask gives %r [sequence %r]" % (
                t + 1, ps, og, "decorator" if via_decorator[s] else "over_sampler_from", got.tolist(), want.tolist(), geoms)
        if list(osi.sub_steps) != list(steps) or osi.fractional_accuracy != frac or osi.relative_accuracy != rel:
            return "use %d modified the OverSamplingIterate object's settings" % (t + 1)
    return None


# ------------------------------------------------------------------------------------------------ one sampler / one grid, many functions

def _gen_reuse_funcs(rng, tier):
    schedules = [[2, 4], [2, 3], [2, 4, 8], [2, 3, 4]]
    fracs = [0.5, 0.9, 0.99, 0.9999]
    i = 0

    def case(m):
        nonlocal i
        ps, og = _geom(rng)
        kinds = [k for k in range(N_KINDS) if k != 6]
        c = {"mask": m, "pixel_scales": ps, "origin": og, "specs": [_spec(rng, rng.choice(kinds)) for _ in range(rng.choice([2, 3]))],
             "steps": schedules[i % len(schedules)], "frac": fracs[(i // 2) % len(fracs)],
             "rel": None if rng.random() < 0.7 else (0.0 if rng.random() < 0.15 else 10.0 ** rng.uniform(-3, 0)), "via_decorator": bool(i % 2)}
        i += 1
        return c

    for m in gens.all_masks(gens.budget(tier, 5, 7), min_unmasked=1):
        yield case(m)
    for _ in range(gens.budget(tier, 300, 2500)):
        yield case(gens.random_mask(rng, 4, 4, min_unmasked=1))


@bounded("C09", "reuse-one-iterate-sampler-many-functions", gen=_gen_reuse_funcs, nontrivial=lambda specs, steps, **k: len(steps) > 1,
         twins=("mask",))
def reuse_iterate_sampler_many_functions(mask, pixel_scales, origin, specs, steps, frac, rel, via_decorator):
    """C09: 'The iterative scheme returns for each pixel the binned value at the first sub-size of its schedule whose agreement
    with the previous level ... meets the requested fractional accuracy ...; otherwise the value at the last sub-size' -- for
    every function, whatever the sampler evaluated before: ONE OverSamplerIterate (or ONE Grid2D carrying an
    OverSamplingIterate, through @over_sample) evaluates 2..3 different functions one after the other and then the first one
    again; every result must be the statement's rule for THAT function (pixels that converged early for one function and late
    for the next are where a work buffer kept between calls shows); ties and all-zero-at-centres functions skipped; bound:
    all masks <= 5 (7) cells + 300 (2500) random <= 4x4, 4 schedules, 4 accuracies, 7 function families."""
    import autoarray as aa
    mk = aa.Mask2D(mask=mask.copy(), pixel_scales=pixel_scales, origin=origin)
    sampler = aa.OverSamplerIterate(mask=mk, fractional_accuracy=frac, relative_accuracy=rel, sub_steps=list(steps))
    grid = aa.Grid2D.from_mask(mask=mk, over_sampling=aa.OverSamplingIterate(
        fractional_accuracy=frac, relative_accuracy=rel, sub_steps=list(steps)))
    for t, spec in enumerate(list(specs) + [specs[0]]):
        if _centres_all_zero(spec, mask, pixel_scales, origin):
            continue
        want, ambiguous, levels = _iterate_oracle(spec, mask, pixel_scales, origin, steps, frac, rel)
        if ambiguous:
            continue
        if via_decorator:
            got = _make_profile(aa, spec, False, []).image_2d_from(grid)
        else:
            got = sampler.array_via_func_from(func=lambda obj, g, *a, _s=spec, **kw: _f(_s, np.array(g, dtype=float).reshape(-1, 2)), obj=None)
        got = np.asarray(got.slim if hasattr(got, "slim") else got, dtype=float)
        if got.shape != want.shape or not _close(got, want):
            k = int(np.argmax(np.abs(got - want))) if got.shape == want.shape else 0
            return "function %d of %d evaluated by one %s: pixel %d got %r, rule gives %r (a fresh sampler is not needed by the statement)" % (
                t + 1, len(specs) + 1, "Grid2D + @over_sample" if via_decorator else "OverSamplerIterate", k,
                got[k] if got.shape == want.shape else got.shape, want[k])
    return None
