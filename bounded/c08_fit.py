"""C08 fit statistics and evidence: fit_util functions, FitImaging/FitDataset in slim and masked-native mode, inversion
evidence, derived maps (bounded stand-in; see docs/BOUNDED_GUIDE.md).

All oracles are the formulas of the property statement written with plain numpy over the index set {k | not mask[k]}."""
import itertools
import numpy as np
from pyvc.bounded import bounded
from pyvc import gens

RTOL = 1e-9
ATOL = 1e-9


# ------------------------------------------------------------------------------------------------ helpers

def _close(a, b):
    a = np.asarray(a, dtype=float)
    b = np.asarray(b, dtype=float)
    return a.shape == b.shape and bool(np.allclose(a, b, rtol=RTOL, atol=ATOL))


def _close_c(a, b):
    a = np.asarray(a, dtype=complex)
    b = np.asarray(b, dtype=complex)
    return a.shape == b.shape and bool(np.allclose(a.real, b.real, rtol=RTOL, atol=ATOL)) \
        and bool(np.allclose(a.imag, b.imag, rtol=RTOL, atol=ATOL))


def _noise(rng, shape):
    """strictly positive noise values spread over two decades"""
    a = np.empty(shape, dtype=float)
    f = a.reshape(-1)
    for i in range(f.size):
        f[i] = 10.0 ** rng.uniform(-1.0, 1.0)
    return a


def _nonzero(rng, shape, lo=-10.0, hi=10.0, eps=1e-2):
    a = np.empty(shape, dtype=float)
    f = a.reshape(-1)
    for i in range(f.size):
        v = rng.uniform(lo, hi)
        while abs(v) < eps:
            v = rng.uniform(lo, hi)
        f[i] = v
    return a


def _oracle(data, noise, model, mask):
    """the statement's definitions over unmasked pixels only (row-major = slim order)"""
    u = ~mask
    d, n, m = data[u], noise[u], model[u]
    r = d - m
    nr = r / n
    c = nr ** 2
    chi2 = float(np.sum(c))
    nn = float(np.sum(np.log(2.0 * np.pi * n ** 2)))
    return {"r": r, "nr": nr, "c": c, "chi2": chi2, "nn": nn, "ll": -0.5 * (chi2 + nn), "d": d, "n": n}


def _quiet():
    import logging
    logging.getLogger("autoarray").setLevel(logging.ERROR)


def _masks(rng, tier, exhaustive_quick, exhaustive_thorough, n_random_quick, n_random_thorough, min_unmasked=1):
    for m in gens.all_masks(gens.budget(tier, exhaustive_quick, exhaustive_thorough), min_unmasked=min_unmasked):
        yield m
    for _ in range(gens.budget(tier, n_random_quick, n_random_thorough)):
        yield gens.random_mask(rng, 6, 6, min_unmasked=min_unmasked)


def _geom(rng):
    ps = rng.choice([(1.0, 1.0), (0.5, 2.0), (2.0, 0.3), (0.1, 0.1)])
    og = rng.choice([(0.0, 0.0), (0.5, -1.0), (-3.0, 2.0)])
    return ps, og


# ------------------------------------------------------------------------------------------------ fit_util, plain

def _gen_plain(rng, tier):
    shapes = [(1,), (2,), (5,), (1, 1), (2, 3), (3, 2), (4, 4), (1, 6), (7,)]
    for i in range(gens.budget(tier, 2000, 20000)):
        sh = shapes[i % len(shapes)]
        yield {"data": gens.reals(rng, sh), "noise_map": _noise(rng, sh), "model_data": gens.reals(rng, sh),
               "reg": rng.uniform(0.0, 50.0), "lc": rng.uniform(-50.0, 50.0), "lr": rng.uniform(-50.0, 50.0)}


@bounded("C08", "fit-util-plain", gen=_gen_plain, nontrivial=lambda data, **k: data.size > 1)
def fit_util_plain(data, noise_map, model_data, reg, lc, lr):
    """C08: 'residual = data - model, chi-squared = sum((residual/noise)^2), noise normalization = sum(log(2 pi noise^2))
    and log likelihood = -(chi-squared + normalization)/2 ... the log evidence equals -(chi-squared + s^T H s +
    log det(F+H) - log det(H) + normalization)/2 ... Derived maps (normalized residuals, chi-squared map, ... residual
    flux fraction = residual/data) obey their definitions element-wise' -- the un-masked functions of fit_util on
    ndarrays of 1-D and 2-D shape; bound: 2000 (20000) seeded inputs, sizes 1..16, data with zeros / 1e-12 / 1e8."""
    from autoarray.fit import fit_util as fu
    d, n, m = data.copy(), noise_map.copy(), model_data.copy()
    r = data - model_data
    nr = r / noise_map
    c = nr ** 2
    chi2 = float(np.sum(c))
    nn = float(np.sum(np.log(2 * np.pi * noise_map ** 2)))
    got = fu.residual_map_from(data=d, model_data=m)
    if not _close(got, r):
        return "residual_map_from != data - model"
    got = fu.normalized_residual_map_from(residual_map=r.copy(), noise_map=n)
    if not _close(got, nr):
        return "normalized_residual_map_from != residual/noise"
    got = fu.chi_squared_map_from(residual_map=r.copy(), noise_map=n)
    if not _close(got, c):
        return "chi_squared_map_from != (residual/noise)^2"
    got = fu.chi_squared_from(chi_squared_map=c.copy())
    if not _close(got, chi2):
        return "chi_squared_from != sum(chi_squared_map): %r vs %r" % (got, chi2)
    got = fu.noise_normalization_from(noise_map=n)
    if not _close(got, nn):
        return "noise_normalization_from != sum(log(2 pi noise^2)): %r vs %r" % (got, nn)
    got = fu.log_likelihood_from(chi_squared=chi2, noise_normalization=nn)
    if not _close(got, -0.5 * (chi2 + nn)):
        return "log_likelihood_from != -(chi2+norm)/2"
    got = fu.log_likelihood_with_regularization_from(chi_squared=chi2, regularization_term=reg, noise_normalization=nn)
    if not _close(got, -0.5 * (chi2 + reg + nn)):
        return "log_likelihood_with_regularization_from != -(chi2+reg+norm)/2"
    got = fu.log_evidence_from(chi_squared=chi2, regularization_term=reg, log_curvature_regularization_term=lc,
                               log_regularization_term=lr, noise_normalization=nn)
    if not _close(got, -0.5 * (chi2 + reg + lc - lr + nn)):
        return "log_evidence_from != -(chi2 + reg + logdet(F+H) - logdet(H) + norm)/2: %r" % (got,)
    nz = data != 0.0
    got = np.asarray(fu.residual_flux_fraction_map_from(residual_map=r.copy(), data=d))
    if got.shape != r.shape or not _close(got[nz], r[nz] / data[nz]):
        return "residual_flux_fraction_map_from != residual/data (where data != 0)"
    if data.ndim == 1:
        # uncorrelated noise written as a covariance matrix must reproduce the statement's chi-squared
        got = fu.chi_squared_with_noise_covariance_from(residual_map=r.copy(),
                                                        noise_covariance_matrix_inv=np.diag(1.0 / noise_map ** 2))
        if not _close(got, chi2):
            return "chi_squared_with_noise_covariance_from(diag(1/noise^2)) != sum((residual/noise)^2)"
    # the dimensionless maps do not depend on the unit of the data: residual and noise scaled together by a power of two (exact
    # in floating point) far from 1 give bit-identical normalized residuals and chi-squared maps -- unless an intermediate
    # (a square of the residual or of the noise taken separately) leaves the floating-point range
    if np.all(np.abs(r) < 1e100) and np.all(noise_map < 1e100) and np.all((r == 0.0) | (np.abs(r) > 1e-100)):
        for f in (2.0 ** -520, 2.0 ** 500):
            got = np.asarray(fu.chi_squared_map_from(residual_map=r * f, noise_map=noise_map * f))
            if got.shape != c.shape or not np.array_equal(got, c):
                return "chi_squared_map_from(residual * 2^%d, noise * 2^%d) = %r, the same ratios give %r" % (
                    int(np.log2(f)), int(np.log2(f)), got.tolist(), c.tolist())
            got = np.asarray(fu.normalized_residual_map_from(residual_map=r * f, noise_map=noise_map * f))
            if got.shape != nr.shape or not np.array_equal(got, nr):
                return "normalized_residual_map_from is not invariant under a common rescaling by 2^%d" % int(np.log2(f))
    if not (np.array_equal(d, data) and np.array_equal(n, noise_map) and np.array_equal(m, model_data)):
        return "an input array was modified in place"
    return None


# ------------------------------------------------------------------------------------------------ fit_util, complex

def _gen_complex(rng, tier):
    for i in range(gens.budget(tier, 2000, 20000)):
        k = 1 + i % 7
        yield {"data_re": gens.reals(rng, (k,)), "data_im": gens.reals(rng, (k,)),
               "model_re": gens.reals(rng, (k,)), "model_im": gens.reals(rng, (k,)),
               "noise_re": _noise(rng, (k,)), "noise_im": _noise(rng, (k,))}


@bounded("C08", "fit-util-complex", gen=_gen_complex, nontrivial=lambda data_re, **k: data_re.size > 1)
def fit_util_complex(data_re, data_im, model_re, model_im, noise_re, noise_im):
    """C08: 'residual = data - model, chi-squared = sum((residual/noise)^2), noise normalization = sum(log(2 pi
    noise^2))' for complex visibilities, whose real and imaginary parts are separate data values each with its own noise
    value (the *_complex_from functions of fit_util); bound: 2000 (20000) seeded inputs of 1..7 visibilities."""
    from autoarray.fit import fit_util as fu
    data = data_re + 1j * data_im
    model = model_re + 1j * model_im
    noise = noise_re + 1j * noise_im
    r = fu.residual_map_from(data=data.copy(), model_data=model.copy())
    if not _close_c(r, (data_re - model_re) + 1j * (data_im - model_im)):
        return "complex residual != data - model"
    rr, ri = data_re - model_re, data_im - model_im
    got = fu.normalized_residual_map_complex_from(residual_map=(rr + 1j * ri), noise_map=noise.copy())
    if not _close_c(got, rr / noise_re + 1j * (ri / noise_im)):
        return "normalized_residual_map_complex_from != re/re + i im/im"
    cm = fu.chi_squared_map_complex_from(residual_map=(rr + 1j * ri), noise_map=noise.copy())
    want_cm = (rr / noise_re) ** 2 + 1j * (ri / noise_im) ** 2
    if not _close_c(cm, want_cm):
        return "chi_squared_map_complex_from != (re/re)^2 + i (im/im)^2"
    chi2 = float(np.sum((rr / noise_re) ** 2) + np.sum((ri / noise_im) ** 2))
    got = fu.chi_squared_complex_from(chi_squared_map=want_cm.copy())
    if not _close(got, chi2):
        return "chi_squared_complex_from != sum over real and imaginary parts: %r vs %r" % (got, chi2)
    nn = float(np.sum(np.log(2 * np.pi * noise_re ** 2)) + np.sum(np.log(2 * np.pi * noise_im ** 2)))
    got = fu.noise_normalization_complex_from(noise_map=noise.copy())
    if not _close(got, nn):
        return "noise_normalization_complex_from != sum(log(2 pi noise^2)) over real and imaginary parts"
    return None


# ------------------------------------------------------------------------------------------------ fit_util, _with_mask

def _gen_with_mask(rng, tier):
    for m in _masks(rng, tier, 8, 12, 300, 5000):
        ps, og = _geom(rng)
        yield {"mask": m, "data": _nonzero(rng, m.shape), "noise_map": _noise(rng, m.shape),
               "model_data": gens.reals(rng, m.shape), "junk": gens.reals(rng, (3,) + m.shape, -1e3, 1e3),
               "junk_noise": _noise(rng, m.shape), "as_objects": bool(rng.getrandbits(1)), "pixel_scales": ps,
               "origin": og}


@bounded("C08", "fit-util-with-mask", gen=_gen_with_mask,
         nontrivial=lambda mask, **k: 0 < mask.sum() < mask.size)
def fit_util_with_mask(mask, data, noise_map, model_data, junk, junk_noise, as_objects, pixel_scales, origin):
    """C08: 'residual = data - model, chi-squared = sum((residual/noise)^2), noise normalization = sum(log(2 pi
    noise^2)) ... each taken over unmasked pixels only, so values carried in masked pixels never change them' and
    'residual flux fraction = residual/data' -- every *_with_mask_from function of fit_util on native arrays (ndarray +
    bool mask, or native-stored Array2D + Mask2D), evaluated twice with different values carried in the masked pixels;
    bound: all masks <= 8 (12) cells + 300 (5000) random <= 6x6, anisotropic scales, non-zero origins."""
    import autoarray as aa
    from autoarray.fit import fit_util as fu
    o = _oracle(data, noise_map, model_data, mask)
    u = ~mask
    outs = []
    for variant in (0, 1):
        if variant == 0:
            d, n, m = data.copy(), noise_map.copy(), model_data.copy()
        else:  # same unmasked values, different values carried in the masked pixels
            d = np.where(mask, junk[0], data)
            n = np.where(mask, junk_noise, noise_map)
            m = np.where(mask, junk[1], model_data)
        mk = mask.copy()
        if as_objects:
            mk = aa.Mask2D(mask=mask.copy(), pixel_scales=pixel_scales, origin=origin)
            base = aa.Array2D(values=np.zeros(mask.shape), mask=mk, store_native=True)
            d, n, m = base.with_new_array(d), base.with_new_array(n), base.with_new_array(m)
        r = fu.residual_map_with_mask_from(data=d, mask=mk, model_data=m)
        if np.shape(r) != mask.shape or not _close(np.asarray(r)[u], o["r"]):
            return "residual_map_with_mask_from != data - model on unmasked pixels (variant %d)" % variant
        nr = fu.normalized_residual_map_with_mask_from(residual_map=r, noise_map=n, mask=mk)
        if np.shape(nr) != mask.shape or not _close(np.asarray(nr)[u], o["nr"]):
            return "normalized_residual_map_with_mask_from != residual/noise on unmasked pixels (variant %d)" % variant
        c = fu.chi_squared_map_with_mask_from(residual_map=r, noise_map=n, mask=mk)
        if np.shape(c) != mask.shape or not _close(np.asarray(c)[u], o["c"]):
            return "chi_squared_map_with_mask_from != (residual/noise)^2 on unmasked pixels (variant %d)" % variant
        # scalar terms are given maps that carry values in masked pixels as well
        c_carry = np.where(mask, junk[2] ** 2, np.asarray(c)) if variant else np.asarray(c)
        chi2 = fu.chi_squared_with_mask_from(chi_squared_map=c_carry, mask=mk)
        if not _close(chi2, o["chi2"]):
            return "chi_squared_with_mask_from != sum over unmasked pixels (variant %d): %r vs %r" % (
                variant, chi2, o["chi2"])
        chi2f = fu.chi_squared_with_mask_fast_from(data=d, mask=mk, model_data=m, noise_map=n)
        if not _close(chi2f, o["chi2"]):
            return "chi_squared_with_mask_fast_from != sum over unmasked pixels (variant %d): %r vs %r" % (
                variant, chi2f, o["chi2"])
        nn = fu.noise_normalization_with_mask_from(noise_map=n, mask=mk)
        if not _close(nn, o["nn"]):
            return "noise_normalization_with_mask_from != sum over unmasked pixels (variant %d): %r vs %r" % (
                variant, nn, o["nn"])
        rff = fu.residual_flux_fraction_map_with_mask_from(residual_map=r, data=d, mask=mk)
        if np.shape(rff) != mask.shape or not _close(np.asarray(rff)[u], o["r"] / o["d"]):
            return "residual_flux_fraction_map_with_mask_from != residual/data on unmasked pixels (variant %d)" % variant
        outs.append([np.asarray(x, dtype=float).copy() for x in (r, nr, c, rff)] + [chi2, chi2f, nn])
    for a, b in zip(outs[0], outs[1]):
        if not _close(a, b):
            return "a result changed when only the values carried in masked pixels changed"
    return None


# ------------------------------------------------------------------------------------------------ FitImaging

def _gen_fit(rng, tier):
    first = True
    for m in _masks(rng, tier, 8, 12, 300, 5000):
        ps, og = _geom(rng)
        sky = 0.0 if (first or rng.random() < 0.4) else rng.uniform(-3.0, 3.0)
        first = False
        yield {"mask": m, "data": gens.reals(rng, m.shape), "noise_map": _noise(rng, m.shape),
               "model_data": gens.reals(rng, m.shape), "junk": gens.reals(rng, (3,) + m.shape, -1e3, 1e3),
               "junk_noise": _noise(rng, m.shape), "sky": sky, "route": rng.randrange(3), "pixel_scales": ps,
               "origin": og}


def _check_fit(fit, o, mask, native, label):
    """compare one fit object with the oracle `o`; maps are read on unmasked pixels in slim order"""
    u = ~mask

    def vals(x):
        x = np.asarray(x, dtype=float)
        return x[u] if native else x

    for name, key in (("residual_map", "r"), ("normalized_residual_map", "nr"), ("chi_squared_map", "c")):
        got = np.asarray(getattr(fit, name), dtype=float)
        if got.shape != (mask.shape if native else (int(u.sum()),)):
            return "%s: %s has shape %r" % (label, name, got.shape)
        if not _close(vals(got), o[key]):
            return "%s: %s != its definition on unmasked pixels: %r vs %r" % (label, name, vals(got), o[key])
    for name, key in (("chi_squared", "chi2"), ("noise_normalization", "nn"), ("log_likelihood", "ll")):
        got = getattr(fit, name)
        if not _close(got, o[key]):
            return "%s: %s = %r, definition over unmasked pixels gives %r" % (label, name, got, o[key])
    if fit.inversion is None:
        got = fit.figure_of_merit
        if not _close(got, o["ll"]):
            return "%s: figure_of_merit = %r but log likelihood (no inversion) is %r" % (label, got, o["ll"])
    return None


@bounded("C08", "fit-imaging-slim", gen=_gen_fit, nontrivial=lambda mask, sky, **k: 0 < mask.sum() < mask.size)
def fit_imaging_slim(mask, data, noise_map, model_data, junk, junk_noise, sky, route, pixel_scales, origin):
    """C08: 'residual = data - model, chi-squared = sum((residual/noise)^2), noise normalization = sum(log(2 pi
    noise^2)) and log likelihood = -(chi-squared + normalization)/2, each taken over unmasked pixels only, so values
    carried in masked pixels never change them, in ... the slim ... evaluation mode ... the figure of merit is ... the
    likelihood otherwise' -- FitImaging (use_mask_in_fit=False) on aa.Imaging built (route 0) from masked Array2D,
    (route 1) by Imaging.apply_mask on an unmasked dataset, (route 2) from slim value lists; with and without a
    background-sky level; dataset built twice with different values in masked pixels; bound: all masks <= 8 (12) cells +
    300 (5000) random <= 6x6."""
    import autoarray as aa
    _quiet()
    o = _oracle(data - sky, noise_map, model_data, mask)
    for variant in (0, 1):
        if variant == 0:
            d, n, m = data.copy(), noise_map.copy(), model_data.copy()
        else:
            d = np.where(mask, junk[0], data)
            n = np.where(mask, junk_noise, noise_map)
            m = np.where(mask, junk[1], model_data)
        mk = aa.Mask2D(mask=mask.copy(), pixel_scales=pixel_scales, origin=origin)
        if route == 0:
            ds = aa.Imaging(data=aa.Array2D(values=d, mask=mk), noise_map=aa.Array2D(values=n, mask=mk))
        elif route == 1:
            ds = aa.Imaging(data=aa.Array2D.no_mask(values=d, pixel_scales=pixel_scales, origin=origin),
                            noise_map=aa.Array2D.no_mask(values=n, pixel_scales=pixel_scales, origin=origin))
            ds = ds.apply_mask(mask=mk)
        else:
            ds = aa.Imaging(data=aa.Array2D(values=d[~mask], mask=mk), noise_map=aa.Array2D(values=n[~mask], mask=mk))
        model = aa.Array2D(values=m, mask=mk)
        dm = aa.DatasetModel(background_sky_level=sky) if sky != 0.0 else None
        fit = aa.m.MockFitImaging(dataset=ds, use_mask_in_fit=False, model_data=model, dataset_model=dm)
        if not np.array_equal(np.asarray(fit.mask), mask):
            return "fit.mask differs from the dataset mask"
        msg = _check_fit(fit, o, mask, native=False, label="slim mode, route %d, variant %d" % (route, variant))
        if msg:
            return msg
    return None


@bounded("C08", "fit-imaging-masked-native", gen=_gen_fit,
         nontrivial=lambda mask, sky, **k: 0 < mask.sum() < mask.size)
def fit_imaging_masked_native(mask, data, noise_map, model_data, junk, junk_noise, sky, route, pixel_scales, origin):
    """C08: '... each taken over unmasked pixels only, so values carried in masked pixels never change them, in both the
    slim and the masked-native evaluation modes' -- FitImaging with use_mask_in_fit=True on native-stored arrays:
    (route 0) aa.Imaging of Array2D(store_native=True); (route 1) aa.Imaging of native Array2D that carry arbitrary
    values in the masked pixels (positive noise there); (route 2) a plain dataset record of ndarrays carrying arbitrary
    values in masked pixels; model data carries arbitrary values in masked pixels in routes 1, 2; with and without a
    background-sky level; bound: all masks <= 8 (12) cells + 300 (5000) random <= 6x6."""
    import types
    import autoarray as aa
    _quiet()
    o = _oracle(data - sky, noise_map, model_data, mask)
    mk = aa.Mask2D(mask=mask.copy(), pixel_scales=pixel_scales, origin=origin)
    dm = aa.DatasetModel(background_sky_level=sky) if sky != 0.0 else None
    for variant in (0, 1):
        if variant == 0:
            d = np.where(mask, junk[0], data)
            n = np.where(mask, junk_noise, noise_map)
            m = np.where(mask, junk[1], model_data)
        else:
            d = np.where(mask, junk[1], data)
            n = np.where(mask, 2.0 * junk_noise + 1.0, noise_map)
            m = np.where(mask, junk[2], model_data)
        if route == 0:
            ds = aa.Imaging(data=aa.Array2D(values=d, mask=mk, store_native=True),
                            noise_map=aa.Array2D(values=n, mask=mk, store_native=True))
            model = aa.Array2D(values=m, mask=mk, store_native=True)
        elif route == 1:
            base = aa.Array2D(values=np.zeros(mask.shape), mask=mk, store_native=True)
            ds = aa.Imaging(data=base.with_new_array(d.copy()), noise_map=base.with_new_array(n.copy()))
            model = base.with_new_array(m.copy())
            if not np.array_equal(np.asarray(ds.data), d):
                return None  # the dataset normalised the carried values itself: nothing carried, covered by route 0
        else:
            ds = types.SimpleNamespace(data=d.copy(), noise_map=n.copy(), mask=mk, noise_covariance_matrix=None)
            model = m.copy()
        fit = aa.m.MockFitImaging(dataset=ds, use_mask_in_fit=True, model_data=model, dataset_model=dm)
        msg = _check_fit(fit, o, mask, native=True, label="masked-native mode, route %d, variant %d" % (route, variant))
        if msg:
            return msg
    return None


# ------------------------------------------------------------------------------------------------ derived maps

def _gen_maps(rng, tier):
    for m in _masks(rng, tier, 8, 12, 300, 5000):
        ps, og = _geom(rng)
        sky = 0.0 if rng.random() < 0.5 else rng.uniform(-3.0, 3.0)
        data = _nonzero(rng, m.shape) + sky          # data - sky stays away from zero
        yield {"mask": m, "data": data, "noise_map": _noise(rng, m.shape), "model_data": gens.reals(rng, m.shape),
               "sky": sky, "native": bool(rng.getrandbits(1)), "pixel_scales": ps, "origin": og}


def _build_fit(aa, mask, data, noise_map, model_data, sky, native, pixel_scales, origin):
    mk = aa.Mask2D(mask=mask.copy(), pixel_scales=pixel_scales, origin=origin)
    ds = aa.Imaging(data=aa.Array2D(values=data.copy(), mask=mk, store_native=native),
                    noise_map=aa.Array2D(values=noise_map.copy(), mask=mk, store_native=native))
    model = aa.Array2D(values=model_data.copy(), mask=mk, store_native=native)
    dm = aa.DatasetModel(background_sky_level=sky) if sky != 0.0 else None
    return aa.m.MockFitImaging(dataset=ds, use_mask_in_fit=native, model_data=model, dataset_model=dm)


@bounded("C08", "fit-signal-to-noise-map", gen=_gen_maps, nontrivial=lambda mask, data, sky, **k: bool(((data - sky)[~mask] < 0).any()))
def fit_signal_to_noise_map(mask, data, noise_map, model_data, sky, native, pixel_scales, origin):
    """C08: 'Derived maps (... signal-to-noise with negatives clipped to zero ...) obey their definitions element-wise'
    -- FitImaging.signal_to_noise_map == max(data/noise, 0) on every unmasked pixel, data being the (sky-subtracted)
    data of the fit; slim mode and masked-native mode; must not alter the dataset; bound: all masks <= 8 (12) cells + 300
    (5000) random <= 6x6."""
    import autoarray as aa
    _quiet()
    fit = _build_fit(aa, mask, data, noise_map, model_data, sky, native, pixel_scales, origin)
    u = ~mask
    want = np.maximum((data - sky)[u] / noise_map[u], 0.0)
    before = np.asarray(fit.dataset.data, dtype=float).copy()
    got = np.asarray(fit.signal_to_noise_map, dtype=float)
    got = got[u] if native else got
    if not _close(got, want):
        return "signal_to_noise_map != max(data/noise, 0) on unmasked pixels: %r vs %r" % (got, want)
    if not np.array_equal(np.asarray(fit.dataset.data, dtype=float), before):
        return "signal_to_noise_map modified the dataset's data"
    return None


@bounded("C08", "fit-residual-flux-fraction-map", gen=_gen_maps, nontrivial=lambda mask, **k: (~mask).sum() > 1)
def fit_residual_flux_fraction_map(mask, data, noise_map, model_data, sky, native, pixel_scales, origin):
    """C08: 'Derived maps (... residual flux fraction = residual/data) obey their definitions element-wise' --
    FitImaging.residual_flux_fraction_map == (data - model)/data on every unmasked pixel (data non-zero), slim mode and
    masked-native mode; bound: all masks <= 8 (12) cells + 300 (5000) random <= 6x6."""
    import autoarray as aa
    _quiet()
    fit = _build_fit(aa, mask, data, noise_map, model_data, sky, native, pixel_scales, origin)
    u = ~mask
    d = (data - sky)[u]
    want = (d - model_data[u]) / d
    got = np.asarray(fit.residual_flux_fraction_map, dtype=float)
    got = got[u] if native else got
    if not _close(got, want):
        chi = ((d - model_data[u]) / noise_map[u]) ** 2
        return "residual_flux_fraction_map != residual/data on unmasked pixels: got %r, want %r%s" % (
            got, want, " (got equals the chi-squared map)" if _close(got, chi) else "")
    return None


# ------------------------------------------------------------------------------------------------ inversion / evidence

def _spd(rng, k, scale):
    a = np.array([[rng.uniform(-1, 1) for _ in range(k)] for _ in range(k)])
    return scale * (a @ a.T + 0.5 * np.eye(k))


def _gen_inv(rng, tier):
    n_cases = gens.budget(tier, 900, 10000)
    shapes = [(2, 3), (3, 3), (3, 4), (4, 3), (2, 5), (4, 4)]
    for i in range(n_cases):
        h, w = shapes[i % len(shapes)]
        while True:
            m = gens.random_mask(rng, h, w, hmin=h, wmin=w, p=rng.choice([0.0, 0.2, 0.4]))
            if (~m).sum() >= 5:
                break
        npix = int((~m).sum())
        # list of linear objects: (n_params, regularized?)
        # EVERY pattern of regularized / unregularized objects of length 1..4 (30 patterns: adjacent, separated, leading, trailing
        # unregularized objects), sizes 1..3
        pats = [p for L in (1, 2, 3, 4) for p in itertools.product((True, False), repeat=L)]
        layout = [(rng.randint(1, 3), reg) for reg in pats[i % len(pats)]]
        objs = []
        for (k, reg) in layout:
            objs.append({"mapping": gens.reals(rng, (npix, k), -2.0, 2.0, special=False),
                         "H": _spd(rng, k, 10.0 ** rng.uniform(-1, 1)) if reg else None})
        ps, og = _geom(rng)
        sky = 0.0 if rng.random() < 0.5 else rng.uniform(-3.0, 3.0)
        data = gens.reals(rng, m.shape, special=False)
        r = rng.random()
        n_reg = sum(o["mapping"].shape[1] for o in objs if o["H"] is not None)
        if r < 0.04:
            # data that equal the sky level everywhere: the data vector is exactly 0, so is the reconstruction and with it s^T H s --
            # an inversion is still present and the figure of merit is still the evidence
            data = np.full(m.shape, sky)
        elif r < 0.16 and n_reg >= 3:
            # the unit of the linear objects is arbitrary: columns scaled by f and H by f^2 leave the model data, chi-squared and
            # s^T H s unchanged and shift both log-determinants by 2 n ln f -- here beyond +-1500, where exp(log det / 2) leaves the
            # floating-point range although the log-determinants themselves are modest numbers
            k = int(np.ceil(1500.0 / (2.0 * n_reg * np.log(2.0)))) * (1 if r < 0.11 else -1)
            f = 2.0 ** k
            objs = [{"mapping": o["mapping"] * f, "H": None if o["H"] is None else o["H"] * f * f} for o in objs]
        yield {"mask": m, "data": data, "noise_map": _noise(rng, m.shape),
               "objs": objs, "sky": sky, "native": bool(rng.getrandbits(1)), "pixel_scales": ps, "origin": og}


@bounded("C08", "fit-inversion-evidence", gen=_gen_inv,
         nontrivial=lambda objs, **k: any(o["H"] is not None for o in objs) and any(o["H"] is None for o in objs))
def fit_inversion_evidence(mask, data, noise_map, objs, sky, native, pixel_scales, origin):
    """C08: 'With an inversion the log evidence equals -(chi-squared + s^T H s + log det(F+H) - log det(H) +
    normalization)/2 with both determinants restricted to regularized parameters, and the figure of merit is the evidence
    when an inversion is present and the likelihood otherwise' -- a real aa.Inversion (mapping formalism, positive-negative
    solver) of 1..3 linear objects, each regularized (SPD H block) or not, fitted to aa.Imaging; the fit's model data is
    the inversion's mapped reconstruction; the evidence is recomputed with numpy slogdet from the inversion's
    reconstruction s, its F+H and H matrices and the oracle chi-squared / normalization over unmasked pixels; slim mode
    and masked-native mode, with / without sky level; bound: 900 (10000) seeded inputs, masks <= 4x4, <= 6 parameters."""
    import autoarray as aa
    _quiet()
    u = ~mask
    mk = aa.Mask2D(mask=mask.copy(), pixel_scales=pixel_scales, origin=origin)
    # the inversion reconstructs the data of the fit (sky-subtracted) on slim arrays
    ds_inv = aa.Imaging(data=aa.Array2D(values=(data - sky), mask=mk), noise_map=aa.Array2D(values=noise_map.copy(), mask=mk))
    lin = []
    for ob in objs:
        M = ob["mapping"].copy()
        reg = aa.m.MockRegularization(regularization_matrix=ob["H"].copy()) if ob["H"] is not None else None
        lin.append(aa.m.MockLinearObjFuncList(parameters=M.shape[1], mapping_matrix=M,
                                              operated_mapping_matrix_override=M, regularization=reg))
    inv = aa.Inversion(dataset=ds_inv, linear_obj_list=lin,
                       settings=aa.SettingsInversion(use_w_tilde=False, use_positive_only_solver=False))
    s = np.asarray(inv.reconstruction, dtype=float).copy()
    model_slim = np.asarray(inv.mapped_reconstructed_data, dtype=float).copy()
    model_native = np.zeros(mask.shape)
    model_native[u] = model_slim

    ds = aa.Imaging(data=aa.Array2D(values=data.copy(), mask=mk, store_native=native),
                    noise_map=aa.Array2D(values=noise_map.copy(), mask=mk, store_native=native))
    model = aa.Array2D(values=model_native.copy(), mask=mk, store_native=native)
    dm = aa.DatasetModel(background_sky_level=sky) if sky != 0.0 else None
    fit = aa.m.MockFitImaging(dataset=ds, use_mask_in_fit=native, model_data=model, inversion=inv, dataset_model=dm)

    o = _oracle(data - sky, noise_map, model_native, mask)
    msg = _check_fit(fit, o, mask, native=native, label="fit with inversion")
    if msg:
        return msg

    # index set of regularized parameters, from the generated layout
    reg_idx, pos = [], 0
    for ob in objs:
        k = ob["mapping"].shape[1]
        if ob["H"] is not None:
            reg_idx += list(range(pos, pos + k))
        pos += k
    FH = np.asarray(inv.curvature_reg_matrix, dtype=float)
    H = np.asarray(inv.regularization_matrix, dtype=float)
    ix = np.ix_(reg_idx, reg_idx)
    if reg_idx:
        s_r = s[reg_idx]
        reg_term = float(s_r @ H[ix] @ s_r)
        sg1, ld_fh = np.linalg.slogdet(FH[ix])
        sg2, ld_h = np.linalg.slogdet(H[ix])
        if sg1 <= 0 or sg2 <= 0:
            return None   # outside the statement's domain (log det undefined)
        want_ev = -0.5 * (o["chi2"] + reg_term + ld_fh - ld_h + o["nn"])
        want_llr = -0.5 * (o["chi2"] + reg_term + o["nn"])
    else:
        reg_term, ld_fh, ld_h = 0.0, 0.0, 0.0
        want_ev = -0.5 * (o["chi2"] + o["nn"])
        want_llr = want_ev
    tol = dict(rtol=1e-8, atol=1e-8)
    if not np.allclose(float(inv.regularization_term), reg_term, **tol):
        return "regularization_term %r != s^T H s over regularized parameters %r" % (inv.regularization_term, reg_term)
    if not np.allclose(float(inv.log_det_curvature_reg_matrix_term), ld_fh, **tol):
        return "log_det_curvature_reg_matrix_term %r != slogdet((F+H) restricted to regularized parameters) %r" % (
            inv.log_det_curvature_reg_matrix_term, ld_fh)
    if not np.allclose(float(inv.log_det_regularization_matrix_term), ld_h, **tol):
        return "log_det_regularization_matrix_term %r != slogdet(H restricted to regularized parameters) %r" % (
            inv.log_det_regularization_matrix_term, ld_h)
    got = fit.log_likelihood_with_regularization
    if not np.allclose(float(got), want_llr, **tol):
        return "log_likelihood_with_regularization %r != -(chi2 + s^T H s + norm)/2 = %r" % (got, want_llr)
    got = fit.log_evidence
    if not np.allclose(float(got), want_ev, **tol):
        return "log_evidence %r != -(chi2 + s^T H s + logdet(F+H) - logdet(H) + norm)/2 = %r" % (got, want_ev)
    got = fit.figure_of_merit
    if not np.allclose(float(got), want_ev, **tol):
        return "figure_of_merit %r != log evidence %r although an inversion is present" % (got, want_ev)
    return None
