"""C20 triangles: ArrayTriangles (vertex-array representation) and CoordinateArrayTriangles (integer-coordinate
representation) -- up-sampling, neighbourhood, index selection, representation agreement, containment (bounded stand-in;
see docs/BOUNDED_GUIDE.md).  The jax-backed variants (jax_array.py, jax_coordinate_array.py) cannot be imported offline
(jax is absent) and are NOT covered.

Vertices are (x, y) pairs (column 0 = x), as in shape.Point.mask.  Geometric comparisons identify vertices that lie within
1e-7 x side length of each other (lattice vertices are otherwise >= side/8 apart), so floating-point noise in coincident
vertices never alarms; triangles are compared as unordered vertex triples."""
import math
import numpy as np
from pyvc.bounded import bounded
from pyvc import gens

H = 3 ** 0.5 / 2


# ----------------------------------------------------------------------------------------------- geometry helpers

class _Ids:
    """assigns one integer id to all points lying within `tol` of each other"""

    def __init__(self, tol):
        self.tol, self.cell, self.cells, self.pts = tol, 8.0 * tol, {}, []

    def id(self, p):
        x, y = float(p[0]), float(p[1])
        cx, cy = int(math.floor(x / self.cell)), int(math.floor(y / self.cell))
        for dx in (-1, 0, 1):
            for dy in (-1, 0, 1):
                for k in self.cells.get((cx + dx, cy + dy), ()):
                    q = self.pts[k]
                    if abs(q[0] - x) <= self.tol and abs(q[1] - y) <= self.tol:
                        return k
        self.pts.append((x, y))
        self.cells.setdefault((cx, cy), []).append(len(self.pts) - 1)
        return len(self.pts) - 1

    def tri(self, t):
        return tuple(sorted(self.id(v) for v in t))

    def tris(self, arr):
        return [self.tri(t) for t in np.asarray(arr, float)]


def _area(t):
    t = np.asarray(t, float)
    return 0.5 * abs(t[0, 0] * (t[1, 1] - t[2, 1]) + t[1, 0] * (t[2, 1] - t[0, 1]) + t[2, 0] * (t[0, 1] - t[1, 1]))


def _bary(t, p):
    (x1, y1), (x2, y2), (x3, y3) = np.asarray(t, float)
    den = (y2 - y3) * (x1 - x3) + (x3 - x2) * (y1 - y3)
    a = ((y2 - y3) * (p[0] - x3) + (x3 - x2) * (p[1] - y3)) / den
    b = ((y3 - y1) * (p[0] - x3) + (x1 - x3) * (p[1] - y3)) / den
    return a, b, 1.0 - a - b


def _inside(t, p, margin):
    """barycentric coordinates all >= margin (margin > 0: well inside, margin < 0: inside or within |margin| of the edge)"""
    return min(_bary(t, p)) >= margin


def _coordinate_triangles(coords, side, x_offset, y_offset, flipped):
    """vertex triples of the integer-coordinate representation, from its definition: triangle (cx, cy) is centred at
    (side/2 * cx + x_offset, H * side * cy + y_offset), points up when cx + cy is even (down when `flipped`)"""
    out = []
    for cx, cy in coords:
        up = ((int(cx) + int(cy)) % 2 == 0) != bool(flipped)
        s = 1.0 if up else -1.0
        x, y = 0.5 * side * cx + x_offset, H * side * cy + y_offset
        out.append([[x, y + s * 0.5 * side * H], [x + s * 0.5 * side, y - s * 0.5 * side * H], [x - s * 0.5 * side, y - s * 0.5 * side * H]])
    return np.array(out, float).reshape(-1, 3, 2)


def _upsample_violation(parents, children, side, label):
    """the generic content of 'replaces every triangle by four triangles of one quarter its area that exactly tile it ...
    count quadruples ... every original vertex remains a vertex'.  Distinct parents are assumed not to overlap (lattice
    triangles); a parent listed m times (for_limits_and_scale does list some triangles twice) is treated as one parent
    that must receive 4m children covering every interior point m times."""
    parents, children = np.asarray(parents, float), np.asarray(children, float)
    if children.ndim != 3 or children.shape[1:] != (3, 2):
        return "%s: up-sampled triangles have shape %r" % (label, children.shape)
    if len(children) != 4 * len(parents):
        return "%s: %d triangles up-sampled to %d, expected %d" % (label, len(parents), len(children), 4 * len(parents))
    ids = _Ids(1e-7 * side)
    groups = {}                                               # distinct parent -> [representative, multiplicity, children]
    for p in parents:
        g = groups.setdefault(ids.tri(p), [p, 0, []])
        g[1] += 1
    for ci, c in enumerate(children):
        cen = c.mean(axis=0)
        hit = [k for k, g in groups.items() if _inside(g[0], cen, 1e-9)]
        if len(hit) != 1:
            return "%s: child %r lies in %d distinct parents" % (label, c.tolist(), len(hit))
        groups[hit[0]][2].append(ci)
    child_vertex_ids = set()
    rs = np.random.default_rng(12345)
    for key, (p, m, kids) in groups.items():
        if len(kids) != 4 * m:
            return "%s: parent %r (listed %d times) has %d children" % (label, p.tolist(), m, len(kids))
        allowed = {ids.id(p[0]), ids.id(p[1]), ids.id(p[2]), ids.id((p[0] + p[1]) / 2), ids.id((p[1] + p[2]) / 2), ids.id((p[2] + p[0]) / 2)}
        pa = _area(p)
        for ci in kids:
            c = children[ci]
            if abs(_area(c) - pa / 4.0) > 1e-9 * pa:
                return "%s: child %r has area %.12g, a quarter of the parent's is %.12g" % (label, c.tolist(), _area(c), pa / 4.0)
            vids = [ids.id(v) for v in c]
            if not set(vids) <= allowed:
                return "%s: child %r of parent %r has a vertex that is neither a parent vertex nor an edge midpoint" % (label, c.tolist(), p.tolist())
            child_vertex_ids.update(vids)
        for _ in range(8):                                    # exact tiling: interior sample points are covered m times
            w = rs.dirichlet((1.0, 1.0, 1.0))
            q = w[0] * p[0] + w[1] * p[1] + w[2] * p[2]
            cover = sum(1 for ci in kids if _inside(children[ci], q, -1e-9))
            if cover < m:
                return "%s: point %r of parent %r (listed %d times) is covered by %d of its children" % (label, q.tolist(), p.tolist(), m, cover)
    for p in parents:
        for v in p:
            if ids.id(v) not in child_vertex_ids:
                return "%s: original vertex %r is no longer a vertex" % (label, v.tolist())
    return None


def _neighborhood_expected(parents, ids):
    want = set()
    for p in np.asarray(parents, float):
        want.add(ids.tri(p))
        want.add(ids.tri([p[1] + p[2] - p[0], p[1], p[2]]))
        want.add(ids.tri([p[0], p[0] + p[2] - p[1], p[2]]))
        want.add(ids.tri([p[0], p[1], p[0] + p[1] - p[2]]))
    return want


# ----------------------------------------------------------------------------------------------- generators

_SIDES = [1.0, 0.5, 2.0, 0.3]
_OFFS = [0.0, 0.25, -1.3]


def _coord_sets(rng, tier):
    for cx in range(-2, 3):                                     # every single triangle, both parities, both flip states
        for cy in range(-2, 3):
            for flipped in (False, True):
                yield np.array([[cx, cy]]), 1.0, 0.0, 0.0, flipped
    for _ in range(gens.budget(tier, 350, 6000)):
        n = rng.randint(1, 12)
        pool = [(a, b) for a in range(-4, 5) for b in range(-3, 4)]
        if rng.random() < 0.5:                                  # contiguous block (shared edges / vertices)
            a0, b0 = rng.randint(-4, 1), rng.randint(-3, 1)
            pool = [(a, b) for a in range(a0, a0 + 4) for b in range(b0, b0 + 3)]
        pts = rng.sample(pool, min(n, len(pool)))
        # sides over eight orders of magnitude (a set up-sampled 14 times has side 6e-5): nothing in the statement has a scale
        side = rng.choice(_SIDES) if rng.random() < 0.8 else rng.choice([1e-3, 1e-5, 3e-5, 1e3])
        yield (np.array(pts, dtype=int).reshape(-1, 2), side, rng.choice(_OFFS), rng.choice(_OFFS),
               bool(rng.getrandbits(1)))


def _gen_coord(rng, tier):
    for coords, side, xo, yo, flipped in _coord_sets(rng, tier):
        n = len(coords)
        k = rng.randint(0, n)
        yield {"coordinates": coords, "side_length": side, "x_offset": xo, "y_offset": yo, "flipped": flipped,
               "indexes": np.array(sorted(rng.sample(range(n), k)) if rng.random() < 0.5 else [rng.randrange(n) for _ in range(k)], dtype=int),
               "levels": 2 if n <= 4 else 1}


_LIMITS = [(0.0, 1.0, 0.0, 1.0, 1.0), (0.0, 1.0, 0.0, 1.0, 0.5), (-1.0, 1.0, -0.5, 1.5, 1.0), (-0.3, 0.4, 0.2, 2.1, 0.7),
           (0.0, 2.0, 0.0, 0.5, 0.5), (-2.0, -1.0, 3.0, 4.0, 0.6), (0.0, 0.1, 0.0, 0.1, 1.0), (0.0, 3.0, 0.0, 3.0, 1.0)]


def _gen_limits(rng, tier):
    for lim in _LIMITS:
        for rep in range(gens.budget(tier, 2, 20)):
            yield {"y_min": lim[0], "y_max": lim[1], "x_min": lim[2], "x_max": lim[3], "scale": lim[4], "seed": rng.randrange(10 ** 6)}
    for _ in range(gens.budget(tier, 60, 1500)):
        scale = rng.choice([0.5, 0.8, 1.0, 1.7])
        y0, x0 = rng.uniform(-2, 2), rng.uniform(-2, 2)
        yield {"y_min": y0, "y_max": y0 + rng.uniform(0.1, 3.0) * scale, "x_min": x0, "x_max": x0 + rng.uniform(0.1, 3.0) * scale,
               "scale": scale, "seed": rng.randrange(10 ** 6)}


def _make_coord(coordinates, side_length, x_offset, y_offset, flipped):
    from autoarray.structures.triangles.coordinate_array import CoordinateArrayTriangles
    return CoordinateArrayTriangles(coordinates=coordinates.copy(), side_length=side_length, x_offset=x_offset,
                                    y_offset=y_offset, flipped=flipped)


def _nt_coord(coordinates, side_length, x_offset, y_offset, flipped, indexes, levels):
    par = (coordinates[:, 0] + coordinates[:, 1]) % 2
    return len(coordinates) >= 2 and par.min() != par.max()


# ----------------------------------------------------------------------------------------------- representation

@bounded("C20", "coordinate-representation", gen=_gen_coord, nontrivial=_nt_coord)
def coordinate_representation(coordinates, side_length, x_offset, y_offset, flipped, indexes, levels):
    """C20: 'the two representations of the same set describe the same triangles' -- CoordinateArrayTriangles
    (coordinates, side_length, offsets, flipped): .triangles are the lattice triangles of the integer coordinates
    (equilateral, side = side_length, alternating orientation), its (.vertices, .indices) / with_vertices(...) /
    ArrayTriangles(indices, vertices) give the same triangle for every row, len and area agree in both;
    bound: every single coordinate in [-2,2]^2 x flip + 350 (6000) seeded sets of <= 12 distinct coordinates in
    [-4,4]x[-3,3], 4 side lengths, 3 offsets per axis."""
    from autoarray.structures.triangles.array import ArrayTriangles
    c = _make_coord(coordinates, side_length, x_offset, y_offset, flipped)
    want = _coordinate_triangles(coordinates, side_length, x_offset, y_offset, flipped)
    got = np.asarray(c.triangles, float)
    ids = _Ids(1e-7 * side_length)
    if got.shape != want.shape or ids.tris(got) != ids.tris(want):
        return "triangles of the coordinate representation are not the lattice triangles: %r vs %r" % (got.tolist(), want.tolist())
    n = len(coordinates)
    geo = sum(_area(t) for t in want)
    if len(c) != n or abs(c.area - geo) > 1e-9 * geo:
        return "len/area of the coordinate representation: %r, %r; expected %d, %.12g" % (len(c), c.area, n, geo)
    for label, arr in (("ArrayTriangles(indices, vertices)", ArrayTriangles(indices=np.asarray(c.indices), vertices=np.asarray(c.vertices))),
                       ("with_vertices(vertices)", c.with_vertices(np.asarray(c.vertices)))):
        at = np.asarray(arr.triangles, float)
        if at.shape != want.shape or ids.tris(at) != ids.tris(want):
            return "%s does not describe the same triangles row by row" % label
        if len(arr) != n or abs(arr.area - geo) > 1e-9 * geo:
            return "%s: len/area %r, %r; expected %d, %.12g" % (label, len(arr), arr.area, n, geo)
    return None


# ----------------------------------------------------------------------------------------------- up-sampling

@bounded("C20", "upsample-coordinate", gen=_gen_coord, nontrivial=_nt_coord)
def upsample_coordinate(coordinates, side_length, x_offset, y_offset, flipped, indexes, levels):
    """C20: 'Up-sampling a triangle set replaces every triangle by four triangles of one quarter its area that exactly
    tile it, so total area is conserved, the count quadruples and every original vertex remains a vertex, in both ... the
    integer-coordinate representation' -- CoordinateArrayTriangles.up_sample (applied once, and twice for sets of <= 4
    triangles so that a flipped=True parent set is up-sampled too): children located by centroid in exactly one parent,
    4 per parent, area 1/4 each, vertices among parent vertices / edge midpoints, distinct, 8 interior sample points per
    parent covered; .area and len of the result; bound: as coordinate-representation."""
    from autoarray.structures.triangles.coordinate_array import CoordinateArrayTriangles
    c = _make_coord(coordinates, side_length, x_offset, y_offset, flipped)
    side = side_length
    for level in range(levels):
        parents = np.asarray(c.triangles, float)
        up = c.up_sample()
        if not isinstance(up, CoordinateArrayTriangles):
            return "up_sample returned %s" % type(up).__name__
        msg = _upsample_violation(parents, up.triangles, side, "level %d" % (level + 1))
        if msg:
            return msg
        total = sum(_area(t) for t in parents)
        if len(up) != 4 * len(parents) or abs(up.area - total) > 1e-9 * total or abs(c.area - total) > 1e-9 * total:
            return "level %d: len/area after up-sampling %r, %r; expected %d, %.12g" % (level + 1, len(up), up.area, 4 * len(parents), total)
        c, side = up, side / 2.0
    return None


def _array_from(y_min, y_max, x_min, x_max, scale):
    from autoarray.structures.triangles.array import ArrayTriangles
    return ArrayTriangles.for_limits_and_scale(y_min, y_max, x_min, x_max, scale)


def _coord_from(y_min, y_max, x_min, x_max, scale):
    from autoarray.structures.triangles.coordinate_array import CoordinateArrayTriangles
    return CoordinateArrayTriangles.for_limits_and_scale(x_min=x_min, x_max=x_max, y_min=y_min, y_max=y_max, scale=scale)


@bounded("C20", "upsample-array", gen=_gen_limits)
def upsample_array(y_min, y_max, x_min, x_max, scale, seed):
    """C20: 'Up-sampling a triangle set replaces every triangle by four triangles of one quarter its area that exactly
    tile it, so total area is conserved, the count quadruples and every original vertex remains a vertex, in ... the
    vertex-array ... representation' -- ArrayTriangles.for_limits_and_scale(...).up_sample(), and up_sample of the
    ArrayTriangles built from a CoordinateArrayTriangles.for_limits_and_scale set; same generic tiling oracle;
    bound: 8 fixed + 60 (1500) seeded limit boxes of <= ~3x3 cells (<= ~60 triangles)."""
    from autoarray.structures.triangles.array import ArrayTriangles
    c = _coord_from(y_min, y_max, x_min, x_max, scale)
    sets = [("for_limits_and_scale", _array_from(y_min, y_max, x_min, x_max, scale)),
            ("from coordinate set", ArrayTriangles(indices=np.asarray(c.indices), vertices=np.asarray(c.vertices)))]
    # "a triangle set" in the vertex-array representation need not be a lattice, and its vertices may be integers held in an
    # integer array (odd coordinate sums: the edge midpoints are half-integers)
    r = np.random.default_rng(seed)
    a, b = int(r.integers(1, 6)) * 2 + 1, int(r.integers(1, 6)) * 2 + 1
    oy, ox = int(r.integers(-4, 5)), int(r.integers(-4, 5))
    quad = np.array([[oy, ox], [oy + a, ox], [oy, ox + b], [oy + a, ox + b + 2]], dtype=np.int64)
    sets.append(("integer-dtype vertices", ArrayTriangles(indices=np.array([[0, 1, 2], [1, 3, 2]]), vertices=quad)))
    sets.append(("float copy of the integer vertices", ArrayTriangles(indices=np.array([[0, 1, 2], [1, 3, 2]]), vertices=quad.astype(float))))
    for label, t in sets:
        parents = np.asarray(t.triangles, float)
        if len(parents) == 0:
            continue
        if "integer" in label:
            scale = float(min(a, b))
        v0, i0 = np.array(t.vertices, copy=True), np.array(t.indices, copy=True)
        up = t.up_sample()
        if not np.array_equal(v0, t.vertices) or not np.array_equal(i0, t.indices):
            return "%s: up_sample modified the original set" % label
        if not isinstance(up, ArrayTriangles):
            return "%s: up_sample returned %s" % (label, type(up).__name__)
        msg = _upsample_violation(parents, up.triangles, scale, label)
        if msg:
            return msg
        total = sum(_area(p) for p in parents)
        if len(up) != 4 * len(parents) or abs(up.area - total) > 1e-9 * total or abs(t.area - total) > 1e-9 * total:
            return "%s: len/area after up-sampling %r, %r; expected %d, %.12g" % (label, len(up), up.area, 4 * len(parents), total)
        ids = _Ids(1e-7 * scale)
        used = {ids.id(v) for tri in np.asarray(up.triangles, float) for v in tri}
        for v in parents.reshape(-1, 2):
            if ids.id(v) not in used:
                return "%s: original vertex %r is no longer a vertex" % (label, v.tolist())
    return None


# ----------------------------------------------------------------------------------------------- neighbourhood

@bounded("C20", "neighborhood-coordinate", gen=_gen_coord, nontrivial=_nt_coord)
def neighborhood_coordinate(coordinates, side_length, x_offset, y_offset, flipped, indexes, levels):
    """C20: 'The neighbourhood of a set consists of every original triangle together with its three edge-reflected
    neighbours and nothing else' -- CoordinateArrayTriangles.neighborhood() (also of an up-sampled, i.e. flipped=True,
    set) and ArrayTriangles.neighborhood() of the same set: set equality of unordered vertex triples;
    bound: as coordinate-representation."""
    from autoarray.structures.triangles.array import ArrayTriangles
    c = _make_coord(coordinates, side_length, x_offset, y_offset, flipped)
    cases = [("coordinate", c, side_length)]
    if levels == 2:
        cases.append(("coordinate, after up_sample", c.up_sample(), side_length / 2.0))
    for label, s, side in cases:
        parents = np.asarray(s.triangles, float)
        for rep, nb in (("CoordinateArrayTriangles", s.neighborhood()),
                        ("ArrayTriangles", ArrayTriangles(indices=np.asarray(s.indices), vertices=np.asarray(s.vertices)).neighborhood())):
            ids = _Ids(1e-7 * side)
            want = _neighborhood_expected(parents, ids)
            got = set(ids.tris(nb.triangles))
            if got != want:
                inv = lambda keys: [[list(ids.pts[k]) for k in key] for key in sorted(keys)][:3]
                return "%s / %s: neighbourhood has %d distinct triangles, expected %d; missing %r, extra %r" % (
                    label, rep, len(got), len(want), inv(want - got), inv(got - want))
    return None


@bounded("C20", "neighborhood-array", gen=_gen_limits)
def neighborhood_array(y_min, y_max, x_min, x_max, scale, seed):
    """C20: 'The neighbourhood of a set consists of every original triangle together with its three edge-reflected
    neighbours and nothing else' -- ArrayTriangles.for_limits_and_scale(...) restricted to a seeded index subset
    (.for_indexes) then .neighborhood(); bound: limit boxes as upsample-array, subsets of <= 8 triangles."""
    t = _array_from(y_min, y_max, x_min, x_max, scale)
    n = len(t)
    if n == 0:
        return None
    rs = np.random.default_rng(seed)
    idx = np.sort(rs.choice(n, size=min(n, int(rs.integers(1, 9))), replace=False))
    sub = t.for_indexes(idx)
    parents = np.asarray(sub.triangles, float)
    ids = _Ids(1e-7 * scale)
    want = _neighborhood_expected(parents, ids)
    got = set(ids.tris(sub.neighborhood().triangles))
    if got != want:
        return "neighbourhood of triangles %r has %d distinct triangles, expected %d (missing %d, extra %d)" % (
            idx.tolist(), len(got), len(want), len(want - got), len(got - want))
    return None


# ----------------------------------------------------------------------------------------------- selection

@bounded("C20", "for-indexes", gen=_gen_coord,
         nontrivial=lambda coordinates, side_length, x_offset, y_offset, flipped, indexes, levels: 0 < len(indexes) < len(coordinates))
def for_indexes(coordinates, side_length, x_offset, y_offset, flipped, indexes, levels):
    """C20: 'Selecting triangles by index returns triangles geometrically identical to those selected' --
    CoordinateArrayTriangles.for_indexes and ArrayTriangles.for_indexes (index lists with repeats, unsorted, empty
    excluded): the result's triangles are, as a multiset of unordered vertex triples, the selected rows; selection from an
    up-sampled set as well; bound: as coordinate-representation, index lists of length 0..n."""
    from autoarray.structures.triangles.array import ArrayTriangles
    if len(indexes) == 0:
        return None
    c = _make_coord(coordinates, side_length, x_offset, y_offset, flipped)
    a = ArrayTriangles(indices=np.asarray(c.indices), vertices=np.asarray(c.vertices))
    base = np.asarray(c.triangles, float)
    ids = _Ids(1e-7 * side_length)
    want = sorted(ids.tris(base[indexes]))
    # the vertex-array representation with its vertices in ARBITRARY order (a cyclic shift of the rows: a permutation that is not its
    # own inverse), indices renumbered accordingly -- the same triangles; and a set straight from for_limits_and_scale
    V, I = np.asarray(c.vertices, float), np.asarray(c.indices)
    k = 1 + len(indexes) % max(1, len(V) - 1) if len(V) > 2 else 0
    perm = np.roll(np.arange(len(V)), k)                      # new row j holds old vertex perm[j]
    inv = np.empty(len(V), dtype=int); inv[perm] = np.arange(len(V))
    shuffled = ArrayTriangles(indices=inv[I], vertices=V[perm])
    for label, s in (("CoordinateArrayTriangles", c), ("ArrayTriangles", a), ("ArrayTriangles with cyclically shifted vertex rows", shuffled)):
        sel = s.for_indexes(indexes.copy())
        got = np.asarray(sel.triangles, float)
        if got.shape != (len(indexes), 3, 2) or sorted(ids.tris(got)) != want:
            return "%s.for_indexes(%r): %r, selected triangles are %r" % (label, indexes.tolist(), got.tolist(), base[indexes].tolist())
        if len(sel) != len(indexes):
            return "%s.for_indexes: len %d != %d" % (label, len(sel), len(indexes))
    up = c.up_sample()
    ub = np.asarray(up.triangles, float)
    idx2 = (indexes * 3 + 1) % len(ub)
    ids2 = _Ids(1e-7 * side_length / 2.0)
    got = np.asarray(up.for_indexes(idx2).triangles, float)
    if got.shape != (len(idx2), 3, 2) or sorted(ids2.tris(got)) != sorted(ids2.tris(ub[idx2])):
        return "for_indexes(%r) on the up-sampled set does not return the selected triangles" % (idx2.tolist(),)
    return None


# ----------------------------------------------------------------------------------------------- containment

def _shape_and_reference(aa, kind, px, py, r, rs):
    """(shape object, its reference point (x, y)) -- the reference point is computed here from the constructor arguments"""
    if kind == "point":
        from autoarray.structures.triangles.shape import Point
        return Point(px, py), (px, py)
    if kind == "circle":
        return aa.Circle(px, py, radius=r), (px, py)
    if kind == "square":
        return aa.Square(top=py - r, bottom=py + r, left=px - 1.5 * r, right=px + 1.5 * r), (px, py)
    ang = np.sort(rs.uniform(0, 2 * np.pi, size=3 if kind == "triangle" else 5))
    rad = rs.uniform(0.3 * r, r, size=len(ang))
    verts = [(px + float(rr * np.cos(t)), py + float(rr * np.sin(t))) for rr, t in zip(rad, ang)]
    ref = (float(np.mean([v[0] for v in verts])), float(np.mean([v[1] for v in verts])))
    if kind == "triangle":
        return aa.Triangle(*verts), ref
    return aa.Polygon(vertices=verts), ref


def _gen_contain(rng, tier):
    for coords, side, xo, yo, flipped in _coord_sets(rng, tier):
        # a circle whose centre sits in a corner of its triangle (3% .. 10% of the way from a vertex to the centroid) with a radius
        # between half the side and the centroid distance: the containing triangle must be reported although its centroid is
        # outside the circle
        tri = _coordinate_triangles(coords, side, xo, yo, flipped)[rng.randrange(len(coords))]
        cen = tri.mean(axis=0)
        v = tri[rng.randrange(3)]
        q = v + (cen - v) * rng.choice([0.03, 0.06, 0.1])
        yield {"coordinates": coords, "side_length": side, "x_offset": xo, "y_offset": yo, "flipped": flipped, "kind": "circle",
               "px": float(q[0]), "py": float(q[1]), "r": rng.choice([0.52, 0.54, 0.56]) * side, "seed": rng.randrange(10 ** 6)}
        for kind in ("point", "circle", "square", "triangle", "polygon"):
            # aim at (or near) one of the triangles so that hits are frequent
            k = rng.randrange(len(coords))
            cx, cy = coords[k]
            yield {"coordinates": coords, "side_length": side, "x_offset": xo, "y_offset": yo, "flipped": flipped, "kind": kind,
                   "px": 0.5 * side * cx + xo + rng.uniform(-0.6, 0.6) * side, "py": H * side * cy + yo + rng.uniform(-0.6, 0.6) * side,
                   # radii incl. the band between half the side and side/sqrt(3) (larger than the distance to the nearest edge for
                   # every interior point, smaller than the distance from a corner to the centroid)
                   "r": rng.choice([0.05, 0.3, 1.5, 0.52, 0.55, 0.57]) * side, "seed": rng.randrange(10 ** 6)}


@bounded("C20", "containing-indices", gen=_gen_contain,
         nontrivial=lambda coordinates, side_length, x_offset, y_offset, flipped, kind, px, py, r, seed: len(coordinates) >= 2)
def containing_indices(coordinates, side_length, x_offset, y_offset, flipped, kind, px, py, r, seed):
    """C20: 'a triangle is reported as containing a shape whenever the shape's reference point lies inside it' --
    containing_indices(shape) of CoordinateArrayTriangles, of the equivalent ArrayTriangles and of the up-sampled set,
    for Point, Circle, Square, Triangle, Polygon: every triangle whose interior holds the reference point (centre /
    vertex mean; barycentric coordinates >= 1e-9) must be among the reported indices, and reported indices are valid row
    numbers; nothing is demanded for triangles that do not hold the point; bound: as coordinate-representation x 5 shape
    kinds x 3 sizes."""
    import autoarray as aa
    from autoarray.structures.triangles.array import ArrayTriangles
    rs = np.random.default_rng(seed)
    shape, ref = _shape_and_reference(aa, kind, px, py, r, rs)
    c = _make_coord(coordinates, side_length, x_offset, y_offset, flipped)
    sets = [("CoordinateArrayTriangles", c),
            ("ArrayTriangles", ArrayTriangles(indices=np.asarray(c.indices), vertices=np.asarray(c.vertices))),
            ("up-sampled CoordinateArrayTriangles", c.up_sample())]
    for label, s in sets:
        tris = np.asarray(s.triangles, float)
        got = np.asarray(s.containing_indices(shape=shape))
        if got.ndim != 1 or (got.size and (got.min() < 0 or got.max() >= len(tris) or np.any(got != got.astype(int)))):
            return "%s: containing_indices returned invalid indices %r" % (label, got)
        reported = set(int(g) for g in got)
        for k, t in enumerate(tris):
            if _inside(t, ref, 1e-9) and k not in reported:
                return "%s: %s reference point %r lies inside triangle %d %r, reported indices %r" % (label, kind, ref, k, t.tolist(), sorted(reported))
    return None
