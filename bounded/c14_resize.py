"""C14 class layer: Array2D.resized_from / padded_before_convolution_from / trimmed_after_convolution_from,
Mask2D.resized_from / trimmed_array_from / zoom_*, Array2D.zoomed_around_mask and the automatic padding of Imaging
(bounded stand-in; see docs/BOUNDED_GUIDE.md).

Oracle ("centred"): per axis, output index a shows input index a + d for ONE offset d; the margins cut off (or padded) on the
two sides differ by at most one pixel, i.e. d is floor((n - m) / 2) or ceil((n - m) / 2) for input length n and target
length m (one value when n and m have the same parity).  Outside the input frame the output holds 0 (arrays) or the requested
pad value (masks).  This is what the statement promises; it is not the repo's `origin - int(m/2)` formula.  Coordinates are
the C02 closed formula y = o_y + ((H-1)/2 - i) s_y, x = o_x + (j - (W-1)/2) s_x evaluated on the INPUT frame."""
import numpy as np
from pyvc.bounded import bounded
from pyvc import gens

TOL = dict(rtol=1e-9, atol=1e-9)
_SCALES = [(1.0, 1.0), (2.0, 3.0), (0.5, 0.25), (0.1, 0.3), (1.7, 0.05)]
_ORIGINS = [(0.0, 0.0), (1.0, -2.0), (-0.35, 4.1), (3.0, -2.0), (-7.5, 0.125)]


def _geom(rng, k=None):
    if k is not None and k % 3:
        return _SCALES[k % 5], _ORIGINS[(k // 5 + k) % 5]
    return ((round(rng.uniform(0.05, 5.0), 3), round(rng.uniform(0.05, 5.0), 3)),
            (round(rng.uniform(-10.0, 10.0), 3), round(rng.uniform(-10.0, 10.0), 3)))


def _vals(rng, shape):
    """distinct, non-zero, signed values (so a shifted or transposed window can never match by accident)"""
    n = int(np.prod(shape))
    v = [(k + 1 + 0.25) * (1 if rng.random() < 0.5 else -1) for k in range(n)]
    rng.shuffle(v)
    return np.array(v, dtype=float).reshape(shape)


def _mask(rng, shape, p=None, min_unmasked=1):
    h, w = shape
    while True:
        q = p if p is not None else rng.choice([0.0, 0.2, 0.5, 0.8])
        m = np.array([[rng.random() < q for _ in range(w)] for _ in range(h)], dtype=bool)
        if (~m).sum() >= min_unmasked:
            return m


def _offsets(n, m):
    """admissible per-axis offsets d (output a <- input a + d) of a centred crop / embedding"""
    return sorted({(n - m) // 2, -((m - n) // 2)})


def _window(src, new_shape, dy, dx, pad):
    out = np.full(new_shape, pad, dtype=src.dtype)
    H, W = src.shape
    for a in range(new_shape[0]):
        for b in range(new_shape[1]):
            if 0 <= a + dy < H and 0 <= b + dx < W:
                out[a, b] = src[a + dy, b + dx]
    return out


def _coords(shape, scales, origin, new_shape, dy, dx):
    """coordinates, in the INPUT frame's coordinate system, of output pixel (a,b) = input pixel (a+dy, b+dx)"""
    H, W = shape
    a = np.arange(new_shape[0], dtype=float)[:, None] + np.zeros((1, new_shape[1]))
    b = np.arange(new_shape[1], dtype=float)[None, :] + np.zeros((new_shape[0], 1))
    return np.stack([origin[0] + ((H - 1) / 2.0 - (a + dy)) * scales[0], origin[1] + ((b + dx) - (W - 1) / 2.0) * scales[1]], axis=-1)


def _match(res_native, res_mask, values, mask, new_shape, pad_value):
    """the (dy,dx) for which result == centred window of the input, or None"""
    native_in = np.where(mask, 0.0, values)
    H, W = mask.shape
    for dy in _offsets(H, new_shape[0]):
        for dx in _offsets(W, new_shape[1]):
            want_mask = _window(mask, new_shape, dy, dx, bool(pad_value))
            want_native = np.where(want_mask, 0.0, _window(native_in, new_shape, dy, dx, 0.0))
            if np.array_equal(res_mask, want_mask) and np.array_equal(res_native, want_native):
                return dy, dx, want_mask, want_native
    return None


def _geometry_kept(label, mk, scales, origin):
    if tuple(float(v) for v in mk.origin) != tuple(origin) or tuple(float(v) for v in mk.pixel_scales) != tuple(scales):
        return "%s: origin %r / pixel_scales %r, input had %r / %r" % (label, tuple(mk.origin), tuple(mk.pixel_scales), origin, scales)
    return None


def _pairs_kept(label, res, shape, scales, origin, dy, dx, want_mask, want_native):
    """parity preserved: every pixel of the result has the coordinate it had in the input frame (repo grid of the result's own
    mask vs. the closed formula on the input frame), and the same value"""
    import autoarray as aa
    grid = aa.Grid2D.from_mask(mask=res.mask)
    want_xy = _coords(shape, scales, origin, want_mask.shape, dy, dx)[~want_mask]
    got_xy = np.asarray(grid.slim.array)
    if got_xy.shape != want_xy.shape or not np.allclose(got_xy, want_xy, **TOL):
        return "%s: scaled coordinates of the pixels moved: %r, in the input frame they are %r" % (label, got_xy.tolist(), want_xy.tolist())
    if not np.array_equal(np.asarray(res.slim.array), want_native[~want_mask]):
        return "%s: values no longer paired with their pixels: %r vs %r" % (label, np.asarray(res.slim.array).tolist(), want_native[~want_mask].tolist())
    return None


# ------------------------------------------------------------------------------------------------ resized_from


def _gen_resize(rng, tier):
    nmax, mmax = gens.budget(tier, 6, 7), gens.budget(tier, 8, 10)
    k = 0
    for rep in range(gens.budget(tier, 4, 30)):
        for H in range(1, nmax + 1):
            for W in range(1, nmax + 1):
                for h2 in range(1, mmax + 1):
                    for w2 in range(1, mmax + 1):
                        sc, og = _geom(rng, k)
                        k += 1
                        yield {"values": _vals(rng, (H, W)), "mask": _mask(rng, (H, W)), "new_shape": (h2, w2),
                               "mask_pad_value": k % 2, "store_native": bool((k // 2) % 2), "pixel_scales": sc, "origin": og}


def _nt_resize(values, mask, new_shape, **_):
    return mask.shape != tuple(new_shape) and 0 < mask.sum()


@bounded("C14", "array2d-resized-centred", gen=_gen_resize, nontrivial=_nt_resize)
def array2d_resized_centred(values, mask, new_shape, mask_pad_value, store_native, pixel_scales, origin):
    """C14: 'Resizing an array or mask to a new shape yields the centred crop, or the centred embedding padded with zeros
    (or the requested mask pad value), of the input ... When the parity of each dimension is preserved ... every surviving
    pixel keeps both its value and its scaled coordinate' -- Array2D.resized_from(new_shape, mask_pad_value) on masked
    arrays in both storage modes; bound: every input shape <= 6x6 (7x7) x every target shape <= 8x8 (10x10) (all parity
    combinations, crop/pad mixed per axis) x 4 (30) passes, random masks and signed values, anisotropic scales, non-zero origins."""
    import autoarray as aa
    mk = aa.Mask2D(mask=mask.copy(), pixel_scales=pixel_scales, origin=origin)
    arr = aa.Array2D(values=values.copy(), mask=mk, store_native=store_native)
    res = arr.resized_from(new_shape=new_shape, mask_pad_value=mask_pad_value)
    if tuple(res.shape_native) != tuple(new_shape):
        return "resized_from(%r).shape_native = %r" % (new_shape, tuple(res.shape_native))
    if bool(res.store_native) != store_native:
        return "storage mode changed by resized_from: store_native %r -> %r" % (store_native, res.store_native)
    res_native, res_mask = np.asarray(res.native.array), np.asarray(res.mask)
    hit = _match(res_native, res_mask, values, mask, tuple(new_shape), mask_pad_value)
    if hit is None:
        return "result is no centred crop/embedding of the input (offsets tried y:%r x:%r): native %r mask %r" % (
            _offsets(mask.shape[0], new_shape[0]), _offsets(mask.shape[1], new_shape[1]), res_native.tolist(), res_mask.astype(int).tolist())
    dy, dx, want_mask, want_native = hit
    if not np.array_equal(np.asarray(res.slim.array), want_native[~want_mask]):
        return "slim of the resized array != values of its unmasked pixels"
    msg = _geometry_kept("resized_from", res.mask, pixel_scales, origin)
    if msg:
        return msg
    if (mask.shape[0] - new_shape[0]) % 2 == 0 and (mask.shape[1] - new_shape[1]) % 2 == 0:
        return _pairs_kept("parity-preserving resized_from(%r)" % (tuple(new_shape),), res, mask.shape, pixel_scales, origin, dy, dx,
                           want_mask, want_native)
    return None


def _gen_mask_resize(rng, tier):
    k = 0
    for m in gens.all_masks(shapes=[(1, 1), (1, 2), (2, 1), (2, 2), (1, 3), (3, 1), (2, 3), (3, 2)] +
                            ([(3, 3), (2, 4), (4, 2)] if tier == "thorough" else [])):
        for new_shape in ((1, 1), (2, 2), (3, 3), (4, 4), (5, 5), (2, 5), (5, 2), (3, 4), (4, 3), (1, 6), (6, 1)):
            sc, og = _geom(rng, k)
            k += 1
            yield {"mask": m, "new_shape": new_shape, "pad_value": k % 2, "pixel_scales": sc, "origin": og}
    for _ in range(gens.budget(tier, 12000, 200000)):
        H, W = rng.randint(1, 7), rng.randint(1, 7)
        sc, og = _geom(rng)
        yield {"mask": _mask(rng, (H, W), min_unmasked=0), "new_shape": (rng.randint(1, 9), rng.randint(1, 9)),
               "pad_value": rng.randint(0, 1), "pixel_scales": sc, "origin": og}


@bounded("C14", "mask2d-resized-centred", gen=_gen_mask_resize,
         nontrivial=lambda mask, new_shape, **_: mask.shape != tuple(new_shape) and 0 < mask.sum() < mask.size)
def mask2d_resized_centred(mask, new_shape, pad_value, pixel_scales, origin):
    """C14: 'Resizing an array or mask to a new shape yields the centred crop, or the centred embedding padded with zeros (or
    the requested mask pad value), of the input ... enlarging then shrinking back loses nothing ... When the parity of each
    dimension is preserved ... every surviving pixel keeps ... its scaled coordinate' -- Mask2D.resized_from(new_shape,
    pad_value); bound: every mask of 8 (11) shapes <= 6 (9) cells x 11 targets + 12000 (200000) random masks <= 7x7 to random
    targets <= 9x9, pad value 0/1, masks with unmasked pixels on the outer ring included."""
    import autoarray as aa
    H, W = mask.shape
    mk = aa.Mask2D(mask=mask.copy(), pixel_scales=pixel_scales, origin=origin)
    res = mk.resized_from(new_shape=new_shape, pad_value=pad_value)
    got = np.asarray(res)
    if got.dtype != bool or got.shape != tuple(new_shape):
        return "resized mask has dtype %s shape %r" % (got.dtype, got.shape)
    hit = None
    for dy in _offsets(H, new_shape[0]):
        for dx in _offsets(W, new_shape[1]):
            if np.array_equal(got, _window(mask, tuple(new_shape), dy, dx, bool(pad_value))):
                hit = (dy, dx)
    if hit is None:
        return "resized mask is no centred crop/embedding with pad value %r: %r" % (pad_value, got.astype(int).tolist())
    msg = _geometry_kept("Mask2D.resized_from", res, pixel_scales, origin)
    if msg:
        return msg
    if (H - new_shape[0]) % 2 == 0 and (W - new_shape[1]) % 2 == 0 and (~got).any():
        want_xy = _coords(mask.shape, pixel_scales, origin, tuple(new_shape), hit[0], hit[1])[~got]
        got_xy = np.asarray(aa.Grid2D.from_mask(mask=res).slim.array)
        if got_xy.shape != want_xy.shape or not np.allclose(got_xy, want_xy, **TOL):
            return "parity-preserving Mask2D.resized_from moved pixel coordinates: %r vs %r" % (got_xy.tolist(), want_xy.tolist())
    if new_shape[0] >= H and new_shape[1] >= W:
        back = res.resized_from(new_shape=(H, W), pad_value=1 - pad_value)
        if not np.array_equal(np.asarray(back), mask):
            return "enlarge to %r then shrink back to %r changed the mask: %r" % (tuple(new_shape), (H, W), np.asarray(back).astype(int).tolist())
        msg = _geometry_kept("enlarge-then-shrink", back, pixel_scales, origin)
        if msg:
            return msg
    return None


# ------------------------------------------------------------------------------------------------ identities


def _gen_enlarge(rng, tier):
    nmax, grow = gens.budget(tier, 6, 7), gens.budget(tier, 4, 5)
    k = 0
    for rep in range(gens.budget(tier, 5, 40)):
        for H in range(1, nmax + 1):
            for W in range(1, nmax + 1):
                for gy in range(0, grow + 1):
                    for gx in range(0, grow + 1):
                        sc, og = _geom(rng, k)
                        k += 1
                        yield {"values": _vals(rng, (H, W)), "mask": _mask(rng, (H, W)), "big_shape": (H + gy, W + gx),
                               "mask_pad_value": k % 2, "store_native": bool((k // 2) % 2), "pixel_scales": sc, "origin": og}


@bounded("C14", "enlarge-then-shrink-identity", gen=_gen_enlarge,
         nontrivial=lambda values, mask, big_shape, **_: mask.shape != tuple(big_shape) and 0 < mask.sum())
def enlarge_then_shrink_identity(values, mask, big_shape, mask_pad_value, store_native, pixel_scales, origin):
    """C14: 'enlarging then shrinking back loses nothing' -- Array2D.resized_from(bigger).resized_from(original shape) returns
    the same values, mask, pixel scales, origin and therefore the same (coordinate, value) pairs; bound: every shape <= 6x6
    (7x7) enlarged by 0..4 (0..5) pixels per axis independently (every parity combination) x 5 (40) passes, masked arrays, both
    storage modes, mask pad value 0/1."""
    import autoarray as aa
    mk = aa.Mask2D(mask=mask.copy(), pixel_scales=pixel_scales, origin=origin)
    arr = aa.Array2D(values=values.copy(), mask=mk, store_native=store_native)
    big = arr.resized_from(new_shape=big_shape, mask_pad_value=mask_pad_value)
    back = big.resized_from(new_shape=mask.shape, mask_pad_value=1 - mask_pad_value)
    if tuple(back.shape_native) != mask.shape:
        return "shape after enlarge/shrink: %r" % (tuple(back.shape_native),)
    if not np.array_equal(np.asarray(back.mask), mask):
        return "mask changed by enlarge(%r)/shrink: %r" % (tuple(big_shape), np.asarray(back.mask).astype(int).tolist())
    if not np.array_equal(np.asarray(back.native.array), np.where(mask, 0.0, values)):
        return "values changed by enlarge(%r)/shrink: %r" % (tuple(big_shape), np.asarray(back.native.array).tolist())
    if not np.array_equal(np.asarray(back.slim.array), values[~mask]):
        return "slim values changed by enlarge/shrink"
    msg = _geometry_kept("enlarge-then-shrink", back.mask, pixel_scales, origin)
    if msg:
        return msg
    return _pairs_kept("enlarge-then-shrink", back, mask.shape, pixel_scales, origin, 0, 0, mask, np.where(mask, 0.0, values))


_KERNELS = [(1, 1), (3, 3), (1, 3), (3, 1), (5, 3), (3, 5), (5, 5), (1, 5), (7, 3), (3, 7), (7, 7), (5, 1)]


def _gen_padtrim(rng, tier):
    nmax = gens.budget(tier, 6, 8)
    k = 0
    for rep in range(gens.budget(tier, 7, 60)):
        for H in range(1, nmax + 1):
            for W in range(1, nmax + 1):
                for ks in _KERNELS:
                    sc, og = _geom(rng, k)
                    k += 1
                    yield {"values": _vals(rng, (H, W)), "mask": _mask(rng, (H, W)), "kernel_shape": ks,
                           "mask_pad_value": k % 2, "store_native": bool((k // 2) % 2), "pixel_scales": sc, "origin": og}


@bounded("C14", "pad-then-trim-identity", gen=_gen_padtrim,
         nontrivial=lambda values, mask, kernel_shape, **_: tuple(kernel_shape) != (1, 1) and kernel_shape[0] != kernel_shape[1]
         and 0 < mask.sum())
def pad_then_trim_identity(values, mask, kernel_shape, mask_pad_value, store_native, pixel_scales, origin):
    """C14: 'padding for an odd kernel followed by trimming for the same kernel is the identity ... in particular PSF
    padding ... every surviving pixel keeps both its value and its scaled coordinate' -- Array2D.padded_before_convolution_from
    (shape n+k-1, centred embedding, zeros / mask pad value outside), then trimmed_after_convolution_from and
    Mask2D.trimmed_array_from give back the input; bound: every shape <= 6x6 (8x8) x 12 odd kernel shapes (1..7 per axis,
    non-square) x 7 (60) passes of random masks/values, both storage modes, pad value 0/1, anisotropic scales, non-zero origins."""
    import autoarray as aa
    H, W = mask.shape
    ky, kx = kernel_shape
    mk = aa.Mask2D(mask=mask.copy(), pixel_scales=pixel_scales, origin=origin)
    arr = aa.Array2D(values=values.copy(), mask=mk, store_native=store_native)
    pad = arr.padded_before_convolution_from(kernel_shape=kernel_shape, mask_pad_value=mask_pad_value)
    new_shape = (H + ky - 1, W + kx - 1)
    if tuple(pad.shape_native) != new_shape:
        return "padded shape %r, expected %r" % (tuple(pad.shape_native), new_shape)
    dy, dx = -(ky - 1) // 2, -(kx - 1) // 2                           # parity preserved: the only centred embedding
    want_mask = _window(mask, new_shape, dy, dx, bool(mask_pad_value))
    want_native = np.where(want_mask, 0.0, _window(np.where(mask, 0.0, values), new_shape, dy, dx, 0.0))
    if not np.array_equal(np.asarray(pad.mask), want_mask):
        return "padded mask is not the centred embedding with pad value %r: %r" % (mask_pad_value, np.asarray(pad.mask).astype(int).tolist())
    if not np.array_equal(np.asarray(pad.native.array), want_native):
        return "padded array is not the centred zero embedding: %r" % (np.asarray(pad.native.array).tolist(),)
    msg = _geometry_kept("padded_before_convolution_from", pad.mask, pixel_scales, origin) or \
        _pairs_kept("padded_before_convolution_from", pad, mask.shape, pixel_scales, origin, dy, dx, want_mask, want_native)
    if msg:
        return msg
    trim = pad.trimmed_after_convolution_from(kernel_shape=kernel_shape)
    if tuple(trim.shape_native) != (H, W) or not np.array_equal(np.asarray(trim.mask), mask):
        return "pad then trim: shape %r mask %r" % (tuple(trim.shape_native), np.asarray(trim.mask).astype(int).tolist())
    if not np.array_equal(np.asarray(trim.native.array), np.where(mask, 0.0, values)) or \
            not np.array_equal(np.asarray(trim.slim.array), values[~mask]):
        return "pad then trim changed the values: %r" % (np.asarray(trim.native.array).tolist(),)
    if bool(trim.store_native) != store_native:
        return "pad then trim changed the storage mode"
    msg = _geometry_kept("pad then trim", trim.mask, pixel_scales, origin) or \
        _pairs_kept("pad then trim", trim, mask.shape, pixel_scales, origin, 0, 0, mask, np.where(mask, 0.0, values))
    if msg:
        return msg
    t2 = pad.mask.trimmed_array_from(padded_array=pad, image_shape=(H, W))
    if tuple(t2.shape_native) != (H, W) or not np.array_equal(np.asarray(t2.native.array), np.where(mask, 0.0, values)):
        return "Mask2D.trimmed_array_from(padded, image_shape) != input: %r" % (np.asarray(t2.native.array).tolist(),)
    msg = _geometry_kept("Mask2D.trimmed_array_from", t2.mask, pixel_scales, origin)
    if msg:
        return msg
    # trimming on its own is the centred crop with (k-1)/2 pixels removed on every side
    if H > ky - 1 and W > kx - 1:
        cut = arr.trimmed_after_convolution_from(kernel_shape=kernel_shape)
        cs = (H - ky + 1, W - kx + 1)
        wm = _window(mask, cs, (ky - 1) // 2, (kx - 1) // 2, True)
        wn = np.where(wm, 0.0, _window(np.where(mask, 0.0, values), cs, (ky - 1) // 2, (kx - 1) // 2, 0.0))
        if tuple(cut.shape_native) != cs or not np.array_equal(np.asarray(cut.mask), wm) or not np.array_equal(np.asarray(cut.native.array), wn):
            return "trimmed_after_convolution_from(%r) is not the centred crop: %r" % (tuple(kernel_shape), np.asarray(cut.native.array).tolist())
        msg = _geometry_kept("trimmed_after_convolution_from", cut.mask, pixel_scales, origin)
        if msg:
            return msg
        if (~wm).any():
            return _pairs_kept("trimmed_after_convolution_from", cut, mask.shape, pixel_scales, origin, (ky - 1) // 2, (kx - 1) // 2, wm, wn)
    return None


# ------------------------------------------------------------------------------------------------ Imaging


def _gen_imaging(rng, tier):
    k = 0
    kernels = [(3, 3), (1, 3), (3, 1), (5, 3), (3, 5), (5, 5), (1, 1)]
    for rep in range(gens.budget(tier, 9, 100)):
        for H in range(1, 7):
            for W in range(1, 7):
                for ks in kernels:
                    sc, og = _geom(rng, k)
                    k += 1
                    r = rng.random()
                    if r < 0.5:
                        m = _mask(rng, (H, W), p=rng.choice([0.3, 0.6, 0.85]))        # unmasked pixels anywhere, incl. the outer ring
                    else:                                                              # a masked frame of random thickness: often no padding
                        m = np.ones((H, W), dtype=bool)
                        ty, tx = rng.randint(0, 2), rng.randint(0, 2)
                        inner = _mask(rng, (max(H - 2 * ty, 1), max(W - 2 * tx, 1)), p=0.3)
                        if H - 2 * ty >= 1 and W - 2 * tx >= 1:
                            m[ty:H - ty, tx:W - tx] = inner
                        else:
                            m = _mask(rng, (H, W), p=0.5)
                    noise = np.array([[round(rng.uniform(0.1, 3.0), 3) for _ in range(W)] for _ in range(H)])
                    psf = np.array([[round(rng.uniform(0.1, 1.0), 3) for _ in range(ks[1])] for _ in range(ks[0])])
                    yield {"data": _vals(rng, (H, W)), "noise": noise, "mask": m, "psf": psf, "pixel_scales": sc, "origin": og,
                           "via_apply_mask": bool(k % 2)}


def _nt_imaging(data, noise, mask, psf, **_):
    # non-trivial = the blurring region leaves the frame on at least one side (padding has to happen)
    H, W = mask.shape
    ry, rx = (psf.shape[0] - 1) // 2, (psf.shape[1] - 1) // 2
    ys, xs = np.nonzero(~mask)
    return bool(ys.min() < ry or ys.max() > H - 1 - ry or xs.min() < rx or xs.max() > W - 1 - rx)


@bounded("C14", "imaging-auto-padding-triples", gen=_gen_imaging, nontrivial=_nt_imaging)
def imaging_auto_padding_triples(data, noise, mask, psf, pixel_scales, origin, via_apply_mask):
    """C14: 'When the parity of each dimension is preserved - in particular PSF padding and the automatic padding performed
    when a mask is applied to imaging data whose blurring region leaves the frame - every surviving pixel keeps both its value
    and its scaled coordinate, so the (coordinate, data, noise) triples of unmasked pixels are unchanged' -- Imaging.apply_mask
    and Imaging(..., pad_for_convolver=True): .data, .noise_map, .grids.uniform / .grid, .mask, and the dataset-level
    trimmed_after_convolution_from; bound: every shape <= 6x6 x 7 odd PSF shapes <= 5x5 x 9 (100) passes of random masks
    (unmasked pixels on the outer ring and masks needing no padding), anisotropic scales, non-zero origins."""
    import autoarray as aa
    H, W = mask.shape
    ky, kx = psf.shape
    cyx = _coords(mask.shape, pixel_scales, origin, mask.shape, 0, 0)
    want = np.concatenate([cyx[~mask], data[~mask][:, None], noise[~mask][:, None]], axis=1)       # rows (y, x, data, noise)
    mk = aa.Mask2D(mask=mask.copy(), pixel_scales=pixel_scales, origin=origin)
    kernel = aa.Kernel2D.no_mask(values=psf.copy(), pixel_scales=pixel_scales)
    if via_apply_mask:
        full = aa.Imaging(data=aa.Array2D.no_mask(values=data.copy(), pixel_scales=pixel_scales, origin=origin),
                          noise_map=aa.Array2D.no_mask(values=noise.copy(), pixel_scales=pixel_scales, origin=origin), psf=kernel)
        ds = full.apply_mask(mask=mk)
        how = "Imaging.apply_mask"
    else:
        ds = aa.Imaging(data=aa.Array2D(values=data.copy(), mask=mk), noise_map=aa.Array2D(values=noise.copy(), mask=mk),
                        psf=kernel, pad_for_convolver=True)
        how = "Imaging(pad_for_convolver=True)"

    def triples(d, label):
        shp = tuple(d.data.shape_native)
        if shp != tuple(d.noise_map.shape_native) or shp != tuple(d.mask.shape_native):
            return None, "%s: data %r, noise-map %r and mask %r have different shapes" % (label, shp, tuple(d.noise_map.shape_native), tuple(d.mask.shape_native))
        if not np.array_equal(np.asarray(d.data.mask), np.asarray(d.noise_map.mask)):
            return None, "%s: data and noise-map carry different masks" % label
        g = np.asarray(d.grids.uniform.slim.array)
        g2 = np.asarray(d.grid.slim.array)
        dv, nv = np.asarray(d.data.slim.array), np.asarray(d.noise_map.slim.array)
        if g.shape != (dv.shape[0], 2) or nv.shape != dv.shape or not np.array_equal(g, g2):
            return None, "%s: grid %r / data %r / noise %r lengths differ" % (label, g.shape, dv.shape, nv.shape)
        return np.concatenate([g, dv[:, None], nv[:, None]], axis=1), None

    got, msg = triples(ds, how)
    if msg:
        return msg
    if via_apply_mask and int((~mask).sum()) >= 2:
        # the same mask reached through a chain of re-maskings (mask A hides one more pixel, mask B hides nothing, then the mask):
        # every apply_mask starts from the unmasked data, so the triples are those of applying the mask directly
        A = mask.copy()
        ys_, xs_ = np.nonzero(~mask)
        A[ys_[0], xs_[0]] = True
        B = np.zeros(mask.shape, dtype=bool)
        try:
            chain = full.apply_mask(mask=aa.Mask2D(mask=A, pixel_scales=pixel_scales, origin=origin)) \
                .apply_mask(mask=aa.Mask2D(mask=B, pixel_scales=pixel_scales, origin=origin)) \
                .apply_mask(mask=aa.Mask2D(mask=mask.copy(), pixel_scales=pixel_scales, origin=origin))
        except Exception as e:
            return "apply_mask(A).apply_mask(B).apply_mask(mask) raised %s: %s (a single apply_mask(mask) works)" % (type(e).__name__, str(e)[:200])
        got_c, msg = triples(chain, "apply_mask(A).apply_mask(B).apply_mask(mask)")
        if msg:
            return msg
        if got_c.shape != got.shape or not np.array_equal(got_c, got):
            return "apply_mask(A).apply_mask(B).apply_mask(mask): triples %r differ from those of apply_mask(mask) %r" % (got_c.tolist(), got.tolist())
    shp = tuple(ds.data.shape_native)
    if shp not in ((H, W), (H + ky - 1, W + kx - 1)):
        return "%s: dataset shape %r is neither the input shape %r nor the PSF-padded shape %r" % (how, shp, (H, W), (H + ky - 1, W + kx - 1))
    if got.shape != want.shape or not np.allclose(got, want, **TOL) or not np.array_equal(got[:, 2:], want[:, 2:]):
        return "%s (shape %r -> %r): (y, x, data, noise) triples of the unmasked pixels changed: %r, expected %r" % (
            how, (H, W), shp, got.tolist(), want.tolist())
    # native view: data sits where the mask says it does
    dn, dm = np.asarray(ds.data.native.array), np.asarray(ds.mask)
    if int((~dm).sum()) != int((~mask).sum()) or not np.array_equal(dn[~dm], data[~mask]) or np.any(dn[dm] != 0.0):
        return "%s: native data is not the masked data at the mask's unmasked positions" % how
    if shp != (H, W):
        back = ds.trimmed_after_convolution_from(kernel_shape=(ky, kx))
        got_b, msg = triples(back, how + " then trimmed_after_convolution_from")
        if msg:
            return msg
        if tuple(back.data.shape_native) != (H, W) or not np.array_equal(np.asarray(back.data.mask), mask):
            return "%s then trimmed_after_convolution_from: shape %r / mask differ from the input" % (how, tuple(back.data.shape_native))
        if not np.array_equal(got_b[:, 2:], want[:, 2:]) or not np.allclose(got_b, want, **TOL):
            return "%s then trimmed_after_convolution_from: triples changed: %r, expected %r" % (how, got_b.tolist(), want.tolist())
    return None


# ------------------------------------------------------------------------------------------------ zoom


def _gen_zoom(rng, tier):
    k = 0
    for m in gens.all_masks(shapes=[(1, 1), (1, 2), (2, 1), (2, 2), (1, 4), (4, 1), (2, 3), (3, 2)] +
                            ([(3, 3), (2, 5), (5, 2)] if tier == "thorough" else []), min_unmasked=1):
        for buffer in (0, 1, 2):
            sc, og = _geom(rng, k)
            k += 1
            yield {"values": _vals(rng, m.shape), "mask": m, "buffer": buffer, "pixel_scales": sc, "origin": og}
    for _ in range(gens.budget(tier, 2500, 50000)):
        H, W = rng.randint(1, 9), rng.randint(1, 9)
        m = _mask(rng, (H, W), p=rng.choice([0.2, 0.6, 0.9, 0.97]))
        sc, og = _geom(rng)
        yield {"values": _vals(rng, (H, W)), "mask": m, "buffer": rng.randint(0, 3), "pixel_scales": sc, "origin": og}


def _nt_zoom(values, mask, buffer, **_):
    ys, xs = np.nonzero(~mask)
    return bool(mask.any() and (ys.max() - ys.min()) != (xs.max() - xs.min()))


@bounded("C14", "zoom-window-contains-unmasked", gen=_gen_zoom, nontrivial=_nt_zoom)
def zoom_window_contains_unmasked(values, mask, buffer, pixel_scales, origin):
    """C14: 'Zooming around a mask returns a window containing every unmasked pixel with its value' -- Mask2D.zoom_region /
    zoom_shape_native / zoom_mask_unmasked and Array2D.zoomed_around_mask(buffer): the result is one translated window of the
    native array (rows/columns beyond the frame unconstrained) that shows every unmasked pixel with its value; bound: every
    mask of 8 (11) shapes <= 6 (10) cells x buffers 0,1,2 + 2500 (50000) random masks <= 9x9 (bounding boxes touching the frame,
    strongly non-square boxes whose square zoom region leaves the frame), buffers 0..3, distinct signed values."""
    import autoarray as aa
    from bounded.c10_mask_sets import _edited_in_place
    mk = aa.Mask2D(mask=mask.copy(), pixel_scales=pixel_scales, origin=origin)
    # also for a Mask2D edited in place after its zoom region had been asked for, and for an edited copy
    return _edited_in_place(lambda mk_, mask_: _zoom_of(aa, mk_, mask_, values, buffer), mk, mask)


def _zoom_of(aa, mk, mask, values, buffer):
    H, W = mask.shape
    ys, xs = np.nonzero(~mask)
    y0, y1, x0, x1 = [int(v) for v in mk.zoom_region]
    if not (y0 <= ys.min() and ys.max() < y1 and x0 <= xs.min() and xs.max() < x1):
        return "zoom_region %r does not contain the unmasked bounding box rows %d..%d cols %d..%d" % (
            [y0, y1, x0, x1], ys.min(), ys.max(), xs.min(), xs.max())
    zs = tuple(int(v) for v in mk.zoom_shape_native)
    if zs != (y1 - y0, x1 - x0):
        return "zoom_shape_native %r is not the shape of zoom_region %r" % (zs, [y0, y1, x0, x1])
    if tuple(mk.zoom_mask_unmasked.shape_native) != zs or np.asarray(mk.zoom_mask_unmasked).any():
        return "zoom_mask_unmasked is not an unmasked mask of zoom_shape_native"
    arr = aa.Array2D(values=values.copy(), mask=mk)
    z = arr.zoomed_around_mask(buffer=buffer)
    out = np.asarray(z.native.array)
    native = np.where(mask, 0.0, values)
    # a window is a translate: out[a,b] = native[a+dy, b+dx]; the first unmasked pixel carries a unique non-zero value
    where = np.argwhere(out == values[ys[0], xs[0]])
    if where.shape[0] != 1:
        return "unmasked pixel (%d,%d) with value %r appears %d times in the zoomed array %r" % (
            ys[0], xs[0], values[ys[0], xs[0]], where.shape[0], out.tolist())
    dy, dx = int(ys[0] - where[0][0]), int(xs[0] - where[0][1])
    for y, x in zip(ys, xs):
        a, b = y - dy, x - dx
        if not (0 <= a < out.shape[0] and 0 <= b < out.shape[1]) or out[a, b] != values[y, x]:
            return "unmasked pixel (%d,%d) value %r is missing from the zoom window (offset %r, buffer %d): %r" % (
                y, x, values[y, x], (dy, dx), buffer, out.tolist())
    for a in range(out.shape[0]):
        for b in range(out.shape[1]):
            if 0 <= a + dy < H and 0 <= b + dx < W and out[a, b] != native[a + dy, b + dx]:
                return "zoomed array is not a window of the native array at (%d,%d): %r" % (a, b, out.tolist())
    if not np.array_equal(np.asarray(z.slim.array), out.reshape(-1)):
        return "zoomed array slim != its native values"
    if out.shape[0] < (ys.max() - ys.min() + 1) + 2 * 0 or out.shape[1] < (xs.max() - xs.min() + 1):
        return "zoom window %r smaller than the unmasked bounding box" % (out.shape,)
    return None
