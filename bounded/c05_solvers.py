"""C05 solver layer: fnnls_cholesky, reconstruction_positive_only_from / reconstruction_positive_negative_from and the
`aa.Inversion` reconstruction / mapped-reconstructed-data bookkeeping (bounded stand-in; see docs/BOUNDED_GUIDE.md).

Oracles (all written from the property statement):
  * KKT certificate of  min 1/2 s^T A s - b^T s  s.t. s >= 0 :  s >= 0,  g = A s - b,  |g_i| ~ 0 where s_i > 0,
    g_i >= -tol where s_i = 0.  tol = 1e-9 * max_i(sum_j |A_ij||s_j| + |b_i|): the solver solves its reduced systems by a
    backward-stable Cholesky, so a correct answer has |g| ~ 1e-15 of that scale; 1e-9 leaves six orders of magnitude.
  * an independent enumeration oracle: for n <= 8 all 2^n supports are solved with numpy and the feasible one with the
    smallest objective is the constrained optimum (A is SPD, so the optimum is the least-squares solution on its support).
Generators keep cond(A) <= 1e6 so that "to numerical precision" is unambiguous.
"""
import itertools
import numpy as np
from pyvc.bounded import bounded
from pyvc import gens


# ----------------------------------------------------------------------------------------------------------------------
# oracles
# ----------------------------------------------------------------------------------------------------------------------

def _objective(A, b, s):
    return 0.5 * float(s @ A @ s) - float(b @ s)


def _enum_oracle(A, b):
    """constrained optimum by enumeration of all supports (n <= 8)"""
    n = len(b)
    best = None
    for bits in range(2 ** n):
        S = [i for i in range(n) if (bits >> i) & 1]
        s = np.zeros(n)
        if S:
            s[S] = np.linalg.solve(A[np.ix_(S, S)], b[S])
        if (s < 0).any():
            continue
        f = _objective(A, b, s)
        if best is None or f < best[0]:
            best = (f, s)
    return best[1]


def _gscale(A, b, s):
    return float(np.max(np.abs(A) @ np.abs(s) + np.abs(b))) + 1e-300


def _kkt_message(A, b, s, label):
    """None if s carries the KKT certificate of the statement, else a message"""
    n = len(b)
    s = np.asarray(s, dtype=float)
    if s.shape != (n,):
        return "%s: solution has shape %r, expected (%d,)" % (label, s.shape, n)
    if not np.all(np.isfinite(s)):
        return "%s: solution not finite: %r" % (label, s)
    if (s < 0).any():
        return "%s: s has negative entries: %r" % (label, s)
    g = A @ s - b
    tol = 1e-9 * _gscale(A, b, s)
    pos = s > 0
    if pos.any() and np.max(np.abs(g[pos])) > tol:
        return "%s: gradient (F+H)s-D does not vanish on the positive entries: s=%r g=%r tol=%.3g" % (label, s, g, tol)
    if (~pos).any() and np.min(g[~pos]) < -tol:
        return ("%s: gradient (F+H)s-D negative on a zero entry (objective can still be lowered): s=%r g=%r tol=%.3g"
                % (label, s, g, tol))
    return None


def _optimum_message(A, b, s, label):
    msg = _kkt_message(A, b, s, label)
    if msg is not None:
        if len(b) <= 8:
            msg += " ; optimum by enumeration = %r" % (_enum_oracle(A, b),)
        return msg
    if len(b) <= 8:
        so = _enum_oracle(A, b)
        fs, fo = _objective(A, b, s), _objective(A, b, so)
        fscale = 0.5 * float(np.abs(so) @ np.abs(A) @ np.abs(so)) + float(np.abs(b) @ np.abs(so)) + _gscale(A, b, so)
        if fs > fo + 1e-9 * fscale:
            return "%s: objective %.12g above the enumerated optimum %.12g (s=%r, optimum=%r)" % (label, fs, fo, s, so)
        # unique minimiser; cond(A) <= 1e6 -> LS solutions on a support agree to ~1e-10 relative
        if np.max(np.abs(s - so)) > 1e-6 * (1.0 + np.max(np.abs(so))):
            return "%s: solution %r differs from the enumerated unique minimiser %r" % (label, s, so)
    return None


# ----------------------------------------------------------------------------------------------------------------------
# SPD system generators
# ----------------------------------------------------------------------------------------------------------------------

_MIN_A = np.array([[2.0, -1.0, -1.0], [-1.0, 2.0, 0.0], [-1.0, 0.0, 2.0]])


def _tiny_integer_systems(tier):
    """all systems with diag 2, off-diagonals in {-1,0,1}, integer right-hand sides (includes exact ties)"""
    yield {"A": _MIN_A.copy(), "b": np.array([0.0, -1.0, 1.0])}          # smallest system found for the warm start
    # exact tie (D_p = 0 on the guessed positive set): the warm start loops until its iteration limit
    yield {"A": np.array([[2.0, -1.0, 0.0], [-1.0, 2.0, 1.0], [0.0, 1.0, 2.0]]), "b": np.array([1.0, -2.0, 0.0])}
    yield {"A": np.array([[2.0]]), "b": np.array([1.0])}
    yield {"A": np.array([[2.0]]), "b": np.array([-1.0])}
    for a in (-1.0, 0.0, 1.0):
        for b in itertools.product((-1.0, 0.5, 1.0), repeat=2):
            yield {"A": np.array([[2.0, a], [a, 2.0]]), "b": np.array(b)}
    rhs = (-2.0, -1.0, 1.0, 2.0) if tier == "thorough" else (-1.0, 0.5, 1.5)
    for a, c, d in itertools.product((-1.0, 0.0, 1.0), repeat=3):
        A = np.array([[2.0, a, c], [a, 2.0, d], [c, d, 2.0]])
        if np.linalg.eigvalsh(A).min() <= 0.1:
            continue
        for b in itertools.product(rhs, repeat=3):
            yield {"A": A.copy(), "b": np.array(b)}


def _random_system(nrng, n):
    """Gram matrix of a seeded design plus ridge / neighbour-difference regularization; rhs positive, zero-mean or negative"""
    m = int(nrng.integers(max(1, n - 2), n + 5))
    if nrng.random() < 0.6:
        Z = nrng.random((m, n)) * (nrng.random((m, n)) < 0.6)          # sparse non-negative, like a mapping matrix
    else:
        Z = nrng.normal(size=(m, n))
    lam = float(nrng.choice([0.05, 0.3, 1.0]))
    if nrng.random() < 0.5 or n < 2:
        H = lam * np.eye(n)
    else:                                                               # chain neighbour differences + small ridge
        H = np.zeros((n, n))
        for i in range(n - 1):
            H[i, i] += lam; H[i + 1, i + 1] += lam; H[i, i + 1] -= lam; H[i + 1, i] -= lam
        H += 1e-3 * np.eye(n)
    A = Z.T @ Z + H
    A = 0.5 * (A + A.T)
    while np.linalg.cond(A) > 1e6:
        A = A + 0.1 * np.eye(n)
    kind = int(nrng.integers(0, 4))
    if kind == 0:
        x = np.abs(nrng.normal(size=m)) + 1.0                           # positive data
    elif kind == 1:
        x = nrng.normal(size=m)                                         # zero-mean (noise dominated)
    elif kind == 2:
        x = -np.abs(nrng.normal(size=m)) - 0.5 + nrng.normal(size=m)    # negative-valued data
    else:
        x = None
    b = Z.T @ x if x is not None else nrng.normal(size=n) * 3.0        # kind 3: arbitrary right-hand side
    scale = float(nrng.choice([1.0, 1.0, 1e-3, 1e3]))
    # matrix and solution magnitudes independently (data in physical units: inverse variances of 1e12, fluxes of 1e-4): the
    # optimum of (alpha A, alpha beta b) is beta times the optimum of (A, b)
    alpha = float(nrng.choice([1.0, 1.0, 1e6, 1e12]))
    beta = float(nrng.choice([1.0, 1.0, 1e-4]))
    return {"A": A * scale * alpha, "b": b * scale * alpha * beta}


def _gen_systems(rng, tier):
    for case in _tiny_integer_systems(tier):
        yield case
    nrng = gens.np_rng(rng)
    for k in range(gens.budget(tier, 2400, 40000)):
        n = 1 + (k % 8)
        yield _random_system(nrng, n)


def _constraint_active(A, b, **_):
    try:
        return bool((np.linalg.solve(A, b) < 0).any())
    except np.linalg.LinAlgError:
        return False


# ----------------------------------------------------------------------------------------------------------------------
# the solver routine itself
# ----------------------------------------------------------------------------------------------------------------------

@bounded("C05", "fnnls-kkt-cold-start", gen=_gen_systems, nontrivial=_constraint_active)
def fnnls_kkt_cold_start(A, b):
    """C05: 'with the positive-only solver s is the unique minimiser of (1/2) s^T(F+H)s - D^T s subject to s >= 0 (s is
    non-negative, the gradient (F+H)s - D vanishes on its positive entries and is non-negative on its zero entries)
    ... also the solver routine on arbitrary SPD matrices and right-hand sides' -- fnnls_cholesky WITHOUT P_initial;
    bound: all 3x3 systems with diag 2, off-diagonals {-1,0,1}, small rhs grid + 2400 (40000) seeded Gram+ridge systems
    of size 1..8, cond <= 1e6; compared with the 2^n support enumeration."""
    from autoarray.util.fnnls import fnnls_cholesky
    A1, b1 = A.copy(), b.copy()
    s = fnnls_cholesky(A1, b1)
    if not (np.array_equal(A1, A) and np.array_equal(b1, b)):
        return "fnnls_cholesky(cold) changed the matrix / right-hand side it was given (the caller's F+H and D)"
    return _optimum_message(A, b, s, "fnnls_cholesky(cold)")


@bounded("C05", "fnnls-kkt-warm-start", gen=_gen_systems, nontrivial=_constraint_active)
def fnnls_kkt_warm_start(A, b):
    """C05: '... s is the unique minimiser ... subject to s >= 0 ... whether or not the warm-start guess of the positive
    set is enabled' -- fnnls_cholesky with P_initial = (unconstrained solution > 0), exactly as
    reconstruction_positive_only_from passes it; same bound as the cold-start check."""
    from autoarray.util.fnnls import fnnls_cholesky
    P_initial = np.linalg.solve(A, b) > 0
    A1, b1 = A.copy(), b.copy()
    try:
        s = fnnls_cholesky(A1, b1, P_initial=P_initial)
        if not (np.array_equal(A1, A) and np.array_equal(b1, b)):
            return "fnnls_cholesky(warm) changed the matrix / right-hand side it was given (the caller's F+H and D)"
    except RuntimeError:
        return ("fnnls_cholesky(warm) raised RuntimeError (iteration limit) on an SPD system; P_initial=%r, optimum by "
                "enumeration=%r" % (P_initial, _enum_oracle(A, b) if len(b) <= 8 else None))
    return _optimum_message(A, b, s, "fnnls_cholesky(warm, P_initial=%r)" % (P_initial,))


def _positive_only(A, b, warm):
    import autoarray as aa
    from autoarray import exc
    from autoarray.inversion.inversion import inversion_util
    settings = aa.SettingsInversion(use_positive_only_solver=True, positive_only_uses_p_initial=warm)
    A1, b1 = A.copy(), b.copy()
    try:
        s = inversion_util.reconstruction_positive_only_from(data_vector=b1, curvature_reg_matrix=A1, settings=settings)
        if not (np.array_equal(A1, A) and np.array_equal(b1, b)):
            return "reconstruction_positive_only_from(positive_only_uses_p_initial=%s) changed the data vector / matrix it was given" % warm
    except exc.InversionException:
        return ("reconstruction_positive_only_from(positive_only_uses_p_initial=%s) raised InversionException on an SPD "
                "system (the statement allows the exception only for the unconstrained solver); optimum by enumeration=%r"
                % (warm, _enum_oracle(A, b) if len(b) <= 8 else None))
    return _optimum_message(A, b, s, "reconstruction_positive_only_from(positive_only_uses_p_initial=%s)" % warm)


@bounded("C05", "positive-only-no-p-initial", gen=_gen_systems, nontrivial=_constraint_active)
def positive_only_no_p_initial(A, b):
    """C05: 'with the positive-only solver s is the unique minimiser ... (KKT)' -- inversion_util.
    reconstruction_positive_only_from with SettingsInversion(positive_only_uses_p_initial=False); bound as
    fnnls-kkt-cold-start."""
    return _positive_only(A, b, False)


@bounded("C05", "positive-only-p-initial", gen=_gen_systems, nontrivial=_constraint_active)
def positive_only_p_initial(A, b):
    """C05: '... whether or not the warm-start guess of the positive set is enabled' -- inversion_util.
    reconstruction_positive_only_from with SettingsInversion(positive_only_uses_p_initial=True) (the library default);
    bound as fnnls-kkt-cold-start."""
    return _positive_only(A, b, True)


def _gen_unconstrained(rng, tier):
    yield {"A": np.zeros((2, 2)), "b": np.array([1.0, 2.0]), "ranges": [[0, 2]], "force": False}   # singular: exception
    yield {"A": np.array([[2.0, 1.0], [1.0, 2.0]]), "b": np.array([3.0, 3.0]), "ranges": [[0, 2]], "force": True}  # s=(1,1)
    for case in _gen_systems(rng, tier):
        n = len(case["b"])
        k = rng.randint(0, n)
        case["ranges"] = [[0, k], [k, n]] if 0 < k < n and rng.random() < 0.5 else ([[0, n]] if rng.random() < 0.7 else [])
        case["force"] = bool(rng.getrandbits(1))
        yield case


@bounded("C05", "positive-negative-solve", gen=_gen_unconstrained, nontrivial=lambda A, b, ranges, force: len(b) > 1)
def positive_negative_solve(A, b, ranges, force):
    """C05: 'With the unconstrained solver the reconstruction s satisfies (F+H)s = D to numerical precision, or an
    inversion exception is raised' -- inversion_util.reconstruction_positive_negative_from with mapper parameter ranges
    and force_check_reconstruction; bound: the SPD systems of fnnls-kkt-cold-start (size 1..8, cond <= 1e6) + one
    singular system.  Tolerance: |A s - D| <= 1e-9 * max_i(sum_j|A_ij||s_j| + |D_i|) (LU residual is ~1e-16 of that)."""
    from autoarray import exc
    from autoarray.inversion.inversion import inversion_util
    try:
        s = inversion_util.reconstruction_positive_negative_from(
            data_vector=b.copy(), curvature_reg_matrix=A.copy(), mapper_param_range_list=[list(r) for r in ranges],
            force_check_reconstruction=force)
    except exc.InversionException:
        return None
    s = np.asarray(s, dtype=float)
    if s.shape != b.shape or not np.all(np.isfinite(s)):
        return "no exception but the reconstruction is not a finite vector of the right size: %r" % (s,)
    r = A @ s - b
    if np.max(np.abs(r)) > 1e-9 * _gscale(A, b, s):
        return "no exception but (F+H)s != D: residual %r for s=%r" % (r, s)
    return None


# ----------------------------------------------------------------------------------------------------------------------
# through aa.Inversion objects
# ----------------------------------------------------------------------------------------------------------------------

_PSFS = [
    np.array([[0.0, 0.1, 0.0], [0.1, 0.5, 0.2], [0.0, 0.1, 0.0]]),
    np.array([[0.05, 0.1, 0.0], [0.1, 0.4, 0.2], [0.0, 0.1, 0.05]]),
    np.array([[0.0, 0.0, 0.0], [0.0, 1.0, 0.0], [0.0, 0.0, 0.0]]),
]


def _data_regime(nrng, shape, regime):
    if regime == "positive":
        return np.abs(nrng.normal(size=shape)) + 1.0
    if regime == "zero-mean":
        return nrng.normal(size=shape)
    return -np.abs(nrng.normal(size=shape)) - 0.3 + 0.5 * nrng.normal(size=shape)


def _ring_mask(rng, hmax, wmax, min_unmasked):
    """mask with a masked outer ring of width 1 (so a 3x3 PSF never reaches outside the array)"""
    return gens.random_mask(rng, hmax, wmax, p=rng.choice([0.0, 0.2, 0.4]), min_unmasked=min_unmasked, hmin=4, wmin=4,
                            ring=True)


def _imaging(aa, mask, data, noise, psf):
    mk = aa.Mask2D(mask=mask.copy(), pixel_scales=(1.0, 1.0))
    im = aa.Imaging(
        data=aa.Array2D.no_mask(values=data.copy(), pixel_scales=(1.0, 1.0)),
        noise_map=aa.Array2D.no_mask(values=noise.copy(), pixel_scales=(1.0, 1.0)),
        psf=aa.Kernel2D.no_mask(values=psf.copy(), pixel_scales=(1.0, 1.0)),
        over_sampling=aa.OverSamplingDataset(uniform=aa.OverSamplingUniform(sub_size=1)),
    )
    return mk, im.apply_mask(mask=mk)


def _mesh_edges(shape):
    r, c = shape
    return [i * c + j for i in range(r) for j in range(c) if i in (0, r - 1) or j in (0, c - 1)]


def _gen_inversion_mock(rng, tier):
    """mock mappers (random non-negative mapping matrices on a rectangular mesh adjacency) and an optional unregularized
    linear-function object, all 2x2x2 solver settings"""
    nrng = gens.np_rng(rng)
    combos = list(itertools.product([False, True], repeat=3))
    regimes = ["positive", "zero-mean", "negative"]
    k = 0
    for _ in range(gens.budget(tier, 160, 2500)):
        mask = _ring_mask(rng, 6, 6, 3)
        n = int((~mask).sum())
        shapes = rng.choice([[(3, 3)], [(4, 4)], [(3, 5)], [(5, 5)], [(3, 3), (3, 4)], [(4, 5), (4, 3)]])
        mms = []
        for sh in shapes:
            p = sh[0] * sh[1]
            mm = nrng.random((n, p)) * (nrng.random((n, p)) < 0.35)
            mms.append(mm)
        func = nrng.random((n, int(nrng.integers(1, 3)))) if rng.random() < 0.4 else None
        base = {
            "mask": mask, "noise": nrng.uniform(0.5, 2.0, size=mask.shape), "psf": _PSFS[rng.randrange(len(_PSFS))],
            "mesh_shapes": [tuple(s) for s in shapes], "mapping_matrices": mms, "func_matrix": func,
            "coefficients": [float(rng.choice([0.1, 1.0, 3.0])) for _ in shapes],
            "func_first": bool(rng.getrandbits(1)),
        }
        regime = regimes[k % 3]
        data = _data_regime(nrng, mask.shape, regime)
        for (pos, warm, force) in combos:
            case = dict(base)
            case.update({"data": data, "positive_only": pos, "p_initial": warm, "force_edge": force, "source_zero": None})
            yield case
        k += 1


def _gen_inversion_no_warm(rng, tier):
    """the 6 of the 2x2x2 settings in which the warm start is not executed"""
    for case in _gen_inversion_mock(rng, tier):
        if not (case["positive_only"] and case["p_initial"]):
            yield case


def _gen_inversion_warm(rng, tier):
    """the 2 settings (force_edge on/off) in which the positive-only solver runs with the warm start"""
    for case in _gen_inversion_mock(rng, tier):
        if case["positive_only"] and case["p_initial"]:
            yield case


def _gen_inversion_source_zero(rng, tier):
    """positive-only solver, cold start, force_edge_pixels_to_zeros + force_edge_image_pixels_to_zeros with 1-2 listed
    image pixels; first one mapper, then two"""
    # smallest ragged case: 4 image pixels, two 4x4 mock mappers (interior cells 5,6,9,10); image pixel 0 feeds 1 source
    # pixel of the first mapper and 2 of the second
    mask = np.ones((4, 4), dtype=bool); mask[1:3, 1:3] = False
    m1 = np.zeros((4, 16)); m1[0, 5] = 1.0; m1[1, 6] = 1.0; m1[2, 9] = 1.0; m1[3, 10] = 1.0
    m2 = np.zeros((4, 16)); m2[0, 5] = 0.5; m2[0, 6] = 0.5; m2[1, 9] = 1.0; m2[2, 10] = 1.0; m2[3, 9] = 0.5; m2[3, 10] = 0.5
    yield {"mask": mask, "data": np.ones((4, 4)), "noise": np.ones((4, 4)), "psf": _PSFS[2], "mesh_shapes": [(4, 4), (4, 4)],
           "mapping_matrices": [m1, m2], "func_matrix": None, "coefficients": [1.0, 1.0], "func_first": False,
           "positive_only": True, "p_initial": False, "force_edge": True, "source_zero": [0]}
    for case in _gen_inversion_mock(rng, tier):
        if not (case["positive_only"] and case["force_edge"] and not case["p_initial"]):
            continue
        n = int((~case["mask"]).sum())
        case = dict(case)
        case["source_zero"] = sorted(rng.sample(range(n), rng.choice([1, 2])))
        yield case


def _mock_objects(aa, mesh_shapes, mapping_matrices, coefficients, func_matrix, func_first, n_data):
    objs = []
    for sh, mm, c in zip(mesh_shapes, mapping_matrices, coefficients):
        grid = np.array([[float(y), float(x)] for y in range(sh[0]) for x in range(sh[1])])
        mesh = aa.Mesh2DRectangular.overlay_grid(shape_native=tuple(sh), grid=grid)
        objs.append(aa.m.MockMapper(source_plane_mesh_grid=mesh, mapping_matrix=mm.copy(),
                                    edge_pixel_list=_mesh_edges(sh), regularization=aa.reg.Constant(coefficient=c)))
    if func_matrix is not None:
        f = aa.m.MockLinearObjFuncList(parameters=func_matrix.shape[1], grid=None, mapping_matrix=func_matrix.copy())
        objs = [f] + objs if func_first else objs + [f]
    return objs


def _inversion_settings_check(mask, data, noise, psf, mesh_shapes, mapping_matrices, coefficients, func_matrix,
                              func_first, positive_only, p_initial, force_edge, source_zero):
    import autoarray as aa
    from autoarray import exc
    mk, im = _imaging(aa, mask, data, noise, psf)
    n_data = int((~mask).sum())
    objs = _mock_objects(aa, mesh_shapes, mapping_matrices, coefficients, func_matrix, func_first, n_data)
    settings = aa.SettingsInversion(
        use_w_tilde=False, use_positive_only_solver=positive_only, positive_only_uses_p_initial=p_initial,
        force_edge_pixels_to_zeros=force_edge, force_edge_image_pixels_to_zeros=source_zero is not None,
        image_pixels_source_zero=source_zero, no_regularization_add_to_curvature_diag_value=1e-3)
    inv = aa.Inversion(dataset=im, linear_obj_list=objs, settings=settings)
    A = np.array(inv.curvature_reg_matrix, dtype=float)
    D = np.array(inv.data_vector, dtype=float)
    total = sum(o.params for o in objs)
    if A.shape != (total, total) or D.shape != (total,):
        return "system has shape %r / %r for %d parameters" % (A.shape, D.shape, total)
    # forced-zero set, from the statement: edge pixels of every mapper (+ source pixels receiving flux from the listed
    # image pixels), offset by the object's position in the list
    forced, off = [], 0
    for o in objs:
        if isinstance(o, aa.m.MockMapper):
            forced += [off + e for e in o.edge_pixel_list]
            if source_zero is not None:
                mm = np.asarray(o.mapping_matrix)
                forced += [off + int(p) for p in np.nonzero((mm[source_zero] != 0).any(axis=0))[0]]
        off += o.params
    forced = sorted(set(forced)) if force_edge else []
    free = np.array([i for i in range(total) if i not in forced], dtype=int)
    try:
        s = np.array(inv.reconstruction, dtype=float)
    except exc.InversionException:
        if positive_only and len(free):                  # (an empty reduced system is outside the statement)
            return "InversionException from the positive-only solver on an SPD system (min eig %.3g)" % (
                np.linalg.eigvalsh(A[np.ix_(free, free)]).min())
        return None
    except Exception as e:                               # anything else is not the documented failure mode
        return "inversion.reconstruction raised %s: %s" % (type(e).__name__, str(e)[:300])
    if s.shape != (total,):
        return "reconstruction has shape %r, expected (%d,)" % (s.shape, total)
    if positive_only:
        if force_edge:
            if np.any(s[forced] != 0.0):
                return "forced-to-zero parameters %r are not zero: %r" % (forced, s[forced])
            if len(free) == 0:
                return None
            return _kkt_message(A[np.ix_(free, free)], D[free], s[free], "reduced system (force_edge_pixels_to_zeros)")
        return _kkt_message(A, D, s, "full system")
    # unconstrained
    if np.max(np.abs(A @ s - D)) <= 1e-9 * _gscale(A, D, s):
        return None
    if force_edge and not np.any(s[forced] != 0.0) and len(free):
        Ar, Dr, sr = A[np.ix_(free, free)], D[free], s[free]
        if np.max(np.abs(Ar @ sr - Dr)) <= 1e-9 * _gscale(Ar, Dr, sr):
            return None
    return "unconstrained solver: (F+H)s != D (residual %r)" % (A @ s - D,)


@bounded("C05", "inversion-reconstruction-settings", gen=_gen_inversion_no_warm,
         nontrivial=lambda **kw: kw["positive_only"])
def inversion_reconstruction_settings(mask, data, noise, psf, mesh_shapes, mapping_matrices, coefficients, func_matrix,
                                      func_first, positive_only, p_initial, force_edge, source_zero):
    """C05: 'Parameters that the settings force to zero are zero and the remaining ones are optimal for the reduced
    system' + the solver clauses, over 'solver settings use_positive_only_solver x positive_only_uses_p_initial x
    force_edge_pixels_to_zeros' -- aa.Inversion (mapping formalism) on 1-2 mock mappers (3x3..5x5 meshes, Constant
    regularization) and an optional unregularized linear-function object; masks <= 6x6, 3x3 PSFs, data positive /
    zero-mean / negative; 160 (2500) datasets x the 6 settings that do not run the warm start (the other 2 are the check
    inversion-reconstruction-p-initial).  (F+H) and D are read from the inversion itself (their correctness is C04);
    the forced set is the mesh's edge pixels.  For the unconstrained solver the code solves the full system; the check
    accepts either the full-system solution or zeros + reduced-system solution there, and an InversionException."""
    return _inversion_settings_check(mask, data, noise, psf, mesh_shapes, mapping_matrices, coefficients, func_matrix,
                                     func_first, positive_only, p_initial, force_edge, source_zero)


@bounded("C05", "inversion-reconstruction-p-initial", gen=_gen_inversion_warm,
         nontrivial=lambda **kw: kw["force_edge"])
def inversion_reconstruction_p_initial(mask, data, noise, psf, mesh_shapes, mapping_matrices, coefficients, func_matrix,
                                       func_first, positive_only, p_initial, force_edge, source_zero):
    """C05: '... whether or not the warm-start guess of the positive set is enabled.  Parameters that the settings
    force to zero are zero and the remaining ones are optimal for the reduced system' -- as
    inversion-reconstruction-settings, for use_positive_only_solver=True, positive_only_uses_p_initial=True (library
    defaults) x force_edge_pixels_to_zeros; 160 (2500) datasets x 2 settings."""
    return _inversion_settings_check(mask, data, noise, psf, mesh_shapes, mapping_matrices, coefficients, func_matrix,
                                     func_first, positive_only, p_initial, force_edge, source_zero)


@bounded("C05", "inversion-source-zero-pixels", gen=_gen_inversion_source_zero,
         nontrivial=lambda **kw: len(kw["mesh_shapes"]) > 1)
def inversion_source_zero_pixels(mask, data, noise, psf, mesh_shapes, mapping_matrices, coefficients, func_matrix,
                                 func_first, positive_only, p_initial, force_edge, source_zero):
    """C05: 'Parameters that the settings force to zero are zero and the remaining ones are optimal for the reduced
    system' -- aa.Inversion with force_edge_pixels_to_zeros AND force_edge_image_pixels_to_zeros +
    image_pixels_source_zero=[1-2 image pixels] (forced set = edge pixels + every source pixel receiving flux from the
    listed image pixels), positive-only solver, cold start; 1-2 mock mappers as in inversion-reconstruction-settings;
    ~20 (300) datasets."""
    return _inversion_settings_check(mask, data, noise, psf, mesh_shapes, mapping_matrices, coefficients, func_matrix,
                                     func_first, positive_only, p_initial, force_edge, source_zero)


# -- mapped reconstructed data, both formalisms, real mappers ----------------------------------------------------------

def _sub_grid(mask, sub):
    """image-plane (y,x) centres of the sub-pixels of every unmasked pixel, pixel scale 1, origin (0,0); row-major
    pixels, row-major sub-pixels (y decreasing downwards)"""
    h, w = mask.shape
    pts = []
    k = 0
    for i in range(h):
        for j in range(w):
            if mask[i, j]:
                continue
            sz = int(sub[k]); k += 1
            yc, xc = (h - 1) / 2.0 - i, j - (w - 1) / 2.0
            for a in range(sz):
                for b in range(sz):
                    pts.append([yc + 0.5 - (a + 0.5) / sz, xc - 0.5 + (b + 0.5) / sz])
    return np.array(pts)


def _gen_mapped(rng, tier):
    nrng = gens.np_rng(rng)
    regimes = ["positive", "zero-mean", "negative"]
    k = 0
    for _ in range(gens.budget(tier, 250, 4000)):
        mask = _ring_mask(rng, 6, 6, 3)
        n = int((~mask).sum())
        sub = np.array([rng.choice([1, 1, 2, 3]) for _ in range(n)], dtype=int)
        g = _sub_grid(mask, sub)
        srcs, shapes = [], []
        for _m in range(1 if rng.random() < 0.6 else 2):
            lin = nrng.normal(size=(2, 2)) * 0.3 + np.eye(2) * rng.choice([0.6, 1.0])
            src = g @ lin.T + 0.05 * nrng.normal(size=g.shape) + nrng.normal(size=2)
            srcs.append(src)
            shapes.append((rng.choice([3, 4]), rng.choice([3, 4, 5])))
        func = nrng.random((n, 1)) if rng.random() < 0.4 else None
        for w_tilde in (False, True):
            yield {
                "mask": mask, "data": _data_regime(nrng, mask.shape, regimes[k % 3]),
                "noise": nrng.uniform(0.5, 2.0, size=mask.shape), "psf": _PSFS[rng.randrange(len(_PSFS))], "sub": sub,
                "sources": srcs, "mesh_shapes": shapes, "coefficients": [float(rng.choice([0.1, 1.0])) for _ in shapes],
                "func_matrix": func, "use_w_tilde": w_tilde,
                "positive_only": bool(rng.getrandbits(1)), "force_edge": bool(rng.getrandbits(1)),
            }
        k += 1


def _real_inversion(aa, mask, data, noise, psf, sub, sources, mesh_shapes, coefficients, func_matrix, use_w_tilde,
                    positive_only, force_edge):
    mk, im = _imaging(aa, mask, data, noise, psf)
    over = aa.OverSamplerUniform(mask=mk, sub_size=aa.Array2D(values=sub.copy(), mask=mk))
    objs = []
    for src, sh, c in zip(sources, mesh_shapes, coefficients):
        mg = aa.mesh.Rectangular(shape=tuple(sh)).mapper_grids_from(
            mask=mk, source_plane_data_grid=aa.Grid2DIrregular(values=src.copy()), border_relocator=None)
        objs.append(aa.Mapper(mapper_grids=mg, over_sampler=over, regularization=aa.reg.Constant(coefficient=c)))
    if func_matrix is not None:
        objs.append(aa.m.MockLinearObjFuncList(parameters=func_matrix.shape[1], grid=None,
                                               mapping_matrix=func_matrix.copy()))
    settings = aa.SettingsInversion(use_w_tilde=use_w_tilde, use_positive_only_solver=positive_only,
                                    positive_only_uses_p_initial=False, force_edge_pixels_to_zeros=force_edge,
                                    no_regularization_add_to_curvature_diag_value=1e-3)
    return objs, aa.Inversion(dataset=im, linear_obj_list=objs, settings=settings)


@bounded("C05", "inversion-real-mappers-both-formalisms", gen=_gen_mapped,
         nontrivial=lambda **kw: kw["positive_only"] and kw["force_edge"])
def inversion_real_mappers_both_formalisms(mask, data, noise, psf, sub, sources, mesh_shapes, coefficients, func_matrix,
                                           use_w_tilde, positive_only, force_edge):
    """C05: solver + forced-zero clauses ('(F+H)s = D ... or an inversion exception'; 's is non-negative, the gradient
    vanishes on its positive entries and is non-negative on its zero entries'; 'Parameters that the settings force to
    zero are zero and the remaining ones are optimal for the reduced system') through InversionImagingMapping AND
    InversionImagingWTilde on real rectangular mappers (forced set = border cells of each R x C mesh, own computation);
    cold start; geometry bound as mapped-reconstructed-data-dict; 250 (4000) datasets x 2 formalisms."""
    import autoarray as aa
    from autoarray import exc
    objs, inv = _real_inversion(aa, mask, data, noise, psf, sub, sources, mesh_shapes, coefficients, func_matrix,
                                use_w_tilde, positive_only, force_edge)
    try:
        A = np.array(inv.curvature_reg_matrix, dtype=float)
        D = np.array(inv.data_vector, dtype=float)
        s = np.array(inv.reconstruction, dtype=float)
    except exc.InversionException:
        return "InversionException on a regularized system" if positive_only else None
    except Exception as e:
        return "inversion raised %s: %s" % (type(e).__name__, str(e)[:300])
    total = sum(o.params for o in objs)
    if A.shape != (total, total) or s.shape != (total,):
        return "shapes %r / %r for %d parameters" % (A.shape, s.shape, total)
    forced, off = [], 0
    for sh in mesh_shapes:
        forced += [off + e for e in _mesh_edges(sh)]
        off += sh[0] * sh[1]
    free = np.array([i for i in range(total) if i not in forced], dtype=int)
    if positive_only and force_edge:
        if np.any(s[forced] != 0.0):
            return "forced-to-zero edge parameters are not zero: %r" % (s[forced],)
        return _kkt_message(A[np.ix_(free, free)], D[free], s[free], "reduced system") if len(free) else None
    if positive_only:
        return _kkt_message(A, D, s, "full system")
    if np.max(np.abs(A @ s - D)) <= 1e-9 * _gscale(A, D, s):
        return None
    if force_edge and not np.any(s[forced] != 0.0) and len(free):
        Ar, Dr, sr = A[np.ix_(free, free)], D[free], s[free]
        if np.max(np.abs(Ar @ sr - Dr)) <= 1e-9 * _gscale(Ar, Dr, sr):
            return None
    return "unconstrained solver: (F+H)s != D (residual %r)" % (A @ s - D,)


@bounded("C05", "mapped-reconstructed-data-dict", gen=_gen_mapped, nontrivial=lambda **kw: len(kw["sources"]) > 1 or kw["func_matrix"] is not None)
def mapped_reconstructed_data_dict(mask, data, noise, psf, sub, sources, mesh_shapes, coefficients, func_matrix,
                                   use_w_tilde, positive_only, force_edge):
    """C05: 'The model data returned for each linear object equals its blurred mapping matrix times its slice of s, and
    these sum to the total mapped reconstructed data' -- aa.Inversion in the mapping AND w-tilde formalisms on 1-2 real
    rectangular mappers (3x3..4x5 meshes, per-pixel sub sizes 1..3, distorted+jittered source grids) plus an optional
    linear-function object; masks <= 6x6, 3x3 PSFs; 250 (4000) datasets x 2 formalisms.  'Blurred mapping matrix' = the
    object's entry of `operated_mapping_matrix_list` (its correctness is C03); cold-start solver so that this check is
    independent of the warm-start finding.  Tolerance 1e-9 * sum_j |B_ij||s_j| (plain dot products)."""
    import autoarray as aa
    from autoarray import exc
    objs, inv = _real_inversion(aa, mask, data, noise, psf, sub, sources, mesh_shapes, coefficients, func_matrix,
                                use_w_tilde, positive_only, force_edge)
    want_cls = "InversionImagingWTilde" if use_w_tilde else "InversionImagingMapping"
    if type(inv).__name__ != want_cls:
        return "factory returned %s, expected %s" % (type(inv).__name__, want_cls)
    try:
        s = np.array(inv.reconstruction, dtype=float)
    except exc.InversionException:
        return None                                    # solver clauses are checked elsewhere
    except Exception as e:
        return "inversion.reconstruction raised %s: %s" % (type(e).__name__, str(e)[:300])
    blurred = [np.array(b, dtype=float) for b in inv.operated_mapping_matrix_list]
    d = inv.mapped_reconstructed_data_dict
    if list(d.keys()) != objs:
        return "mapped_reconstructed_data_dict keys are not the linear objects in order"
    total = np.zeros(int((~mask).sum()))
    off = 0
    for k, o in enumerate(objs):
        sl = s[off:off + o.params]
        off += o.params
        want = blurred[k] @ sl
        tol = 1e-9 * (np.abs(blurred[k]) @ np.abs(sl)) + 1e-12 * (np.max(np.abs(s)) + 1e-300)
        got = np.array(d[o], dtype=float)
        if got.shape != want.shape or np.any(np.abs(got - want) > tol):
            return "object %d: mapped reconstructed data %r != blurred mapping matrix @ slice of s %r" % (k, got, want)
        if not np.allclose(np.array(inv.reconstruction_dict[o], dtype=float), sl, rtol=0, atol=0):
            return "object %d: reconstruction_dict entry is not its slice of s" % k
        total += got
    tot = np.array(inv.mapped_reconstructed_data, dtype=float)
    if tot.shape != total.shape or np.any(np.abs(tot - total) > 1e-9 * (np.abs(total) + np.max(np.abs(total)) + 1e-300)):
        return "mapped_reconstructed_data %r != sum of the per-object model data %r" % (tot, total)
    return None


# ------------------------------------------------------------------------------------------------ linear objects reused by a second inversion

@bounded("C05", "mapper-object-reused-by-a-second-inversion", gen=_gen_mapped,
         nontrivial=lambda **kw: len(kw["sources"]) > 1 and kw["positive_only"] and kw["force_edge"])
def mapper_object_reused_by_a_second_inversion(mask, data, noise, psf, sub, sources, mesh_shapes, coefficients, func_matrix,
                                               use_w_tilde, positive_only, force_edge):
    """C05: 'Parameters that the settings force to zero are zero and the remaining ones are optimal for the reduced system ...
    s is the unique minimiser ...' -- for every inversion, whatever its linear objects were used for before: the SAME mapper
    object M is first solved in an inversion [M, A (, f)] and then in an inversion [M, B] with another partner (B = A with a
    different mesh shape), and alone [M]; every reconstruction must equal that of the same inversion built from fresh, equal
    objects (a list cached on a mapper or its mesh and extended by an inversion shows here); datasets as
    inversion-real-mappers-both-formalisms, two-mapper cases."""
    import autoarray as aa
    from autoarray import exc
    if len(sources) < 2:
        return None

    def build(which_sources, which_shapes, which_coeffs, with_func, reuse=None):
        objs, inv = _real_inversion(aa, mask, data, noise, psf, sub, which_sources, which_shapes, which_coeffs,
                                    func_matrix if with_func else None, use_w_tilde, positive_only, force_edge)
        if reuse is not None:
            objs = [reuse] + objs[1:]
            inv = aa.Inversion(dataset=inv.dataset, linear_obj_list=objs, settings=inv.settings)
        return objs, inv

    def solve(inv):
        try:
            return np.array(inv.reconstruction, dtype=float)
        except exc.InversionException:
            return "InversionException"
        except Exception as e:
            return "%s: %s" % (type(e).__name__, str(e)[:200])

    shape_b = (mesh_shapes[1][0] + 1, mesh_shapes[1][1])
    plans = [("[M, A%s]" % (", f" if func_matrix is not None else ""), sources, mesh_shapes, coefficients, True),
             ("[M, B]", sources, [mesh_shapes[0], shape_b], coefficients, False),
             ("[M]", sources[:1], mesh_shapes[:1], coefficients[:1], False),
             ("[M, A] again", sources, mesh_shapes, coefficients, False)]
    shared = None
    for label, srcs, shps, cfs, wf in plans:
        fresh_objs, fresh_inv = build(srcs, shps, cfs, wf)
        want = solve(fresh_inv)
        objs, inv = build(srcs, shps, cfs, wf, reuse=shared)
        if shared is None:
            shared = objs[0]
        got = solve(inv)
        if isinstance(want, str) or isinstance(got, str):
            if want != got:
                return "inversion %s with the mapper object M used before: %s; with fresh equal objects: %s" % (
                    label, got if isinstance(got, str) else "a reconstruction", want if isinstance(want, str) else "a reconstruction")
            continue
        if got.shape != want.shape or not np.allclose(got, want, rtol=1e-9, atol=1e-9 * (1.0 + float(np.abs(want).max()))):
            return "inversion %s re-using the mapper object M of the earlier inversions: reconstruction %r, with fresh equal objects %r" % (
                label, got, want)
    return None
