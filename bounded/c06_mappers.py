"""C06 class layer: rectangular and Delaunay mappers -- mapping matrix, unique (sparse) mappings, neighbour lists
(bounded stand-in; see docs/BOUNDED_GUIDE.md).

The mappers are built like the library does it (`aa.mesh.Rectangular/Delaunay().mapper_grids_from` + `aa.Mapper`), from a
mask, a per-pixel sub-size map and an explicit source-plane position for every sub-pixel (pixel-major order: the
sub_size_i^2 sub-pixels of image pixel i are consecutive -- the documented `slim_for_sub_slim` convention).

Oracles written from the statement:
  * rectangular: source pixel p is the axis-aligned cell of half-widths pixel_scales/2 centred on the p-th mesh
    coordinate; the weight of a sub-pixel is the indicator of the cell containing its position.  Points closer than
    1e-6 cell widths to an interior cell boundary are floating-point ties: the rows of their image pixels are only
    checked for non-negativity and unit sum.
  * Delaunay: own barycentric coordinates (2x2 solve) in the triangles of an independent scipy.spatial.Delaunay built on
    the (x,y)-swapped vertex set; nearest vertex if no triangle contains the point.  Points within 1e-7 (barycentric
    units) of the hull boundary / of a nearest-vertex tie, and triangles so thin that area round-off exceeds 1e-7, are
    treated as ties in the same way.  Vertex sets whose triangulation is not unique to a margin of 1e-6 (near
    co-circular) are skipped.
Matrix entries are compared with atol 1e-9 (sums of <= 16 products of O(1) numbers; area ratios are conditioned by
L^2/area which the tie rule bounds).
"""
import itertools
import numpy as np
from pyvc.bounded import bounded
from pyvc import gens


# ----------------------------------------------------------------------------------------------------------------------
# input generation
# ----------------------------------------------------------------------------------------------------------------------

def _sub_grid(mask, sub, pixel_scales=(1.0, 1.0), origin=(0.0, 0.0)):
    """image-plane (y,x) of every sub-pixel, pixel-major / row-major, y decreasing with the row index"""
    h, w = mask.shape
    sy, sx = pixel_scales
    pts, k = [], 0
    for i in range(h):
        for j in range(w):
            if mask[i, j]:
                continue
            sz = int(sub[k]); k += 1
            yc = origin[0] + ((h - 1) / 2.0 - i) * sy
            xc = origin[1] + (j - (w - 1) / 2.0) * sx
            for a in range(sz):
                for b in range(sz):
                    pts.append([yc + sy * (0.5 - (a + 0.5) / sz), xc + sx * (-0.5 + (b + 0.5) / sz)])
    return np.array(pts, dtype=float).reshape(-1, 2)


def _distort(nrng, g, jitter):
    """smooth (affine + quadratic) distortion plus per-point jitter plus an offset"""
    lin = np.eye(2) * nrng.choice([0.5, 1.0, 2.0]) + 0.3 * nrng.normal(size=(2, 2))
    quad = 0.05 * nrng.normal(size=(2, 3))
    q = np.stack([g[:, 0] ** 2, g[:, 0] * g[:, 1], g[:, 1] ** 2], axis=1)
    return g @ lin.T + q @ quad.T + jitter * nrng.normal(size=g.shape) + 3.0 * nrng.normal(size=2)


def _masks(rng, tier, quick_n=600, thorough_n=6000):
    shapes = ((1, 1), (1, 2), (2, 2), (2, 3)) if tier == "quick" else ((1, 1), (1, 2), (2, 2), (2, 3), (3, 2), (3, 3))
    for shape in shapes:                                                # exhaustive small masks first
        for m in gens.all_masks(9, shapes=[shape], min_unmasked=1):
            yield m
    for _ in range(gens.budget(tier, quick_n, thorough_n)):
        yield gens.random_mask(rng, 4, 4, min_unmasked=1)


def _sub_map(rng, n, tier, k):
    top = 3 if tier == "quick" else 4
    mode = k % 3
    if mode == 0:
        return np.full(n, 1 + (k // 3) % top, dtype=int)               # uniform sub size 1..top
    return np.array([rng.randint(1, top) for _ in range(n)], dtype=int)  # per-pixel map


_MESH_SHAPES = [(3, 3), (3, 4), (4, 3), (4, 5), (3, 5), (5, 3), (4, 4)]


def _gen_rect(rng, tier):
    nrng = gens.np_rng(rng)
    # meshes whose pixel count crosses 2^15 and 2^16 (index tables held in a narrow integer type wrap there); few data pixels
    for shape in ((182, 181), (257, 257)):
        m = np.array([[False, False], [False, False]])
        sub = np.array([2, 1, 2, 2])
        g = _sub_grid(m, sub, (1.0, 1.0), (0.3, -0.7))
        yield {"mask": m, "sub": sub, "source": _distort(nrng, g, jitter=0.3), "mesh_shape": shape}
    for k, mask in enumerate(_masks(rng, tier, 3000, 30000)):
        n = int((~mask).sum())
        sub = _sub_map(rng, n, tier, k)
        ps = (1.0, 1.0) if k % 2 == 0 else (0.5, 2.0)
        g = _sub_grid(mask, sub, ps, (0.3, -0.7))
        if len(g) == 1 and k % 2:
            continue                                                    # a single point: degenerate 2e-8 wide overlay
        src = _distort(nrng, g, jitter=float(rng.choice([0.0, 0.02, 0.3])))
        yield {"mask": mask, "sub": sub, "source": src, "mesh_shape": _MESH_SHAPES[k % len(_MESH_SHAPES)]}


def _gen_delaunay(rng, tier):
    nrng = gens.np_rng(rng)
    for k, mask in enumerate(_masks(rng, tier)):
        n = int((~mask).sum())
        sub = _sub_map(rng, n, tier, k)
        g = _sub_grid(mask, sub, (1.0, 1.0), (0.0, 0.0))
        src = _distort(nrng, g, jitter=float(rng.choice([0.0, 0.02, 0.3])))
        npts = rng.randint(5, 12)
        lo, hi = src.min(axis=0), src.max(axis=0)
        span = np.maximum(hi - lo, 1.0)
        shrink = rng.choice([0.6, 1.0, 1.3])                            # hull smaller / larger than the data
        ctr = 0.5 * (lo + hi)
        mesh = ctr + (nrng.random((npts, 2)) - 0.5) * span * shrink
        if k % 4 == 0:                                                  # some vertices coincide with data positions
            for j in range(min(2, len(src))):
                mesh[j] = src[rng.randrange(len(src))]
            if len({tuple(p) for p in mesh.tolist()}) < npts:
                continue
        if k % 5 == 1 and len(src) >= 1:
            # sub-pixels a hair OUTSIDE the hull (3e-7 .. 8e-7 of the edge length beyond a hull edge: outside the 1e-7 band in which
            # either reading is accepted, far inside any "generous" point-location tolerance): nearest vertex alone
            try:
                from scipy.spatial import ConvexHull
                hull = ConvexHull(mesh)
                for j in range(min(3, len(src))):
                    f = rng.randrange(len(hull.simplices))
                    a, b = mesh[hull.simplices[f][0]], mesh[hull.simplices[f][1]]
                    t = rng.uniform(0.2, 0.8)
                    src[j] = a + t * (b - a) + hull.equations[f, :2] * rng.choice([3e-7, 5e-7, 8e-7]) * float(np.hypot(*(b - a)))
            except Exception:
                pass
        # the source plane has no natural unit: the same configuration at 2^-13, 2^-20 (arc-second fractions, radians) and 2^10
        f = 1.0 if rng.random() < 0.7 else float(rng.choice([2.0 ** -13, 2.0 ** -20, 2.0 ** 10]))
        yield {"mask": mask, "sub": sub, "source": src * f, "mesh_points": mesh * f}


# ----------------------------------------------------------------------------------------------------------------------
# building the real objects
# ----------------------------------------------------------------------------------------------------------------------

def _rect_mapper(aa, mask, sub, source, mesh_shape):
    mk = aa.Mask2D(mask=mask.copy(), pixel_scales=(1.0, 1.0))
    over = aa.OverSamplerUniform(mask=mk, sub_size=aa.Array2D(values=sub.copy(), mask=mk))
    mg = aa.mesh.Rectangular(shape=tuple(mesh_shape)).mapper_grids_from(
        mask=mk, source_plane_data_grid=aa.Grid2DIrregular(values=source.copy()), border_relocator=None)
    return aa.Mapper(mapper_grids=mg, over_sampler=over, regularization=None)


def _delaunay_mapper(aa, mask, sub, source, mesh_points):
    mk = aa.Mask2D(mask=mask.copy(), pixel_scales=(1.0, 1.0))
    over = aa.OverSamplerUniform(mask=mk, sub_size=aa.Array2D(values=sub.copy(), mask=mk))
    mg = aa.mesh.Delaunay().mapper_grids_from(
        mask=mk, source_plane_data_grid=aa.Grid2DIrregular(values=source.copy()),
        source_plane_mesh_grid=aa.Grid2DIrregular(values=mesh_points.copy()), border_relocator=None)
    return aa.Mapper(mapper_grids=mg, over_sampler=over, regularization=None)


# ----------------------------------------------------------------------------------------------------------------------
# oracles
# ----------------------------------------------------------------------------------------------------------------------

def _rect_weights(centres, pixel_scales, source, shape):
    """per sub-pixel: (index of the cell containing it, is_tie).  Cells from the statement: the R x C axis-aligned boxes
    of the mesh's pixel scales centred on the mesh coordinates (row-major, layout verified separately).  A point within
    1e-6 cell widths of an INTERIOR cell boundary is a floating-point tie; on the outer border (the overlay leaves a
    1e-8 buffer there) the border cell is the only candidate; index -2 = outside every cell."""
    R, C = shape
    dy, dx = float(pixel_scales[0]), float(pixel_scales[1])
    top = centres[0, 0] + 0.5 * dy
    left = centres[0, 1] - 0.5 * dx
    out = []
    for (y, x) in source:
        idx, tie = [], False
        for f, n in (((top - y) / dy, R), ((x - left) / dx, C)):
            if f < -1e-6 or f > n + 1e-6:
                idx.append(None)
                continue
            k = int(round(f))
            if abs(f - k) < 1e-6 and 0 < k < n:
                tie = True
            idx.append(min(max(int(np.floor(f)), 0), n - 1))
        if None in idx:
            out.append((-2, False))
        else:
            out.append((idx[0] * C + idx[1], tie))
    return out


def _bary(tri_pts, p):
    a, b, c = tri_pts
    T = np.array([[b[0] - a[0], c[0] - a[0]], [b[1] - a[1], c[1] - a[1]]])
    l12 = np.linalg.solve(T, np.array([p[0] - a[0], p[1] - a[1]]))
    return np.array([1.0 - l12[0] - l12[1], l12[0], l12[1]])


def _circum_margin(pts, simplices):
    """smallest relative clearance of any vertex from any triangle's circumcircle (uniqueness of the triangulation)"""
    margin = np.inf
    for tri in simplices:
        a, b, c = pts[tri]
        d = 2.0 * (a[0] * (b[1] - c[1]) + b[0] * (c[1] - a[1]) + c[0] * (a[1] - b[1]))
        ux = ((a @ a) * (b[1] - c[1]) + (b @ b) * (c[1] - a[1]) + (c @ c) * (a[1] - b[1])) / d
        uy = ((a @ a) * (c[0] - b[0]) + (b @ b) * (a[0] - c[0]) + (c @ c) * (b[0] - a[0])) / d
        r = np.hypot(a[0] - ux, a[1] - uy)
        for j in range(len(pts)):
            if j in tri:
                continue
            dist = np.hypot(pts[j, 0] - ux, pts[j, 1] - uy)
            margin = min(margin, (dist - r) / r)
    return margin


def _delaunay_oracle(mesh_points, source):
    """(simplices of an independent triangulation, per sub-pixel list of (vertex, weight) or None for a tie, margin)"""
    from scipy.spatial import Delaunay
    xy = mesh_points[:, ::-1].copy()                                    # (x,y): independent of the library's (y,x) call
    tri = Delaunay(xy)
    simplices = np.array(tri.simplices)
    margin = _circum_margin(xy, simplices)
    L2 = float(np.prod(np.maximum(xy.max(axis=0) - xy.min(axis=0), 1e-300)))
    out = []
    for p_yx in source:
        p = p_yx[::-1]
        best, best_l, best_t = -np.inf, None, None
        for t in simplices:
            l = _bary(xy[t], p)
            if l.min() > best:
                best, best_l, best_t = l.min(), l, t
        a, b, c = xy[best_t]
        area = 0.5 * abs((b[0] - a[0]) * (c[1] - a[1]) - (c[0] - a[0]) * (b[1] - a[1]))
        if best >= 1e-7:
            if 1e-15 * L2 / area > 1e-7:                                # sliver: area round-off too large to compare
                out.append(None)
            else:
                out.append([(int(v), float(w)) for v, w in zip(best_t, best_l)])
        elif best <= -1e-7:
            d2 = np.sum((xy - p) ** 2, axis=1)
            order = np.argsort(d2)
            if d2[order[1]] - d2[order[0]] <= 1e-9 * (d2[order[1]] + 1e-300):
                out.append(None)
            else:
                out.append([(int(order[0]), 1.0)])
        else:
            # on the hull boundary / an edge / a vertex: both readings agree iff the point sits on a vertex
            d2 = np.sum((xy - p) ** 2, axis=1)
            j = int(np.argmin(d2))
            if d2[j] <= 1e-24 * (1.0 + np.sum(p ** 2)):
                out.append([(j, 1.0)])
            else:
                out.append(None)
    return simplices, out, margin


def _expected_matrix(sub, n_pix, per_sub):
    """M[i,p] = sum over the sub-pixels of image pixel i of (1/sub_i^2) * weight; rows containing a tie -> tie flag"""
    M = np.zeros((len(sub), n_pix))
    tie = np.zeros(len(sub), dtype=bool)
    k = 0
    for i, sz in enumerate(sub):
        for _ in range(int(sz) ** 2):
            w = per_sub[k]; k += 1
            if w is None:
                tie[i] = True
                continue
            for (p, wt) in w:
                M[i, p] += wt / float(int(sz) ** 2)
    return M, tie


def _matrix_message(M, want, tie, label):
    M = np.asarray(M, dtype=float)
    if M.shape != want.shape:
        return "%s: mapping matrix has shape %r, expected %r" % (label, M.shape, want.shape)
    if not np.all(np.isfinite(M)) or (M < 0).any():
        return "%s: mapping matrix has negative / non-finite entries (min %r)" % (label, np.nanmin(M))
    rs = M.sum(axis=1)
    if np.any(np.abs(rs - 1.0) > 1e-9):
        return "%s: rows do not sum to one: %r" % (label, rs)
    ok = ~tie
    if np.any(np.abs(M[ok] - want[ok]) > 1e-9):
        i = int(np.argmax(np.max(np.abs(M - want) * ok[:, None], axis=1)))
        return "%s: row %d of the mapping matrix is %r, statement gives %r" % (label, i, M[i], want[i])
    return None


def _unique_message(um, M):
    """the sparse encoding (data_to_pix_unique, data_weights, pix_lengths) must encode exactly the dense matrix M"""
    idx = np.asarray(um.data_to_pix_unique)
    wts = np.asarray(um.data_weights, dtype=float)
    lens = np.asarray(um.pix_lengths)
    n, P = M.shape
    if idx.shape[0] != n or wts.shape[0] != n or lens.shape != (n,) or idx.shape != wts.shape:
        return "unique mappings have shapes %r %r %r for a %r matrix" % (idx.shape, wts.shape, lens.shape, M.shape)
    S = np.zeros_like(M)
    for i in range(n):
        L = int(lens[i])
        if L < 0 or L > idx.shape[1]:
            return "pix_lengths[%d] = %r outside 0..%d" % (i, lens[i], idx.shape[1])
        cols = [int(c) for c in idx[i, :L]]
        if len(set(cols)) != L:
            return "data_to_pix_unique row %d lists a source pixel twice: %r" % (i, cols)
        if any(c < 0 or c >= P for c in cols):
            return "data_to_pix_unique row %d has an index outside 0..%d: %r" % (i, P - 1, cols)
        for c, w in zip(cols, wts[i, :L]):
            S[i, c] += w
    if np.any(np.abs(S - M) > 1e-12):
        i = int(np.argmax(np.max(np.abs(S - M), axis=1)))
        return "sparse unique mappings encode row %d as %r but the mapping matrix row is %r" % (i, S[i], M[i])
    return None


def _neighbors_message(neighbors, want_adj, label):
    arr = np.asarray(neighbors)
    sizes = np.asarray(neighbors.sizes)
    P = len(want_adj)
    if arr.shape[0] != P or sizes.shape != (P,):
        return "%s: neighbour array has shape %r / sizes %r for %d source pixels" % (label, arr.shape, sizes.shape, P)
    got = []
    for p in range(P):
        row = [int(q) for q in arr[p, :int(sizes[p])]]
        if len(set(row)) != len(row):
            return "%s: neighbour list of pixel %d has duplicates: %r" % (label, p, row)
        got.append(set(row))
    for p in range(P):
        for q in got[p]:
            if q < 0 or q >= P or p not in got[q]:
                return "%s: neighbour lists not symmetric: %d lists %d but not vice versa" % (label, p, q)
        if got[p] != want_adj[p]:
            return "%s: neighbours of pixel %d are %r, mesh adjacency gives %r" % (label, p, sorted(got[p]), sorted(want_adj[p]))
    return None


# ----------------------------------------------------------------------------------------------------------------------
# rectangular
# ----------------------------------------------------------------------------------------------------------------------

def _rect_layout_message(mesh, mesh_shape):
    R, C = mesh_shape
    centres = np.asarray(mesh, dtype=float)
    if centres.shape != (R * C, 2):
        return "mesh grid has shape %r for a %dx%d mesh" % (centres.shape, R, C), None, None
    dy, dx = (float(v) for v in mesh.pixel_scales)
    if not (dy > 0 and dx > 0):
        return "mesh pixel scales not positive: %r" % ((dy, dx),), None, None
    r = np.repeat(np.arange(R), C)
    c = np.tile(np.arange(C), R)
    want = np.stack([centres[0, 0] - r * dy, centres[0, 1] + c * dx], axis=1)
    if np.any(np.abs(centres - want) > 1e-9 * (np.max(np.abs(centres)) + R * dy + C * dx)):
        return "mesh centres are not a row-major %dx%d grid (y decreasing, x increasing) of its pixel scales" % (R, C), None, None
    return None, centres, (dy, dx)


@bounded("C06", "rectangular-mapping-matrix", gen=_gen_rect,
         nontrivial=lambda mask, sub, source, mesh_shape: len(source) > 1 and mesh_shape[0] != mesh_shape[1])
def rectangular_mapping_matrix(mask, sub, source, mesh_shape):
    """C06: 'every row of a mapper's mapping matrix is non-negative and sums to one, and entry (i,p) is the sum over the
    sub-pixels of image pixel i of (1/sub_size_i^2) times the interpolation weight of source pixel p, where the weights
    ... [are] the indicator of the rectangular cell that contains it' -- aa.Mapper on aa.mesh.Rectangular; bound: all
    masks of shapes 1x1,1x2,2x2,2x3 (+3x2,3x3) + 3000 (30000) random masks <= 4x4, uniform and per-pixel sub sizes 1..3
    (1..4), meshes 3x3..4x5 (7 shapes, non-square both ways), affine+quadratic distortion + jitter 0/0.02/0.3."""
    import autoarray as aa
    mapper = _rect_mapper(aa, mask, sub, source, mesh_shape)
    if type(mapper).__name__ != "MapperRectangular":
        return "factory returned %s" % type(mapper).__name__
    msg, centres, scales = _rect_layout_message(mapper.source_plane_mesh_grid, mesh_shape)
    if msg:
        return msg
    cells = _rect_weights(centres, scales, source, mesh_shape)
    if any(p == -2 for p, _t in cells):
        return "a source-plane position lies outside every cell of the overlaid mesh"
    per = [None if tie else [(p, 1.0)] for (p, tie) in cells]
    want, tie = _expected_matrix(sub, mesh_shape[0] * mesh_shape[1], per)
    return _matrix_message(mapper.mapping_matrix, want, tie, "rectangular")


@bounded("C06", "rectangular-unique-mappings", gen=_gen_rect,
         nontrivial=lambda mask, sub, source, mesh_shape: int(sub.max()) > 1)
def rectangular_unique_mappings(mask, sub, source, mesh_shape):
    """C06: 'The sparse unique-mapping representation used by the w-tilde formalism encodes exactly the same matrix' --
    MapperRectangular.unique_mappings (data_to_pix_unique, data_weights, pix_lengths: distinct source pixels per row,
    summed weights) vs MapperRectangular.mapping_matrix, |diff| <= 1e-12; bound as rectangular-mapping-matrix."""
    import autoarray as aa
    mapper = _rect_mapper(aa, mask, sub, source, mesh_shape)
    return _unique_message(mapper.unique_mappings, np.asarray(mapper.mapping_matrix, dtype=float))


def _gen_rect_shapes(rng, tier):
    top = 6 if tier == "quick" else 9
    for R in range(3, top + 1):
        for C in range(3, top + 1):
            yield {"mesh_shape": (R, C)}


@bounded("C06", "rectangular-neighbors", gen=_gen_rect_shapes, nontrivial=lambda mesh_shape: mesh_shape[0] != mesh_shape[1])
def rectangular_neighbors(mesh_shape):
    """C06: 'Source-pixel neighbour lists are symmetric and equal the mesh adjacency (4-connectivity of the rectangular
    grid ...)' -- neighbours of a MapperRectangular / Mesh2DRectangular; bound: every mesh shape 3x3..6x6 (9x9),
    exhaustive."""
    import autoarray as aa
    R, C = mesh_shape
    grid = np.array([[0.0, 0.0], [1.0, 2.0], [-1.5, 0.7]])
    mapper = _rect_mapper(aa, np.array([[False, False, False]]), np.array([1, 1, 1]), grid, mesh_shape)
    want = []
    for r in range(R):
        for c in range(C):
            want.append({rr * C + cc for rr, cc in ((r - 1, c), (r + 1, c), (r, c - 1), (r, c + 1))
                         if 0 <= rr < R and 0 <= cc < C})
    msg = _neighbors_message(mapper.neighbors, want, "rectangular %dx%d" % (R, C))
    if msg:
        return msg
    msg, centres, scales = _rect_layout_message(mapper.source_plane_mesh_grid, mesh_shape)
    return msg


# ----------------------------------------------------------------------------------------------------------------------
# Delaunay
# ----------------------------------------------------------------------------------------------------------------------

def _outside_count(mask, sub, source, mesh_points):
    from scipy.spatial import Delaunay
    return int((Delaunay(mesh_points).find_simplex(source) < 0).sum())


@bounded("C06", "delaunay-mapping-matrix", gen=_gen_delaunay,
         nontrivial=lambda mask, sub, source, mesh_points: 0 < _outside_count(mask, sub, source, mesh_points) < len(source))
def delaunay_mapping_matrix(mask, sub, source, mesh_points):
    """C06: 'every row ... is non-negative and sums to one, and entry (i,p) is the sum over the sub-pixels of image pixel
    i of (1/sub_size_i^2) times the interpolation weight of source pixel p, where the weights of a sub-pixel are the
    barycentric coordinates of its source-plane position in the triangle containing it (the nearest vertex alone if
    outside the hull)' -- aa.Mapper on aa.mesh.Delaunay; bound: masks as in rectangular-mapping-matrix but 600 (6000)
    random ones, sub sizes 1..3 (1..4), 5..12 random vertices (hull 0.6x/1x/1.3x the data extent, some vertices
    coinciding with data positions), near-co-circular vertex sets skipped."""
    import autoarray as aa
    simplices, per, margin = _delaunay_oracle(mesh_points, source)
    if margin < 1e-6:
        return None                                                     # triangulation not unique: outside the quantifier
    mapper = _delaunay_mapper(aa, mask, sub, source, mesh_points)
    if type(mapper).__name__ != "MapperDelaunay":
        return "factory returned %s" % type(mapper).__name__
    if not np.array_equal(np.asarray(mapper.source_plane_mesh_grid, dtype=float), mesh_points):
        return "source-plane mesh grid is not the supplied vertex set"
    want, tie = _expected_matrix(sub, len(mesh_points), per)
    return _matrix_message(mapper.mapping_matrix, want, tie, "delaunay")


@bounded("C06", "delaunay-unique-mappings", gen=_gen_delaunay,
         nontrivial=lambda mask, sub, source, mesh_points: int(sub.max()) > 1)
def delaunay_unique_mappings(mask, sub, source, mesh_points):
    """C06: 'The sparse unique-mapping representation used by the w-tilde formalism encodes exactly the same matrix' --
    MapperDelaunay.unique_mappings vs MapperDelaunay.mapping_matrix, |diff| <= 1e-12; bound as delaunay-mapping-matrix."""
    import autoarray as aa
    mapper = _delaunay_mapper(aa, mask, sub, source, mesh_points)
    return _unique_message(mapper.unique_mappings, np.asarray(mapper.mapping_matrix, dtype=float))


def _gen_delaunay_points(rng, tier):
    nrng = gens.np_rng(rng)
    # a regular grid jittered (many near-degenerate quadrilaterals resolved by the jitter), then random sets
    for k in range(gens.budget(tier, 2000, 30000)):
        n = rng.randint(4, 12)
        if k % 3 == 0:
            side = int(np.ceil(np.sqrt(n)))
            pts = np.array([[i, j] for i in range(side) for j in range(side)], dtype=float)[:n]
            pts = pts + 0.1 * nrng.normal(size=pts.shape)
        elif k % 10 == 1:
            # a hub inside a convex rim: a vertex with 9..14 Delaunay edges (random clouds of a dozen points rarely exceed 7)
            m = rng.randint(9, 14)
            ang = np.linspace(0.0, 2.0 * np.pi, m, endpoint=False) + 0.05 * nrng.normal(size=m)
            rad = 1.0 + 0.03 * nrng.normal(size=m)
            pts = np.vstack([[0.05 * nrng.normal(), 0.05 * nrng.normal()], np.stack([rad * np.sin(ang), rad * np.cos(ang)], axis=1)])
        else:
            pts = nrng.normal(size=(n, 2)) * np.array([1.0, rng.choice([0.3, 1.0, 3.0])])
        yield {"mesh_points": pts}


@bounded("C06", "delaunay-neighbors", gen=_gen_delaunay_points, nontrivial=lambda mesh_points: len(mesh_points) >= 5)
def delaunay_neighbors(mesh_points):
    """C06: 'Source-pixel neighbour lists are symmetric and equal the mesh adjacency (... edges of the Delaunay
    triangulation)' -- neighbours of a MapperDelaunay; oracle: edge set of an independent triangulation of the
    (x,y)-swapped vertices, verified to satisfy the empty-circumcircle property with margin >= 1e-6 (else skipped);
    bound: 2000 (30000) vertex sets of 4..12 points (jittered grids and anisotropic Gaussian clouds)."""
    import autoarray as aa
    simplices, _per, margin = _delaunay_oracle(mesh_points, mesh_points[:1])
    if margin < 1e-6:
        return None
    P = len(mesh_points)
    want = [set() for _ in range(P)]
    for t in simplices:
        for a, b in itertools.combinations([int(v) for v in t], 2):
            want[a].add(b); want[b].add(a)
    mask = np.array([[False]])
    mapper = _delaunay_mapper(aa, mask, np.array([1]), mesh_points[:1].copy() * 0.5, mesh_points)
    return _neighbors_message(mapper.neighbors, want, "delaunay")
