"""C17 structure decorators: to_array / to_grid / to_vector_yx / project_grid / transform /
relocate_to_radial_minimum (bounded stand-in; see docs/BOUNDED_GUIDE.md).

User functions are generated, non-symmetric polynomials of (y, x) with random coefficients, so that every coordinate has
its own value and a re-ordered / dropped / mirrored pairing between coordinates and entries shows up."""
import numpy as np
from pyvc.bounded import bounded
from pyvc import gens

RTOL = 1e-9
ATOL = 1e-9


def _close(a, b, rtol=RTOL, atol=ATOL):
    a = np.asarray(a, dtype=float)
    b = np.asarray(b, dtype=float)
    return a.shape == b.shape and bool(np.allclose(a, b, rtol=rtol, atol=atol, equal_nan=True))   # a NaN / inf the user function returns is its value


def _f1(c, yx):
    """scalar non-symmetric function of (y, x)"""
    yx = np.asarray(yx, dtype=float).reshape(-1, 2)
    y, x = yx[:, 0], yx[:, 1]
    return c[0] + c[1] * y + c[2] * x + c[3] * y * x + c[4] * y * y + c[5] * x * x * x


def _f2(c, yx):
    """(y, x)-pair valued function"""
    return np.stack([_f1(c[:6], yx), _f1(c[6:], yx)], axis=1)


def _coef(rng):
    return [rng.uniform(-2.0, 2.0) for _ in range(12)]


def _centres(mask, ps, og):
    H, W = mask.shape
    out = [(og[0] + ((H - 1) / 2.0 - i) * ps[0], og[1] + (j - (W - 1) / 2.0) * ps[1])
           for i in range(H) for j in range(W) if not mask[i, j]]
    return np.array(out, dtype=float).reshape(-1, 2)


def _geom(rng):
    ps = rng.choice([(1.0, 1.0), (0.5, 2.0), (2.0, 0.3), (0.1, 0.1)])
    og = rng.choice([(0.0, 0.0), (0.5, -1.0), (-3.0, 2.0)])
    return ps, og


def _profile(aa, coef, extra=None):
    """a user class with one method per decorator / return kind; every call records the grid it was handed"""
    d = aa.grid_dec

    class Profile:
        def __init__(self):
            self.seen = []

        def _rec(self, grid):
            g = np.array(grid, dtype=float).reshape(-1, 2).copy()
            self.seen.append(g)
            return g

        @d.to_array
        def array_from(self, grid, *args, **kwargs):
            return _f1(coef, self._rec(grid))

        @d.to_array
        def array_list_from(self, grid, *args, **kwargs):
            g = self._rec(grid)
            return [_f1(coef[:6], g), _f1(coef[6:], g), _f1(coef[3:9], g)]

        @d.to_grid
        def grid_from(self, grid, *args, **kwargs):
            return _f2(coef, self._rec(grid))

        @d.to_grid
        def grid_list_from(self, grid, *args, **kwargs):
            g = self._rec(grid)
            return [_f2(coef, g), _f2(coef[::-1], g)]

        @d.to_grid
        def grid_as_native_structure_from(self, grid, *args, **kwargs):
            # a function that works in the native frame and hands back a natively stored Grid2D on the input's own mask
            vals = _f2(coef, self._rec(grid))
            nat = np.zeros(grid.mask.shape + (2,))
            nat[~np.asarray(grid.mask, dtype=bool)] = vals
            return aa.Grid2D(values=nat, mask=grid.mask, store_native=True)

        @d.to_array
        def array_as_native_structure_from(self, grid, *args, **kwargs):
            vals = _f1(coef, self._rec(grid))
            nat = np.zeros(grid.mask.shape)
            nat[~np.asarray(grid.mask, dtype=bool)] = vals
            return aa.Array2D(values=nat, mask=grid.mask, store_native=True)

        @d.to_vector_yx
        def vector_from(self, grid, *args, **kwargs):
            return _f2(coef, self._rec(grid))

        @d.to_vector_yx
        def vector_list_from(self, grid, *args, **kwargs):
            g = self._rec(grid)
            return [_f2(coef, g), _f2(coef[::-1], g)]

        @d.project_grid
        def projected_from(self, grid, *args, **kwargs):
            return _f1(coef, self._rec(grid))

    p = Profile()
    for k, v in (extra or {}).items():
        setattr(p, k, v)
    return p


def _same_mask(res, grid, mask, ps, og):
    m = res.mask
    if m is grid.mask:
        return None
    if not np.array_equal(np.asarray(m), mask):
        return "result mask differs from the grid's mask"
    if tuple(m.pixel_scales) != tuple(ps) or tuple(m.origin) != tuple(og):
        return "result mask has pixel_scales/origin %r/%r, grid has %r/%r" % (m.pixel_scales, m.origin, ps, og)
    return None


def _native_ok(res, want_slim, mask):
    nat = np.asarray(res.native, dtype=float)
    want = np.zeros(mask.shape + want_slim.shape[1:])
    want[~mask] = want_slim
    return nat.shape == want.shape and _close(nat, want)


# ------------------------------------------------------------------------------------------------ Grid2D

def _gen_2d(rng, tier):
    def case(m):
        ps, og = _geom(rng)
        n = int((~m).sum())
        return {"mask": m, "pixel_scales": ps, "origin": og, "coef": _coef(rng),
                "custom": gens.reals(rng, (n, 2), -5.0, 5.0, special=False) if rng.random() < 0.5 else None}
    for m in gens.all_masks(gens.budget(tier, 8, 11), min_unmasked=1):
        yield case(m)
    for _ in range(gens.budget(tier, 300, 4000)):
        yield case(gens.random_mask(rng, 6, 6, min_unmasked=1))


@bounded("C17", "grid2d-containers", gen=_gen_2d, nontrivial=lambda mask, **k: 0 < mask.sum() and (~mask).sum() > 1)
def grid2d_containers(mask, pixel_scales, origin, coef, custom):
    """C17: 'a masked uniform grid yields an array, grid or vector field on the same mask with one entry per unmasked
    pixel in slim order ... and list results are wrapped element by element. Entry k always corresponds to coordinate k
    of the input, for every user function' -- to_array / to_grid / to_vector_yx (single and list results) called with a
    Grid2D (pixel centres of the mask, or arbitrary coordinates carried on the mask); bound: all masks <= 8 (11) cells +
    300 (4000) random <= 6x6, anisotropic scales, origins, generated polynomial functions."""
    import autoarray as aa
    mk = aa.Mask2D(mask=mask.copy(), pixel_scales=pixel_scales, origin=origin)
    if custom is None:
        grid = aa.Grid2D.from_mask(mask=mk)
        coords = _centres(mask, pixel_scales, origin)
    else:
        grid = aa.Grid2D(values=custom.copy(), mask=mk)
        coords = custom
    n = coords.shape[0]
    p = _profile(aa, coef)

    # "for every user function": one that fills and returns its own work buffer on every call.  The array returned for the first grid is
    # the result for the first grid, also after the function has been called again (entry k still belongs to coordinate k of ITS input)
    class Reuse:
        def __init__(self):
            self.buf, self.c = None, list(coef)

        @aa.grid_dec.to_array
        def image(self, grid, *args, **kwargs):
            v = _f1(self.c, np.array(grid, dtype=float).reshape(-1, 2))
            if self.buf is None or self.buf.shape != v.shape:
                self.buf = np.empty_like(v)
            self.buf[...] = v
            return self.buf
    ru = Reuse()
    first = ru.image(grid)
    want_first = _f1(coef, coords)
    ru.c = [2.0 * v + 1.0 for v in coef]
    ru.image(grid)
    if np.asarray(first.slim, dtype=float).shape != want_first.shape or not _close(np.asarray(first.slim, dtype=float), want_first):
        return ("to_array: the container returned for the first call changed when the user function (which re-uses its return buffer) was "
                "called again: now %r, f(coordinates) was %r" % (np.asarray(first.slim, dtype=float)[:3].tolist(), want_first[:3].tolist()))

    def one(res, cls, want, label):
        if not isinstance(res, cls):
            return "%s: result is %s, want %s" % (label, type(res).__name__, cls.__name__)
        msg = _same_mask(res, grid, mask, pixel_scales, origin)
        if msg:
            return label + ": " + msg
        raw = np.asarray(res)
        if raw.shape != want.shape:
            return "%s: the container holds an array of shape %r, want one entry per unmasked pixel in slim order %r" % (label, raw.shape, want.shape)
        got = np.asarray(res.slim, dtype=float)
        if got.shape != want.shape:
            return "%s: %r entries, want one per unmasked pixel %r" % (label, got.shape, want.shape)
        if not _close(got, want):
            k = int(np.argmax(np.abs(got - want).reshape(n, -1).sum(axis=1)))
            return "%s: entry %d is %r but f(coordinate %d = %r) = %r" % (label, k, got[k], k, coords[k], want[k])
        if not _native_ok(res, want, mask):
            return "%s: native form does not hold entry k at the position of unmasked pixel k (zeros elsewhere)" % label
        return None

    msg = one(p.array_from(grid), aa.Array2D, _f1(coef, coords), "to_array")
    if msg:
        return msg
    res = p.array_list_from(grid)
    wants = [_f1(coef[:6], coords), _f1(coef[6:], coords), _f1(coef[3:9], coords)]
    if not isinstance(res, list) or len(res) != 3:
        return "to_array list result is not a list of 3"
    for i in range(3):
        msg = one(res[i], aa.Array2D, wants[i], "to_array list[%d]" % i)
        if msg:
            return msg
    msg = one(p.grid_from(grid), aa.Grid2D, _f2(coef, coords), "to_grid")
    if msg:
        return msg
    res = p.grid_list_from(grid)
    wants = [_f2(coef, coords), _f2(coef[::-1], coords)]
    if not isinstance(res, list) or len(res) != 2:
        return "to_grid list result is not a list of 2"
    for i in range(2):
        msg = one(res[i], aa.Grid2D, wants[i], "to_grid list[%d]" % i)
        if msg:
            return msg
    msg = one(p.grid_as_native_structure_from(grid), aa.Grid2D, _f2(coef, coords), "to_grid (function returns a natively stored Grid2D on the input mask)") or \
        one(p.array_as_native_structure_from(grid), aa.Array2D, _f1(coef, coords), "to_array (function returns a natively stored Array2D on the input mask)")
    if msg:
        return msg
    msg = one(p.vector_from(grid), aa.VectorYX2D, _f2(coef, coords), "to_vector_yx")
    if msg:
        return msg
    res = p.vector_list_from(grid)
    if not isinstance(res, list) or len(res) != 2:
        return "to_vector_yx list result is not a list of 2"
    for i in range(2):
        msg = one(res[i], aa.VectorYX2D, wants[i], "to_vector_yx list[%d]" % i)
        if msg:
            return msg
    for g in p.seen:
        if not _close(g, coords):
            return "the user function was handed coordinates other than the grid's, in slim order"
    return None


# ------------------------------------------------------------------------------------------------ Grid2DIrregular

def _gen_irr(rng, tier):
    for i in range(gens.budget(tier, 1500, 15000)):
        n = 1 + i % 9
        pts = gens.reals(rng, (n, 2), -5.0, 5.0, special=False)
        if n > 2 and rng.random() < 0.3:
            pts[1] = pts[0]                       # repeated coordinates are legal in an irregular grid
        coef = _coef(rng)
        if rng.random() < 0.08:
            # "for every user function": one whose values are not finite (a pole, an undefined region) -- the container carries what it returned
            coef[rng.choice([0, 6])] = rng.choice([float("inf"), float("-inf"), float("nan")])
        yield {"points": pts, "coef": coef, "as_tuples": bool(rng.getrandbits(1))}


@bounded("C17", "irregular-containers", gen=_gen_irr, nontrivial=lambda points, **k: points.shape[0] > 1)
def irregular_containers(points, coef, as_tuples):
    """C17: 'an irregular grid yields the irregular counterpart with one entry per coordinate ... list results are
    wrapped element by element. Entry k always corresponds to coordinate k of the input' -- to_array / to_grid /
    to_vector_yx / project_grid with a Grid2DIrregular of 1..9 points (from an ndarray or a list of tuples); bound: 1500
    (15000) seeded point sets, generated polynomial functions."""
    import autoarray as aa
    vals = [tuple(map(float, q)) for q in points] if as_tuples else points.copy()
    n = points.shape[0]
    # "an irregular grid": the class itself and its library subclass (irregular coordinates that remember a uniform origin)
    for kind in ("Grid2DIrregular", "Grid2DIrregularUniform"):
        grid = aa.Grid2DIrregular(values=vals) if kind == "Grid2DIrregular" else \
            aa.Grid2DIrregularUniform(values=vals, shape_native=(3, 3), pixel_scales=(1.0, 1.0))
        msg = _irregular_one_grid(aa, grid, points, coef, n)
        if msg:
            return "%s: %s" % (kind, msg)
    return None


def _irregular_one_grid(aa, grid, points, coef, n):
    p = _profile(aa, coef)

    def one(res, cls, want, label):
        if not isinstance(res, cls):
            return "%s: result is %s, want %s" % (label, type(res).__name__, cls.__name__)
        got = np.asarray(res, dtype=float)
        if got.shape != want.shape:
            return "%s: %r entries, want one per coordinate %r" % (label, got.shape, want.shape)
        if not _close(got, want):
            k = int(np.argmax(np.abs(got - want).reshape(n, -1).sum(axis=1)))
            return "%s: entry %d is %r but f(coordinate %d = %r) = %r" % (label, k, got[k], k, points[k], want[k])
        return None

    from autoarray.structures.vectors.irregular import VectorYX2DIrregular
    msg = one(p.array_from(grid), aa.ArrayIrregular, _f1(coef, points), "to_array")
    if msg:
        return msg
    res = p.array_list_from(grid)
    wants = [_f1(coef[:6], points), _f1(coef[6:], points), _f1(coef[3:9], points)]
    if not isinstance(res, list) or len(res) != 3:
        return "to_array list result is not a list of 3"
    for i in range(3):
        msg = one(res[i], aa.ArrayIrregular, wants[i], "to_array list[%d]" % i)
        if msg:
            return msg
    msg = one(p.grid_from(grid), aa.Grid2DIrregular, _f2(coef, points), "to_grid")
    if msg:
        return msg
    res = p.grid_list_from(grid)
    wants = [_f2(coef, points), _f2(coef[::-1], points)]
    if not isinstance(res, list) or len(res) != 2:
        return "to_grid list result is not a list of 2"
    for i in range(2):
        msg = one(res[i], aa.Grid2DIrregular, wants[i], "to_grid list[%d]" % i)
        if msg:
            return msg
    msg = one(p.vector_from(grid), VectorYX2DIrregular, _f2(coef, points), "to_vector_yx")
    if msg:
        return msg
    res = p.vector_list_from(grid)
    if not isinstance(res, list) or len(res) != 2:
        return "to_vector_yx list result is not a list of 2"
    for i in range(2):
        msg = one(res[i], VectorYX2DIrregular, wants[i], "to_vector_yx list[%d]" % i)
        if msg:
            return msg
    msg = one(p.projected_from(grid), aa.ArrayIrregular, _f1(coef, points), "project_grid")
    if msg:
        return msg
    for g in p.seen:
        if not _close(g, points):
            return "the user function was handed coordinates other than the grid's, in order"
    return None


# ------------------------------------------------------------------------------------------------ Grid1D

def _gen_1d(rng, tier):
    def case(m, i):
        return {"mask": m, "pixel_scale": rng.choice([1.0, 0.5, 2.0, 0.1]), "origin": rng.choice([0.0, 1.0, -2.5]),
                "coef": _coef(rng), "angle": [None, 0.0, 30.0, 90.0, -45.0, 200.0][i % 6]}
    i = 0
    for n in range(1, gens.budget(tier, 10, 13)):
        for bits in range(2 ** n):
            m = np.array([(bits >> k) & 1 for k in range(n)], dtype=bool)
            if (~m).sum() >= 1:
                yield case(m, i)
                i += 1
    for _ in range(gens.budget(tier, 300, 3000)):
        n = rng.randint(1, 12)
        m = np.array([rng.random() < 0.4 for _ in range(n)], dtype=bool)
        if (~m).sum() >= 1:
            yield case(m, i)
            i += 1


def _line_direction(seen, xs):
    """unit vector u with seen[k] == xs[k] * u for every k (None if the points are not that line); xs non-zero somewhere"""
    k0 = int(np.argmax(np.abs(xs)))
    if xs[k0] == 0.0:
        return np.array([0.0, 1.0]) if _close(seen, np.zeros_like(seen)) else None
    u = seen[k0] / xs[k0]
    if not np.isclose(np.hypot(u[0], u[1]), 1.0, rtol=1e-9, atol=1e-12):
        return None
    if not _close(seen, xs[:, None] * u[None, :]):
        return None
    return u


@bounded("C17", "grid1d-projected-line", gen=_gen_1d, nontrivial=lambda mask, **k: (~mask).sum() > 1)
def grid1d_projected_line(mask, pixel_scale, origin, coef, angle):
    """C17: 'a 1D grid yields a 1D result evaluated along the radially projected line ... list results are wrapped
    element by element. Entry k always corresponds to coordinate k of the input' -- to_array (Array1D on the grid's mask),
    to_grid, project_grid (object with / without an `angle`) called with a Grid1D (from a Mask1D, masked entries
    allowed): the function must be handed, in order, the points x_k * u of one straight line through the origin (signed
    distance = the 1D coordinate; u = +x axis when no angle is involved) and entry k of the result must be f(point k);
    bound: all 1D masks of length <= 9 (12) + 300 (3000) random of length <= 12, scales, origins, 6 angles."""
    import autoarray as aa
    mk = aa.Mask1D(mask=mask.copy(), pixel_scales=(pixel_scale,), origin=(origin,))
    slim_grid = aa.Grid1D.from_mask(mask=mk)
    xs = np.asarray(slim_grid.slim, dtype=float).copy()
    n = int((~mask).sum())
    if xs.shape != (n,):
        return None
    # "a 1D grid": whichever storage form it is held in (slim, native view, native constructor)
    native_values = np.zeros(mask.shape)
    native_values[~mask] = xs
    for form, grid in (("slim-stored", slim_grid), ("grid.native", slim_grid.native),
                       ("Grid1D(store_native=True)", aa.Grid1D(values=native_values, mask=mk, store_native=True))):
        msg = _grid1d_one_form(aa, grid, xs, n, mask, pixel_scale, origin, coef, angle)
        if msg:
            return "%s Grid1D: %s" % (form, msg)
    return None


def _grid1d_one_form(aa, grid, xs, n, mask, pixel_scale, origin, coef, angle):
    extra = {"centre": (0.0, 0.0)}
    if angle is not None:
        extra["angle"] = angle
    p = _profile(aa, coef, extra)

    # to_array: Array1D on the same mask
    res = p.array_from(grid)
    if not isinstance(res, aa.Array1D):
        return "to_array: result is %s, want Array1D" % type(res).__name__
    if not (res.mask is grid.mask or (np.array_equal(np.asarray(res.mask), mask)
                                      and tuple(res.mask.pixel_scales) == (pixel_scale,)
                                      and tuple(res.mask.origin) == (origin,))):
        return "to_array: result is not on the grid's mask"
    seen = p.seen[-1]
    if seen.shape != (n, 2):
        return "to_array: function handed %r points for %d coordinates" % (seen.shape, n)
    u = _line_direction(seen, xs)
    if u is None or not _close(u, [0.0, 1.0]):
        return "to_array: the function was not handed the points (0, x_k) of the projected line: %r for x = %r" % (seen, xs)
    if not _close(np.asarray(res.slim, dtype=float), _f1(coef, seen)):
        return "to_array: entry k != f(projected coordinate k)"
    nat = np.asarray(res.native, dtype=float)
    want_nat = np.zeros(mask.shape)
    want_nat[~mask] = _f1(coef, seen)
    if not _close(nat, want_nat):
        return "to_array: native Array1D does not hold entry k at unmasked position k"

    res = p.array_list_from(grid)
    seen = p.seen[-1]
    wants = [_f1(coef[:6], seen), _f1(coef[6:], seen), _f1(coef[3:9], seen)]
    if not isinstance(res, list) or len(res) != 3:
        return "to_array list result is not a list of 3"
    for i in range(3):
        if not isinstance(res[i], aa.Array1D) or not _close(np.asarray(res[i].slim, dtype=float), wants[i]):
            return "to_array list[%d]: not an Array1D with entry k = f_i(projected coordinate k)" % i

    # to_grid: one (y, x) entry per coordinate
    res = p.grid_from(grid)
    seen = p.seen[-1]
    u = _line_direction(seen, xs) if seen.shape == (n, 2) else None
    if u is None or not _close(u, [0.0, 1.0]):
        return "to_grid: the function was not handed the points (0, x_k) of the projected line"
    got = np.asarray(res.slim if hasattr(res, "slim") else res, dtype=float)
    if got.shape != (n, 2) or not _close(got, _f2(coef, seen)):
        return "to_grid: entry k != f(projected coordinate k): %r vs %r" % (got, _f2(coef, seen))

    # project_grid: 1D result along a line (rotated when the object has an angle)
    res = p.projected_from(grid)
    seen = p.seen[-1]
    if not isinstance(res, aa.Array1D):
        return "project_grid: result is %s, want Array1D" % type(res).__name__
    u = _line_direction(seen, xs) if seen.shape == (n, 2) else None
    if u is None:
        return "project_grid: the function was not handed points x_k * u of one line through the origin: %r for x = %r" % (
            seen, xs)
    if angle is None and not _close(u, [0.0, 1.0]):
        return "project_grid: object without angle, but the line is not the x axis"
    got = np.asarray(res.slim, dtype=float)
    if got.shape != (n,) or not _close(got, _f1(coef, seen)):
        return "project_grid: entry k != f(projected coordinate k)"
    return None


# ------------------------------------------------------------------------------------------------ radial minimum

def _rot(q, angle_deg):
    """user-side reference-frame rotation (counter-clockwise frame rotation by angle)"""
    a = np.radians(angle_deg)
    y, x = q[:, 0], q[:, 1]
    return np.stack([y * np.cos(a) - x * np.sin(a), x * np.cos(a) + y * np.sin(a)], axis=1)


def _radial_profile(aa, coef, centre, angle, stack):
    d = aa.grid_dec

    class GenProfile:
        def __init__(self):
            self.seen = []
            self.centre = centre
            self.angle = angle

        def radial_grid_from(self, grid, **kwargs):
            g = np.array(grid, dtype=float).reshape(-1, 2)
            return np.sqrt(g[:, 0] ** 2 + g[:, 1] ** 2)

        def transformed_to_reference_frame_grid_from(self, grid, **kwargs):
            g = np.array(grid, dtype=float).reshape(-1, 2)
            t = _rot(g - np.array(self.centre), self.angle)
            return grid.with_new_array(t) if hasattr(grid, "with_new_array") else t

        def _rec(self, grid):
            g = np.array(grid, dtype=float).reshape(-1, 2).copy()
            self.seen.append(g)
            return g

        @d.relocate_to_radial_minimum
        def bare_from(self, grid, *args, **kwargs):
            g = self._rec(grid)
            return _f1(coef, g)

        @d.to_array
        @d.transform
        @d.relocate_to_radial_minimum
        def stacked_from(self, grid, *args, **kwargs):
            g = self._rec(grid)
            return _f1(coef, g)

        @d.to_grid
        @d.transform
        @d.relocate_to_radial_minimum
        def stacked_grid_from(self, grid, *args, **kwargs):
            g = self._rec(grid)
            return _f2(coef, g)

    return GenProfile()


class _Config:
    """temporarily configures the radial minimum of class `GenProfile` (config grids.yaml -> radial_minimum ->
    radial_minimum -> <class name>), restoring the configuration afterwards"""

    def __init__(self, r_min):
        self.r_min = r_min

    def __enter__(self):
        import os, tempfile
        from autoconf import conf
        self.conf = conf
        self.old = list(conf.instance.configs)
        self.dir = tempfile.mkdtemp(prefix="vf-c17-", dir="/var/tmp")
        with open(os.path.join(self.dir, "grids.yaml"), "w") as f:
            txt = repr(float(self.r_min))                 # YAML needs a dot in the mantissa to read a float
            if "e" in txt and "." not in txt.split("e")[0]:
                txt = txt.replace("e", ".0e")
            f.write("radial_minimum:\n  radial_minimum:\n    GenProfile: %s\n" % txt)
        conf.instance.push(self.dir)
        return self

    def __exit__(self, *a):
        import shutil
        self.conf.instance.configs = self.old
        shutil.rmtree(self.dir, ignore_errors=True)
        return False


def _radial_single(rng, r_min, kind, with_centre_point):
    fracs = [0.001, 0.1, 0.5, 0.9, 0.999, 1.001, 1.5, 3.0, 50.0]
    centre = (0.0, 0.0) if (kind == 0 or rng.random() < 0.3) else (rng.choice([0.5, -1.25, 2.0]),
                                                                    rng.choice([0.25, -0.75, 1.5]))
    angle = 0.0 if (kind == 0 or with_centre_point or rng.random() < 0.5) else rng.choice([30.0, 90.0, -45.0, 200.0])
    c = {"kind": kind, "centre": centre, "angle": angle, "coef": _coef(rng)}
    if kind in (0, 1):
        n = rng.randint(1, 8)
        pts = []
        for _ in range(n):
            r = r_min * rng.choice(fracs) * rng.uniform(0.9, 1.1) if rng.random() < 0.7 else rng.uniform(0.0, 5.0)
            th = rng.uniform(0, 2 * np.pi)
            pts.append((centre[0] + r * np.sin(th), centre[1] + r * np.cos(th)))
        if with_centre_point:
            pts[rng.randrange(n)] = (centre[0], centre[1])
        c.update(points=np.array(pts, dtype=float), mask=None, pixel_scales=None, origin=None)
    else:
        m = gens.random_mask(rng, 5, 5, min_unmasked=1, p=rng.choice([0.0, 0.3]))
        ps = rng.choice([(1.0, 1.0), (0.5, 2.0), (0.2, 0.3)])
        H, W = m.shape
        # put the profile centre at / very near the centre of an unmasked pixel
        ii, jj = [(a, b) for a in range(H) for b in range(W) if not m[a, b]][rng.randrange(int((~m).sum()))]
        og = (0.0, 0.0)
        cy = og[0] + ((H - 1) / 2.0 - ii) * ps[0]
        cx = og[1] + (jj - (W - 1) / 2.0) * ps[1]
        if with_centre_point:
            off = (0.0, 0.0)
        else:
            rr = r_min * rng.choice([0.1, 0.5, 0.9, 2.0])
            th = rng.uniform(0, 2 * np.pi)
            off = (rr * np.sin(th), rr * np.cos(th))
        c.update(centre=(cy + off[0], cx + off[1]), points=None, mask=m, pixel_scales=ps, origin=og)
    return c


def _gen_radial(rng, tier, with_centre_point=False, n_quick=80, n_thorough=1200):
    """one input = one configured minimum + six sub-cases (kinds 0,1,2 twice) evaluated under a single temporary config"""
    rmins = [1e-8, 1e-4, 0.3, 2.5]
    for i in range(gens.budget(tier, n_quick, n_thorough)):
        r_min = rmins[i % 4]
        kinds = (0, 1) if with_centre_point else (0, 1, 2, 0, 1, 2)
        yield {"r_min": r_min, "cases": [_radial_single(rng, r_min, k, with_centre_point) for k in kinds]}


def _radial_case(aa, kind, centre, angle, points, mask, pixel_scales, origin):
    """returns (input grid object, coordinates k in the profile frame before relocation)"""
    if kind == 0:
        grid = points.copy()
        coords = points
    elif kind == 1:
        grid = aa.Grid2DIrregular(values=points.copy())
        coords = points
    else:
        mk = aa.Mask2D(mask=mask.copy(), pixel_scales=pixel_scales, origin=origin)
        grid = aa.Grid2D.from_mask(mask=mk)
        coords = np.array(grid, dtype=float).reshape(-1, 2)      # "coordinate k of the input" (pixel centres: see C02)
    frame = coords if kind == 0 else _rot(coords - np.array(centre), angle)
    return grid, frame


def _check_radial_one(aa, r_min, allow_centre, kind, centre, angle, coef, points, mask, pixel_scales, origin):
    grid, frame = _radial_case(aa, kind, centre, angle, points, mask, pixel_scales, origin)
    r = np.sqrt(frame[:, 0] ** 2 + frame[:, 1] ** 2)
    if np.any(np.abs(r - r_min) < 1e-9 * r_min):
        return None                                   # tie with the minimum: either treatment acceptable
    at_centre = r == 0.0
    if at_centre.any() != allow_centre:
        return None
    if np.any((r > 0) & (r < 1e-150)):
        return None
    inside = r < r_min
    want = frame.copy()
    sel = inside & ~at_centre
    want[sel] = frame[sel] * (r_min / r[sel])[:, None]
    p = _radial_profile(aa, coef, centre, angle, None)
    before = np.array(grid, dtype=float).copy()
    if kind == 0:
        res = p.bare_from(grid)
        res2 = None
    else:
        res = p.stacked_from(grid)
        res2 = p.stacked_grid_from(grid)
    after = np.array(grid, dtype=float)
    if after.shape != before.shape or not np.array_equal(after, before, equal_nan=True):
        # the relocation is done "before evaluation" of THIS function; the caller's grid is the input of the next one
        # (a profile with a smaller minimum must still receive the original coordinates)
        k = int(np.argmax(np.abs(np.nan_to_num(after - before)).reshape(before.shape[0], -1).sum(axis=1))) if after.shape == before.shape else 0
        return "the caller's grid was changed by the evaluation: coordinate %d was %r, is now %r -- the next profile evaluated on this grid no longer receives the input coordinates" % (
            k, before.reshape(-1, 2)[k] if before.ndim > 1 else before[k], after.reshape(-1, 2)[k] if after.ndim > 1 else after[k])
    for seen in p.seen:
        if seen.shape != frame.shape:
            return "function handed %r coordinates for %r inputs" % (seen.shape, frame.shape)
        rs = np.sqrt(seen[:, 0] ** 2 + seen[:, 1] ** 2)
        out = ~inside
        if not _close(seen[out], frame[out], rtol=1e-12, atol=1e-12 * max(1.0, r_min)):
            k = int(np.flatnonzero(out)[np.argmax(np.abs(seen[out] - frame[out]).sum(axis=1))])
            return "coordinate %d at radius %r >= minimum %r reached the function as %r instead of %r" % (
                k, r[k], r_min, seen[k], frame[k])
        if not np.allclose(rs[inside], r_min, rtol=1e-9, atol=0.0):
            k = int(np.flatnonzero(inside)[np.argmax(np.abs(rs[inside] - r_min))])
            return "coordinate %d (%r in the profile frame, radius %r < minimum %r) reached the function at %r, radius " \
                   "%r, not at the minimum" % (k, frame[k], r[k], r_min, seen[k], rs[k])
        if not np.allclose(seen[sel], want[sel], rtol=1e-9, atol=1e-12 * r_min):
            return "a relocated coordinate was not moved radially (direction from the profile centre changed)"
    seen = p.seen[0]
    got = np.asarray(res.slim if hasattr(res, "slim") else res, dtype=float)
    if got.shape != (frame.shape[0],) or not _close(got, _f1(coef, seen)):
        return "entry k of the result != f(relocated coordinate k)"
    if res2 is not None:
        got = np.asarray(res2.slim if hasattr(res2, "slim") else res2, dtype=float)
        if got.shape != frame.shape or not _close(got, _f2(coef, p.seen[1])):
            return "to_grid: entry k of the result != f(relocated coordinate k)"
    return None


def _check_radial(r_min, cases, allow_centre):
    import autoarray as aa
    with _Config(r_min):
        for i, c in enumerate(cases):
            msg = _check_radial_one(aa, r_min, allow_centre, **c)
            if msg:
                return "sub-case %d (kind %d): %s" % (i, c["kind"], msg)
    return None


@bounded("C17", "radial-minimum", gen=_gen_radial, nontrivial=lambda r_min, cases: True)
def radial_minimum(r_min, cases):
    """C17: 'With the radial-minimum decorator, coordinates closer to the profile centre than the configured minimum
    are moved radially outward to exactly that minimum before evaluation and all other coordinates reach the function
    unchanged' -- relocate_to_radial_minimum bare on an ndarray (kind 0, profile at the origin), and stacked as
    to_array/to_grid > transform > relocate_to_radial_minimum on Grid2DIrregular (kind 1) and Grid2D (kind 2) for a
    profile with centre and angle (the profile's own reference-frame transform; radii measured from the profile centre);
    minimum configured per class name through a temporary grids.yaml (1e-8, 1e-4, 0.3, 2.5); coordinates at radius
    exactly 0 are left to radial-minimum-at-centre, radii within 1e-9 of the minimum are skipped; bound: 80 (1200) seeded
    inputs of 6 grids each."""
    return _check_radial(r_min, cases, allow_centre=False)


def _gen_radial_centre(rng, tier):
    return _gen_radial(rng, tier, with_centre_point=True, n_quick=40, n_thorough=400)


@bounded("C17", "radial-minimum-at-centre", gen=_gen_radial_centre, nontrivial=lambda r_min, cases: True)
def radial_minimum_at_centre(r_min, cases):
    """C17: 'coordinates closer to the profile centre than the configured minimum are moved radially outward to exactly
    that minimum before evaluation' -- as radial-minimum (kinds 0 and 1), with one input coordinate exactly AT the profile
    centre (radius 0, the usual situation of the central pixel of an odd-sized grid): it must reach the function at radius
    == minimum (any direction); bound: 40 (400) seeded inputs of 2 grids each."""
    return _check_radial(r_min, cases, allow_centre=True)


# ------------------------------------------------------------------------------------------------ projected line vs profile angle
def _gen_angle(rng, tier):
    n = gens.budget(tier, 60, 600)
    for i in range(n):
        m = np.zeros(rng.randint(2, 7), dtype=bool)
        yield {"mask": m, "pixel_scale": rng.choice([0.5, 1.0, 2.0]), "origin": rng.choice([0.0, 0.7, -1.3]), "coef": _coef(rng),
               "angles": [0.0, 0, 30.0, 90.0, -45.0, 200.0, rng.uniform(-180.0, 180.0), rng.choice([1e-9, -1e-9, 360.0, -0.0])]}


@bounded("C17", "projected-line-rotates-with-profile-angle", gen=_gen_angle)
def projected_line_rotates_with_profile_angle(mask, pixel_scale, origin, coef, angles):
    """C17: 'a 1D grid yields a 1D result evaluated along the radially projected line ... for every user function, ... profile
    centres and angles' -- the projected line of a profile with angle a is ONE function of a: its direction turns by exactly
    (a - b) between profiles with angles b and a (in the sense fixed by the pair 30, 90 degrees), including a = 0, 0.0, -0.0,
    360 and tiny angles (no special-casing of a falsy or particular angle value); entry k == f(point k) throughout.
    bound: 60 (600) seeded Grid1D inputs x 8 angles each."""
    import autoarray as aa
    mk = aa.Mask1D(mask=mask.copy(), pixel_scales=(pixel_scale,), origin=(origin,))
    grid = aa.Grid1D.from_mask(mask=mk)
    xs = np.asarray(grid.slim, dtype=float).copy()
    if not np.any(np.abs(xs) > 1e-9):
        return None

    def direction(a):
        p = _profile(aa, coef, {"centre": (0.0, 0.0), "angle": a})
        res = p.projected_from(grid)
        seen = p.seen[-1]
        u = _line_direction(seen, xs) if seen.shape == (xs.shape[0], 2) else None
        if u is None:
            return None, "project_grid(angle=%r): not handed points x_k * u of one line" % (a,)
        if not _close(np.asarray(res.slim, dtype=float), _f1(coef, seen)):
            return None, "project_grid(angle=%r): entry k != f(point k)" % (a,)
        return np.arctan2(u[0], u[1]), None       # polar angle of u = (u_y, u_x)

    t30, e = direction(30.0)
    if e:
        return e
    t90, e = direction(90.0)
    if e:
        return e
    d = (t90 - t30 + np.pi) % (2 * np.pi) - np.pi
    sense = 1.0 if abs(d - np.radians(60.0)) < 1e-6 else (-1.0 if abs(d + np.radians(60.0)) < 1e-6 else None)
    if sense is None:
        return "projected line turns by %.6f deg between profile angles 30 and 90 (want +-60)" % np.degrees(d)
    for a in angles:
        t, e = direction(a)
        if e:
            return e
        want = t30 + sense * np.radians(float(a) - 30.0)
        diff = (t - want + np.pi) % (2 * np.pi) - np.pi
        if abs(diff) > 1e-6:
            return ("projected line for profile angle %r points to %.6f deg, but the angles 30 and 90 fix it to %.6f deg"
                    % (a, np.degrees(t), np.degrees(want)))
    return None
