"""C07 class layer: the nine regularization schemes and the block assembly in `inversion.regularization_matrix`
(bounded stand-in; see docs/BOUNDED_GUIDE.md).

Linear objects are real mappers (rectangular meshes 3x3..5x5 overlaid on jittered source grids, Delaunay sets of 5..12
vertices) built as in C06, with a positive adapt-data image, plus mock mappers (`aa.m.MockMapper` carrying a real mesh
grid and fixed pixel signals) as the repo's own regularization tests use.

Bound on the parameters: coefficients in {0.01 .. 100}; above ~1e4 the fixed 1e-8 ridge is below float64 resolution of
the c^2*degree diagonal (1e8 * 2.2e-16 > 1e-8) and definiteness becomes a rounding question, which the property (stated
over the reals) does not decide.  Kernel scales 0.3 .. 3 mesh spacings.

Tolerances: symmetry |H-H^T| <= 50*eps*cond(H)*max|H| (exactly what inverting the kernel covariance can lose; ~1e-12
relative for the assembled schemes); PSD: min eigenvalue of (H+H^T)/2 >= -1e-10*max|H|; strict PD: np.linalg.cholesky(H)
succeeds AND min eigenvalue > 0; quadratic forms: |x^T H x - oracle| <= 1e-12 * sum_ij |H_ij||x_i||x_j| (a dot product of
<= 625 terms carries <= ~1.4e-13 of that sum).
"""
import itertools
import numpy as np
from pyvc.bounded import bounded
from pyvc import gens

_EPS = 2.220446049250313e-16

SCHEMES = ["Constant", "ConstantZeroth", "Zeroth", "AdaptiveBrightness", "BrightnessZeroth", "ConstantSplit",
           "AdaptiveBrightnessSplit", "GaussianKernel", "ExponentialKernel"]
STRICT_PD = {"Constant", "ConstantZeroth", "AdaptiveBrightness", "ConstantSplit", "AdaptiveBrightnessSplit",
             "GaussianKernel", "ExponentialKernel"}
SPLIT = {"ConstantSplit", "AdaptiveBrightnessSplit"}
_COEFFS = [0.01, 0.1, 1.0, 3.0, 10.0, 100.0]


# ----------------------------------------------------------------------------------------------------------------------
# generators
# ----------------------------------------------------------------------------------------------------------------------

def _sub_grid(mask, sub):
    h, w = mask.shape
    pts, k = [], 0
    for i in range(h):
        for j in range(w):
            if mask[i, j]:
                continue
            sz = int(sub[k]); k += 1
            yc, xc = (h - 1) / 2.0 - i, j - (w - 1) / 2.0
            for a in range(sz):
                for b in range(sz):
                    pts.append([yc + 0.5 - (a + 0.5) / sz, xc - 0.5 + (b + 0.5) / sz])
    return np.array(pts, dtype=float).reshape(-1, 2)


def _params(rng, scheme):
    c = lambda: float(rng.choice(_COEFFS))
    if scheme in ("Constant", "Zeroth", "ConstantSplit"):
        return {"coefficient": c()}
    if scheme == "ConstantZeroth":
        return {"coefficient_neighbor": c(), "coefficient_zeroth": c()}
    if scheme in ("AdaptiveBrightness", "AdaptiveBrightnessSplit"):
        return {"inner_coefficient": float(rng.choice([1e-5, 1e-3, 0.01, 0.1, 1.0, 10.0])),
                "outer_coefficient": float(rng.choice([1e-5, 1e-3, 0.01, 0.1, 1.0, 10.0])),
                "signal_scale": float(rng.choice([0.5, 1.0, 2.0]))}
    if scheme == "BrightnessZeroth":
        return {"coefficient": c(), "signal_scale": float(rng.choice([0.5, 1.0, 2.0]))}
    return {"coefficient": c(), "scale": float(rng.choice([0.3, 1.0, 2.0, 3.0]))}    # kernels: scale in mesh spacings


def _geometry(rng, nrng, kind):
    """a small dataset geometry: mask, per-pixel sub sizes, source positions, positive adapt image; mesh = rectangular
    shape or Delaunay vertex set"""
    mask = gens.random_mask(rng, 4, 4, p=rng.choice([0.0, 0.3]), min_unmasked=3, hmin=2, wmin=2)
    n = int((~mask).sum())
    sub = np.array([rng.choice([1, 2]) for _ in range(n)], dtype=int)
    g = _sub_grid(mask, sub)
    lin = np.eye(2) * rng.choice([0.5, 1.0, 2.0]) + 0.2 * nrng.normal(size=(2, 2))
    src = g @ lin.T + 0.05 * nrng.normal(size=g.shape) + nrng.normal(size=2)
    adapt = np.abs(nrng.normal(size=n)) + 0.05
    geo = {"mask": mask, "sub": sub, "source": src, "adapt": adapt}
    if kind == "rectangular":
        geo["mesh_shape"] = (rng.randint(3, 5), rng.randint(3, 5))
        geo["mesh_points"] = None
    else:
        npts = rng.randint(5, 12)
        lo, hi = src.min(axis=0), src.max(axis=0)
        span = np.maximum(hi - lo, 1.0)
        geo["mesh_shape"] = None
        geo["mesh_points"] = 0.5 * (lo + hi) + (nrng.random((npts, 2)) - 0.5) * span * rng.choice([0.7, 1.0, 1.3])
        r = rng.random()
        if r < 0.07:
            # a hub vertex with 34..40 neighbours (random point sets stop at about 15): "all Delaunay vertex sets" has no degree bound
            m = rng.randint(34, 40) if rng.random() < 0.5 else rng.randint(126, 136)      # ... nor does it stop at one signed byte
            ang = np.linspace(0.0, 2.0 * np.pi, m, endpoint=False) + 0.002 * nrng.normal(size=m)
            rad = 0.5 * float(span.min()) * (1.0 + 5e-4 * nrng.normal(size=(m, 1)))      # convex rim: the hub sees every rim vertex
            rim = np.stack([np.sin(ang), np.cos(ang)], axis=1) * rad
            geo["mesh_points"] = np.vstack([[0.5 * (lo + hi)], 0.5 * (lo + hi) + rim])
    return geo


def _spacing(geo):
    """typical distance between neighbouring source pixels (kernel scales are given in these units)"""
    src = geo["source"]
    ext = np.maximum(src.max(axis=0) - src.min(axis=0), 1e-3)
    if geo["mesh_shape"] is not None:
        return float(np.sqrt(ext[0] * ext[1] / (geo["mesh_shape"][0] * geo["mesh_shape"][1])))
    pts = geo["mesh_points"]
    ext = np.maximum(pts.max(axis=0) - pts.min(axis=0), 1e-3)
    return float(np.sqrt(ext[0] * ext[1] / len(pts)))


def _gen_all(rng, tier):
    nrng = gens.np_rng(rng)
    k = 0
    for _ in range(gens.budget(tier, 220, 3500)):
        for kind in ("rectangular", "delaunay"):
            geo = _geometry(rng, nrng, kind)
            for scheme in SCHEMES:
                if scheme in SPLIT and kind == "rectangular":
                    continue                       # split-cross needs a triangulation mesh (no split_cross on rectangular)
                if scheme in ("GaussianKernel", "ExponentialKernel") and geo["mesh_points"] is not None and len(geo["mesh_points"]) >= 30:
                    # hub-and-rim sets are there for the neighbour tables; for the kernel schemes 36 rim points a fraction of the kernel
                    # scale apart make the covariance ill-conditioned (cond ~ 1e9): its inverse is positive definite over the reals
                    # (eigenvalues >= 0.5) but LAPACK's Cholesky can fail on the rounding -- floating point, not the statement
                    continue
                par = _params(rng, scheme)
                if "scale" in par:
                    par["scale"] = par["scale"] * _spacing(geo)
                case = dict(geo)
                case.update({"scheme": scheme, "params": par})
                if kind == "delaunay" and scheme in ("GaussianKernel", "ExponentialKernel") and rng.random() < 0.2:
                    # two mesh vertices at the same position: the kernel schemes depend on positions only, and their ridge keeps the
                    # matrix positive definite and of the mesh's size
                    mp = case["mesh_points"].copy()
                    mp[-1] = mp[0]
                    case["mesh_points"] = mp
                yield case
            k += 1


def _gen_scheme(scheme_names, kinds=("rectangular", "delaunay"), quick=2500, thorough=30000):
    def gen(rng, tier):
        nrng = gens.np_rng(rng)
        for k in range(gens.budget(tier, quick, thorough)):
            kind = kinds[k % len(kinds)]
            geo = _geometry(rng, nrng, kind)
            case = dict(geo)
            scheme = scheme_names[k % len(scheme_names)]
            case.update({"scheme": scheme, "params": _params(rng, scheme), "x_seed": rng.randrange(2 ** 31),
                         "mock_signals": bool(k % 5 == 4)})
            yield case
    return gen


# ----------------------------------------------------------------------------------------------------------------------
# objects
# ----------------------------------------------------------------------------------------------------------------------

def _mapper(aa, mask, sub, source, adapt, mesh_shape, mesh_points, regularization=None):
    mk = aa.Mask2D(mask=mask.copy(), pixel_scales=(1.0, 1.0))
    over = aa.OverSamplerUniform(mask=mk, sub_size=aa.Array2D(values=sub.copy(), mask=mk))
    adapt_data = aa.Array2D(values=adapt.copy(), mask=mk)
    grid = aa.Grid2DIrregular(values=source.copy())
    if mesh_shape is not None:
        mg = aa.mesh.Rectangular(shape=tuple(mesh_shape)).mapper_grids_from(
            mask=mk, source_plane_data_grid=grid, border_relocator=None, adapt_data=adapt_data)
    else:
        mg = aa.mesh.Delaunay().mapper_grids_from(
            mask=mk, source_plane_data_grid=grid, source_plane_mesh_grid=aa.Grid2DIrregular(values=mesh_points.copy()),
            border_relocator=None, adapt_data=adapt_data)
    return aa.Mapper(mapper_grids=mg, over_sampler=over, regularization=regularization)


def _reg(aa, scheme, params):
    return getattr(aa.reg, scheme)(**params)


def _adjacency(mesh_shape, mesh_points):
    """neighbouring source-pixel pairs (i<j) from the statement: 4-connectivity / Delaunay edges (own triangulation of
    the (x,y)-swapped points); second value: uniqueness margin of the triangulation"""
    pairs = set()
    if mesh_shape is not None:
        R, C = mesh_shape
        for r in range(R):
            for c in range(C):
                if r + 1 < R:
                    pairs.add((r * C + c, (r + 1) * C + c))
                if c + 1 < C:
                    pairs.add((r * C + c, r * C + c + 1))
        return sorted(pairs), np.inf
    from scipy.spatial import Delaunay
    xy = mesh_points[:, ::-1].copy()
    tri = Delaunay(xy)
    margin = np.inf
    for t in tri.simplices:
        a, b, c = xy[t]
        d = 2.0 * (a[0] * (b[1] - c[1]) + b[0] * (c[1] - a[1]) + c[0] * (a[1] - b[1]))
        ux = ((a @ a) * (b[1] - c[1]) + (b @ b) * (c[1] - a[1]) + (c @ c) * (a[1] - b[1])) / d
        uy = ((a @ a) * (c[0] - b[0]) + (b @ b) * (a[0] - c[0]) + (c @ c) * (b[0] - a[0])) / d
        r = np.hypot(a[0] - ux, a[1] - uy)
        for j in range(len(xy)):
            if j not in t:
                margin = min(margin, (np.hypot(xy[j, 0] - ux, xy[j, 1] - uy) - r) / r)
        for p, q in itertools.combinations(sorted(int(v) for v in t), 2):
            pairs.add((p, q))
    return sorted(pairs), margin


# ----------------------------------------------------------------------------------------------------------------------
# checks
# ----------------------------------------------------------------------------------------------------------------------

def _basic_message(H, n, scheme):
    H = np.asarray(H, dtype=float)
    if H.shape != (n, n):
        return "%s: matrix has shape %r for %d parameters" % (scheme, H.shape, n)
    if not np.all(np.isfinite(H)):
        return "%s: matrix has non-finite entries" % scheme
    big = float(np.max(np.abs(H)))
    if big == 0.0:
        return "%s: matrix is identically zero" % scheme
    cond = float(np.linalg.cond(H))
    asym = float(np.max(np.abs(H - H.T)))
    if asym > 50 * _EPS * max(cond, 1e3) * big:
        return "%s: not symmetric: max|H-H^T| = %.3g (max|H| = %.3g, cond %.3g)" % (scheme, asym, big, cond)
    ev = np.linalg.eigvalsh(0.5 * (H + H.T))
    if ev.min() < -1e-10 * big:
        return "%s: not positive semi-definite: min eigenvalue %.6g (max|H| = %.3g)" % (scheme, ev.min(), big)
    if scheme in STRICT_PD and cond <= 1e7:
        # (beyond a condition number of 1e7 neither LAPACK's Cholesky nor the sign of the smallest computed eigenvalue says anything
        # about the matrix over the reals: such instances -- e.g. duplicated or nearly duplicated vertices under a kernel scheme --
        # are only held to the symmetric / positive semi-definite / size clauses above)
        try:
            np.linalg.cholesky(H)
        except np.linalg.LinAlgError:
            return "%s: Cholesky factorization fails (min eigenvalue %.6g, max|H| %.3g)" % (scheme, ev.min(), big)
        if not ev.min() > 0.0:
            return "%s: not strictly positive definite: min eigenvalue %.6g" % (scheme, ev.min())
    return None


@bounded("C07", "all-schemes-symmetric-psd-pd", gen=_gen_all,
         nontrivial=lambda **kw: kw["scheme"] in STRICT_PD)
def all_schemes_symmetric_psd_pd(mask, sub, source, adapt, mesh_shape, mesh_points, scheme, params):
    """C07: 'Every regularization scheme returns a symmetric positive semi-definite matrix whose size equals the linear
    object's parameter count, strictly positive definite for the neighbour-difference, split-cross and kernel (Gaussian,
    exponential) schemes, so the Cholesky factorizations and log-determinants used in the evidence exist' -- all nine
    schemes via regularization_matrix_from(linear_obj=real mapper) AND via the mapper's own .regularization_matrix;
    bound: 220 (3500) x {rectangular 3x3..5x5, Delaunay 5..12 vertices} geometries (masks <= 4x4, sub 1..2, positive adapt
    image), coefficients 0.01..100, signal scales 0.5/1/2, kernel scales 0.3..3 mesh spacings; split schemes on
    Delaunay only."""
    import autoarray as aa
    reg = _reg(aa, scheme, params)
    mapper = _mapper(aa, mask, sub, source, adapt, mesh_shape, mesh_points, regularization=reg)
    n = mesh_shape[0] * mesh_shape[1] if mesh_shape is not None else len(mesh_points)
    if mapper.params != n:
        return "mapper reports %r parameters for a mesh of %d pixels" % (mapper.params, n)
    H = np.array(reg.regularization_matrix_from(linear_obj=mapper), dtype=float)
    msg = _basic_message(H, n, scheme)
    if msg:
        return msg + " params=%r" % (params,)
    H2 = np.array(mapper.regularization_matrix, dtype=float)
    if H2.shape != H.shape or np.max(np.abs(H2 - H)) > 1e-9 * np.max(np.abs(H)):
        return "%s: linear_obj.regularization_matrix differs from regularization_matrix_from(linear_obj)" % scheme
    return None


def _quad_message(H, x, want, label):
    got = float(x @ H @ x)
    tol = 1e-12 * float(np.abs(x) @ np.abs(H) @ np.abs(x)) + 1e-300
    if abs(got - want) > tol:
        return "%s: x^T H x = %.15g but the statement gives %.15g (tol %.3g)" % (label, got, want, tol)
    return None


def _test_vectors(n, x_seed):
    nrng = np.random.default_rng(x_seed)
    xs = [np.ones(n), nrng.normal(size=n), nrng.normal(size=n) * 10.0 + 5.0]
    for i in nrng.permutation(n)[:3]:
        e = np.zeros(n); e[i] = 1.0
        xs.append(e)
    i, j = nrng.permutation(n)[:2]
    e = np.zeros(n); e[i] = 1.0; e[j] = 1.0
    xs.append(e)
    e = np.zeros(n); e[0] = 1.0; e[n - 1] = -2.0
    xs.append(e)
    return xs


@bounded("C07", "constant-quadratic-form", gen=_gen_scheme(["Constant"]),
         nontrivial=lambda **kw: kw["mesh_shape"] is None or kw["mesh_shape"][0] != kw["mesh_shape"][1])
def constant_quadratic_form(mask, sub, source, adapt, mesh_shape, mesh_points, scheme, params, x_seed, mock_signals):
    """C07: 'For the constant scheme x^T H x equals coefficient^2 times the sum over neighbouring source-pixel pairs of
    squared differences plus the 1e-8 ridge' -- aa.reg.Constant on real rectangular (3x3..5x5) and Delaunay (5..12
    vertices) mappers and on aa.m.MockMapper with the same mesh grid; x = ones, two random vectors, unit vectors, e_i+e_j,
    e_0-2e_last; pairs = own 4-connectivity / own Delaunay edges (near-co-circular sets skipped); 2500 (30000) cases."""
    import autoarray as aa
    pairs, margin = _adjacency(mesh_shape, mesh_points)
    if margin < 1e-6:
        return None
    reg = _reg(aa, scheme, params)
    mapper = _mapper(aa, mask, sub, source, adapt, mesh_shape, mesh_points)
    if mock_signals:
        mapper = aa.m.MockMapper(source_plane_mesh_grid=mapper.source_plane_mesh_grid)
    H = np.array(reg.regularization_matrix_from(linear_obj=mapper), dtype=float)
    n = mesh_shape[0] * mesh_shape[1] if mesh_shape is not None else len(mesh_points)
    if H.shape != (n, n):
        return "matrix has shape %r for %d parameters" % (H.shape, n)
    c2 = params["coefficient"] ** 2
    I = np.array([p for p, _q in pairs]); J = np.array([q for _p, q in pairs])
    for x in _test_vectors(n, x_seed):
        want = c2 * float(np.sum((x[I] - x[J]) ** 2)) + 1e-8 * float(x @ x)
        msg = _quad_message(H, x, want, "Constant(coefficient=%r)" % params["coefficient"])
        if msg:
            return msg + " x=%r" % (x,)
    return None


@bounded("C07", "adaptive-brightness-quadratic-form", gen=_gen_scheme(["AdaptiveBrightness"]),
         nontrivial=lambda **kw: not kw["mock_signals"])
def adaptive_brightness_quadratic_form(mask, sub, source, adapt, mesh_shape, mesh_points, scheme, params, x_seed,
                                       mock_signals):
    """C07: 'for the adaptive-brightness scheme the same sum with pair (i,j) weighted by w_i^2 + w_j^2, where w are the
    per-pixel regularization weights the scheme itself reports' -- aa.reg.AdaptiveBrightness, w =
    regularization_weights_from(linear_obj); real mappers (pixel signals from a positive adapt image, signal scales
    0.5/1/2, inner/outer coefficients 0.01..10) and, every 5th case, aa.m.MockMapper with fixed pixel signals; vectors and
    adjacency as in constant-quadratic-form; 2500 (30000) cases."""
    import autoarray as aa
    pairs, margin = _adjacency(mesh_shape, mesh_points)
    if margin < 1e-6:
        return None
    reg = _reg(aa, scheme, params)
    mapper = _mapper(aa, mask, sub, source, adapt, mesh_shape, mesh_points)
    n = mesh_shape[0] * mesh_shape[1] if mesh_shape is not None else len(mesh_points)
    if mock_signals:
        sig = np.random.default_rng(x_seed + 1).uniform(0.0, 1.0, size=n)
        sig[int(np.argmax(sig))] = 1.0
        mapper = aa.m.MockMapper(source_plane_mesh_grid=mapper.source_plane_mesh_grid, pixel_signals=sig)
    w = np.array(reg.regularization_weights_from(linear_obj=mapper), dtype=float)
    if w.shape != (n,) or not np.all(np.isfinite(w)):
        return "regularization_weights_from returned %r for %d pixels" % (w, n)
    H = np.array(reg.regularization_matrix_from(linear_obj=mapper), dtype=float)
    if H.shape != (n, n):
        return "matrix has shape %r for %d parameters" % (H.shape, n)
    I = np.array([p for p, _q in pairs]); J = np.array([q for _p, q in pairs])
    for x in _test_vectors(n, x_seed):
        want = float(np.sum((w[I] ** 2 + w[J] ** 2) * (x[I] - x[J]) ** 2)) + 1e-8 * float(x @ x)
        msg = _quad_message(H, x, want, "AdaptiveBrightness(%r)" % (params,))
        if msg:
            return msg + " x=%r w=%r" % (x, w)
    return None


# -- block assembly in the inversion -----------------------------------------------------------------------------------

def _gen_blocks(rng, tier):
    nrng = gens.np_rng(rng)
    for k in range(gens.budget(tier, 900, 12000)):
        mask = gens.random_mask(rng, 6, 6, p=rng.choice([0.0, 0.3]), min_unmasked=3, hmin=4, wmin=4, ring=True)
        n = int((~mask).sum())
        sub = np.array([rng.choice([1, 2]) for _ in range(n)], dtype=int)
        g = _sub_grid(mask, sub)
        objs = []
        for _o in range(rng.randint(2, 3)):
            kind = rng.choice(["rectangular", "delaunay", "func"])
            if kind == "func":
                # a list of linear functions may carry a regularization of its own (neighbouring functions smoothed with one
                # another through the `neighbors` chain the base class provides): its block is then that scheme's matrix
                sch = rng.choice([None, None, "Constant", "Zeroth", "ConstantZeroth"])
                objs.append({"kind": "func", "matrix": nrng.random((n, rng.randint(1, 3) if sch else rng.randint(1, 2))), "scheme": sch,
                             "params": _params(rng, sch) if sch else None, "source": None, "mesh_shape": None, "mesh_points": None})
                continue
            src = g * rng.choice([0.5, 1.0]) + 0.05 * nrng.normal(size=g.shape) + nrng.normal(size=2)
            o = {"kind": kind, "matrix": None, "source": src, "mesh_shape": None, "mesh_points": None}
            if kind == "rectangular":
                o["mesh_shape"] = (rng.randint(3, 4), rng.randint(3, 4))
            else:
                lo, hi = src.min(axis=0), src.max(axis=0)
                o["mesh_points"] = 0.5 * (lo + hi) + (nrng.random((rng.randint(5, 9), 2)) - 0.5) * np.maximum(hi - lo, 1.0)
            if rng.random() < 0.25:
                o["scheme"], o["params"] = None, None                   # a mapper WITHOUT regularization
            else:
                pool = [s for s in SCHEMES if not (s in SPLIT and kind == "rectangular")]
                o["scheme"] = rng.choice(pool)
                o["params"] = _params(rng, o["scheme"])
            objs.append(o)
        if all(o["scheme"] is None for o in objs):
            continue
        yield {"mask": mask, "sub": sub, "adapt": np.abs(nrng.normal(size=n)) + 0.05,
               "data": nrng.normal(size=mask.shape), "noise": nrng.uniform(0.5, 2.0, size=mask.shape), "objects": objs,
               "use_w_tilde": bool(rng.getrandbits(1))}


@bounded("C07", "inversion-block-order", gen=_gen_blocks,
         nontrivial=lambda **kw: any(o["scheme"] is None for o in kw["objects"]))
def inversion_block_order(mask, sub, adapt, data, noise, objects, use_w_tilde):
    """C07: 'An object without regularization contributes an all-zero block and blocks are placed in the order of the
    linear objects' -- aa.Inversion(...).regularization_matrix for 2-3 linear objects (rectangular / Delaunay mappers
    with any of the nine schemes or none, linear-function lists without regularization or with Constant / Zeroth / ConstantZeroth) in both formalisms; block k
    must equal scheme_k.regularization_matrix_from(object_k) (zeros if none), everything off the blocks zero;
    regularization_matrix_reduced = the same with the unregularized objects' rows/columns removed; masks <= 6x6 with a masked outer ring; 900 (12000) cases."""
    import autoarray as aa
    mk = aa.Mask2D(mask=mask.copy(), pixel_scales=(1.0, 1.0))
    im = aa.Imaging(
        data=aa.Array2D.no_mask(values=data.copy(), pixel_scales=(1.0, 1.0)),
        noise_map=aa.Array2D.no_mask(values=noise.copy(), pixel_scales=(1.0, 1.0)),
        psf=aa.Kernel2D.no_mask(values=np.array([[0.0, 0.1, 0.0], [0.1, 0.6, 0.1], [0.0, 0.1, 0.0]]), pixel_scales=(1.0, 1.0)),
        over_sampling=aa.OverSamplingDataset(uniform=aa.OverSamplingUniform(sub_size=1)),
    ).apply_mask(mask=mk)
    objs, regs = [], []
    for o in objects:
        reg = _reg(aa, o["scheme"], o["params"]) if o["scheme"] is not None else None
        if o["kind"] == "func":
            objs.append(aa.m.MockLinearObjFuncList(parameters=o["matrix"].shape[1], grid=None,
                                                   mapping_matrix=o["matrix"].copy(), regularization=reg))
        else:
            objs.append(_mapper(aa, mask, sub, o["source"], adapt, o["mesh_shape"], o["mesh_points"], regularization=reg))
        regs.append(reg)
    inv = aa.Inversion(dataset=im, linear_obj_list=objs,
                       settings=aa.SettingsInversion(use_w_tilde=use_w_tilde, use_positive_only_solver=False))
    H = np.array(inv.regularization_matrix, dtype=float)
    sizes = [int(o.params) for o in objs]
    total = sum(sizes)
    if H.shape != (total, total):
        return "regularization_matrix has shape %r for %d parameters" % (H.shape, total)
    want = np.zeros((total, total))
    keep = np.zeros(total, dtype=bool)
    off = 0
    for o, reg, sz in zip(objs, regs, sizes):
        if reg is not None:
            # fresh, equal-by-value objects so that nothing is shared with the inversion's own evaluation
            want[off:off + sz, off:off + sz] = np.array(reg.regularization_matrix_from(linear_obj=o), dtype=float)
            keep[off:off + sz] = True
        off += sz
    tol = 1e-9 * max(float(np.max(np.abs(want))), 1e-300)
    if np.max(np.abs(H - want)) > tol:
        off = 0
        for k, sz in enumerate(sizes):
            blk = np.max(np.abs(H[off:off + sz, off:off + sz] - want[off:off + sz, off:off + sz]))
            if blk > tol:
                return "block %d (%s, scheme %s) of inversion.regularization_matrix is not that object's matrix" % (
                    k, objects[k]["kind"], objects[k]["scheme"])
            off += sz
        return "inversion.regularization_matrix has non-zero entries outside the diagonal blocks"
    Hr = np.array(inv.regularization_matrix_reduced, dtype=float)
    wr = want[np.ix_(keep, keep)]
    if Hr.shape != wr.shape or np.max(np.abs(Hr - wr)) > tol:
        return "regularization_matrix_reduced is not the matrix with the unregularized objects' rows/columns removed"
    # the same statement whatever was asked of the inversion before: F + H (and a solve) first, the matrices afterwards
    inv2 = aa.Inversion(dataset=im, linear_obj_list=objs,
                        settings=aa.SettingsInversion(use_w_tilde=use_w_tilde, use_positive_only_solver=False))
    _ = np.array(inv2.curvature_reg_matrix)
    try:
        _ = inv2.reconstruction
    except aa.exc.InversionException:
        pass
    for label, v, w in (("regularization_matrix", inv2.regularization_matrix, want), ("regularization_matrix_reduced", inv2.regularization_matrix_reduced, wr),
                        ("regularization_matrix (first inversion, read again)", inv.regularization_matrix, want)):
        v = np.array(v, dtype=float)
        if v.shape != w.shape or np.max(np.abs(v - w)) > tol:
            return "%s read AFTER curvature_reg_matrix / reconstruction is no longer the block-diagonal matrix of the objects' schemes (max diff %.3g)" % (
                label, float(np.max(np.abs(v - w))) if v.shape == w.shape else float("nan"))
    return None
