"""Bounded stand-in checks on the real code (engine C); never counted as proved."""
