#!/bin/sh
# Build the overlay venv used by every check (offline; wheels from /opt/veriftools/wheels).
# Idempotent: does nothing when the venv is already usable.
set -e
cd "$(dirname "$0")"
V=.venv
if [ -x "$V/bin/python" ] && "$V/bin/python" -c "import z3, numpy, icontract, jsonschema" 2>/dev/null; then
  exit 0
fi
rm -rf "$V"
/venv/bin/python -m venv "$V"
echo "import site; site.addsitedir('/venv/lib/python3.12/site-packages')" > "$V/lib/python3.12/site-packages/repo_venv.pth"
PIP_NO_INDEX=1 "$V/bin/pip" install -q --no-index --find-links /opt/veriftools/wheels z3-solver icontract deal crosshair-tool jsonschema >/dev/null 2>&1 || \
PIP_NO_INDEX=1 "$V/bin/pip" install -q --no-index --find-links /opt/veriftools/wheels z3-solver icontract jsonschema
"$V/bin/python" -c "import z3, numpy, icontract, jsonschema; print('venv ok', z3.get_version_string())"
