"""Mechanical extraction of the real functions from /repo's working tree (every run)."""
from __future__ import annotations
import ast, os, hashlib
from typing import Dict, Optional

REPO = os.environ.get("VERIF_REPO", "/repo")

_mod_cache: Dict[str, "ModuleInfo"] = {}


class SourceError(Exception):
    pass


class ModuleInfo:
    def __init__(self, dotted: str):
        self.dotted = dotted
        path = os.path.join(REPO, *dotted.split(".")) + ".py"
        if not os.path.exists(path):
            path = os.path.join(REPO, *dotted.split("."), "__init__.py")
        if not os.path.exists(path):
            raise SourceError("module not found: " + dotted)
        self.path = path
        self.text = open(path).read()
        self.sha = hashlib.sha256(self.text.encode()).hexdigest()[:16]
        self.tree = ast.parse(self.text)
        self.imports: Dict[str, str] = {}     # local alias -> dotted module or dotted.module:name
        self.functions: Dict[str, ast.FunctionDef] = {}
        self.classes: Dict[str, ast.ClassDef] = {}
        self.constants: Dict[str, ast.expr] = {}
        for n in self.tree.body:
            if isinstance(n, ast.Import):
                for a in n.names:
                    self.imports[a.asname or a.name.split(".")[0]] = a.name
            elif isinstance(n, ast.ImportFrom):
                base = n.module or ""
                if n.level:
                    parts = dotted.split(".")
                    if path.endswith("__init__.py"):
                        parts = parts + ["__init__"]       # a package's own relative imports are relative to the package
                    base = ".".join(parts[: len(parts) - n.level] + ([n.module] if n.module else []))
                for a in n.names:
                    self.imports[a.asname or a.name] = base + "." + a.name
            elif isinstance(n, ast.FunctionDef):
                self.functions[n.name] = n
            elif isinstance(n, ast.ClassDef):
                self.classes[n.name] = n
                for m in n.body:
                    if isinstance(m, ast.FunctionDef):
                        self.functions[n.name + "." + m.name] = m
            elif isinstance(n, ast.Assign) and len(n.targets) == 1 and isinstance(n.targets[0], ast.Name):
                self.constants[n.targets[0].id] = n.value

    def resolve(self, name: str) -> Optional[str]:
        """dotted path a local alias stands for (module or module.attr), or None."""
        return self.imports.get(name)


def module(dotted: str) -> ModuleInfo:
    if dotted not in _mod_cache:
        _mod_cache[dotted] = ModuleInfo(dotted)
    return _mod_cache[dotted]


def is_module(dotted: str) -> bool:
    p = os.path.join(REPO, *dotted.split("."))
    return os.path.exists(p + ".py") or os.path.exists(os.path.join(p, "__init__.py"))


DROPPED_DECORATORS = ("jit", "staticmethod", "profile_func", "wraps", "property")


def resolve_export(key: str) -> str:
    """follow re-exports (`from .layout.region import Region2D` in a package __init__) to the defining module;
    a class name resolves to its __init__"""
    mod, qn = key.split(":")
    seen = set()
    while (mod, qn) not in seen:
        seen.add((mod, qn))
        try:
            mi = module(mod)
        except SourceError:
            break
        head = qn.split(".")[0]
        if head in mi.classes and qn == head:
            return mod + ":" + head + ".__init__"
        if qn in mi.functions or head in mi.classes:
            return mod + ":" + qn
        tgt = mi.imports.get(head)
        if tgt is None:
            break
        m2, _, name = tgt.rpartition(".")
        if not is_module(m2):
            break
        mod, qn = m2, ".".join([name] + qn.split(".")[1:])
    return key


def is_class(key: str) -> bool:
    r = resolve_export(key)
    return r.endswith(".__init__") and not key.endswith(".__init__")


def function(key: str):
    """(ModuleInfo, FunctionDef) for 'dotted.module:qualname'.  Drops only: docstring, annotations
    (ignored by the engine), and the decorators listed in DROPPED_DECORATORS."""
    key = key.split("#")[0]                      # "mod:qualname#variant": several contracts for one function
    mod, qn = key.split(":")
    mi = module(mod)
    fn = mi.functions.get(qn)
    if fn is None:
        tgt = resolve_export(key)
        if tgt != key:
            return function(tgt)
        raise SourceError("function not found: " + key)
    for d in fn.decorator_list:
        dn = d
        if isinstance(dn, ast.Call):
            dn = dn.func
        nm = dn.attr if isinstance(dn, ast.Attribute) else getattr(dn, "id", "?")
        if nm not in DROPPED_DECORATORS:
            raise SourceError("unsupported decorator %s on %s" % (nm, key))
    return mi, fn


def body_without_docstring(fn: ast.FunctionDef):
    b = fn.body
    if b and isinstance(b[0], ast.Expr) and isinstance(b[0].value, ast.Constant) and isinstance(b[0].value.value, str):
        return b[1:]
    return b


def loops_preorder(fn: ast.FunctionDef):
    out = []

    def walk(stmts):
        for s in stmts:
            if isinstance(s, (ast.For, ast.While)):
                out.append(s)
                walk(s.body)
                walk(s.orelse)
            elif isinstance(s, ast.If):
                walk(s.body)
                walk(s.orelse)
            elif isinstance(s, (ast.With, ast.Try)):
                walk(s.body)
                for h in getattr(s, "handlers", []):
                    walk(h.body)
                walk(getattr(s, "orelse", []))
                walk(getattr(s, "finalbody", []))
    walk(fn.body)
    return out
