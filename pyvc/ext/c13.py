"""Engine extensions used by contracts/c13_dft.py (part of the trusted base -- keep minimal).

(1) `z.real` / `z.imag` of a complex ndarray (`data_vector_via_transformed_mapping_matrix_from` reads
    `visibilities.real`, `transformed_mapping_matrix.imag`, ...).  Reading assumed: a real array `r` of the same
    shape with
        forall idx:  r[idx] == Re(z[idx])        (resp. Im)
    taken at the moment of the attribute read.  In numpy the attribute is a *view* of z; the engine reads it as a
    snapshot (like R5 does for a row read `a[i]`), which is exact for every function that does not write `z` or the
    view afterwards (the only user, `data_vector_via_transformed_mapping_matrix_from`, writes neither).

(2) opt-in trigonometric parity axioms, selected by `uses_math=["trig_parity"]`:
        forall a, b:  a + b == 0  ->  cos(a) == cos(b)          i.e. cos(-t) =  cos(t)
        forall a, b:  a + b == 0  ->  sin(a) == -sin(b)         i.e. sin(-t) = -sin(t)
    (stated through `a + b == 0` with the multi-patterns {cos a, cos b} / {sin a, sin b}: e-matching then needs no
    arithmetic inside a pattern).  Used only to relate the adjoint kernel `image_via_jit_from`, which evaluates
    cos / sin at +2 pi (x u + y v), to the conjugate transpose of exp(-2 pi i (x u + y v)).
"""
from __future__ import annotations
import z3

from pyvc import engine, verify
from pyvc.engine import Engine, Ref, Arr, I, R, CPX, F_COS, F_SIN, arr_sort

# ------------------------------------------------------------------------------------------- (1) z.real / z.imag
if not getattr(Engine, "_c13_realimag", False):
    _orig_attr = Engine.ev_Attribute

    def _ev_Attribute(self, node, st):
        if node.attr in ("real", "imag"):
            base = self.ev(node.value, st)
            if isinstance(base, (Ref, Arr)):
                arr = self.deref(base, st)
                if arr.elem == "complex":
                    idx = [self.fresh("i", I) for _ in arr.shape]
                    out = Arr(self.fresh("c" + node.attr, arr_sort("real", arr.rank)), arr.shape, "real")
                    part = CPX.re if node.attr == "real" else CPX.im
                    st.pc.append(z3.ForAll(idx, self.select(out, idx) == part(self.select(arr, idx)),
                                           patterns=[self.select(out, idx)]))
                    rid = next(self.ids)
                    st.heap[rid] = out
                    return Ref(rid)
        return _orig_attr(self, node, st)

    Engine.ev_Attribute = _ev_Attribute
    Engine._c13_realimag = True


# ------------------------------------------------------------------------------------------- (2) cos / sin parity
if not getattr(verify, "_c13_parity", False):
    _orig_math_axioms = verify.math_axioms

    def _math_axioms():
        d = dict(_orig_math_axioms())
        a, b = z3.Real("a!p"), z3.Real("b!p")
        d["trig_parity"] = [
            z3.ForAll([a, b], z3.Implies(a + b == 0, F_COS(a) == F_COS(b)), patterns=[z3.MultiPattern(F_COS(a), F_COS(b))]),
            z3.ForAll([a, b], z3.Implies(a + b == 0, F_SIN(a) == -F_SIN(b)), patterns=[z3.MultiPattern(F_SIN(a), F_SIN(b))]),
        ]
        return d

    verify.math_axioms = _math_axioms
    verify._c13_parity = True
