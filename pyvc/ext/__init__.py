"""engine extensions: each module registers handlers in pyvc.calls.NP_EXT / METHOD_EXT"""
