"""Engine extensions used by contracts/c18_border.py (part of the trusted base -- every fact marked ASSUMED is assumed).

A. Vectorised numpy primitives of `grid_2d_util.relocated_grid_via_jit_from` / `grid_2d_centre_from`.  Each returns a
   fresh value defined by the minimal fact stated here (ASSUMED); `n` is the length of the 1-D argument `a`.

(1) np.add(x, y), np.subtract(x, y)       == x + y, x - y   (the engine's own scalar / element-wise reading of + and -);
                                          exactly two positional arguments, any keyword (out=, where=, ...) is rejected.
(2) np.sqrt(a) of an array                fresh r, same shape:   forall i:  r[i] == sqrt(a[i])
                                          (sqrt is the engine's uninterpreted sqrt).
(3) np.mean(a), a 1-D real array          obligation  n > 0  (numpy returns NaN for an empty array; R1 has no NaN)
                                          result: a constant m_a with   n * m_a == S_a(n),
                                          S_a(0) == 0,  forall k >= 0: S_a(k + 1) == S_a(k) + a[k].
    m_a / S_a are chosen per array TERM (same term => same constant: np.mean is a function of its argument).  When the
    argument is written as the column slice `X[:, c]` of a 2-D real array the facts are stated on the column directly,
    a[k] := X[k, c], n = X.shape[0], keyed by (X, c): program and specification then denote the mean of a column of the
    same array by the SAME constant and no array-extensionality reasoning is needed to identify them.
    The recurrence only DEFINES the mean (no proof uses it); its trigger is an otherwise unused marker so that e-matching
    never unrolls it (z3 matches a trigger S(k + 1) against S(n) by solving k = n - 1 and then unrolls S(n - 1), ... on
    the symbolic length).  Inside OPAQUE_ARITH contracts the product n * m_a is written pmul18(n, m_a), see (7).
(4) np.min(a) / np.max(a), a 1-D array    obligation  n > 0  (numpy raises ValueError on an empty array)
                                          result m, ghost index w:  0 <= w < n,  m == a[w],
                                          forall j in [0, n):  m <= a[j]      (np.max:  m >= a[j]).
(5) np.argmin(a), a 1-D array             obligation  n > 0
                                          result i:  0 <= i < n,  forall j in [0, n): a[i] <= a[j],
                                          forall j in [0, i): a[i] < a[j]     (numpy: "in case of multiple occurrences of
                                          the minimum values, the indices corresponding to the first occurrence are returned").
(6) full-array copy store  `a[:, :] = b`  (every index a bare `:`; a, b heap arrays / snapshots of equal rank >= 2 and
    element type): obligations `shape-eq` per dimension; afterwards a[i, j] == b[i, j] for all i, j -- read, as numpy
    does, as an element-wise copy of every element (b is snapshot at the time of the store).

B. Opaque real arithmetic, ONLY inside the contracts listed in OPAQUE_ARITH (performance device, no new meaning).
(7) Inside those contracts the non-linear operations of the PROGRAM are read as applications of uninterpreted symbols
        np.square(x) -> sq18(x)       x * y (both non-constant reals) -> pmul18(x, y)       x / y (y non-constant) -> mfac18(x, y)
    (element-wise for arrays; the `div` obligation  y != 0  is emitted as usual), and the contract's opaque macros
        sq18(x) = x * x     mfac18(a, b) = a / b     mv18(c, m, p) = c + m * (p - c)
    denote the same symbols, so program and specification meet by congruence + LINEAR arithmetic.  The meaning of the
    symbols is given by the definitions (ASSUMED; they must agree with the macro bodies that engine C executes)
        D1  sq18(x) == x * x        D2  pmul18(x, y) == x * y        D3  mfac18(a, b) == a / b
        D4  mv18(c, m, p) == c + pmul18(m, p - c)
        D5  sqrt(a) >= 0            D6  a >= 0  ->  sqrt(a) * sqrt(a) == a          (D5, D6: the engine's own sqrt axiom)
        D7  sqd18(a, b) == sq18(a - b)            D8  radp18(y, x, c0, c1) == sqrt(sq18(y - c0) + sq18(x - c1))
    (sqd18 / radp18: squared coordinate difference and distance of the point (y, x) from (c0, c1) as symbols of their own, so
    that every trigger of the contract is a plain function application -- z3 matches triggers that contain + or -
    unreliably) of which only D4, D5, D7, D8 are handed to the solver as quantified axioms (uses_math "mv18", "sqrt_nonneg",
    "sqd18", "radp18"; all are linear over the symbols, each fires on its own left-hand side).  D1, D2, D3, D6 are used only inside the proofs of two LEMMAS, which are PROVED on every run
    (obligations `lemma:c18.scale/direct`, `lemma:c18.mfac/direct`; hypotheses = instances of D1..D6 at the lemma's own
    terms, every application of an uninterpreted symbol then replaced by a fresh constant -- a more general, purely
    real-arithmetic statement that z3 decides by nlsat in milliseconds):
        "scale"  forall c0, c1, p0, p1, rb {scale18(c0, c1, p0, p1, rb)}:
                     with r = radp18(p0, p1, c0, c1),  m = mfac18(rb, r):
                     r > 0 and rb >= 0  ->  radp18(mv18(c0, m, p0), mv18(c1, m, p1), c0, c1) == rb
                 (scaling a vector by rb / r scales its length to rb)
        "mfac"   forall a, b {mfac18(a, b)}:  b > 0  ->  (mfac18(a, b) < 1  <=>  a < b)  and  (a >= 0 -> mfac18(a, b) >= 0)
        "radp"   forall y, x, c0, c1 {radp18(y, x, c0, c1)}:  radp18(y, x, c0, c1) >= 0
    Marker predicates (`True` at run time; axioms "scale18", "rowmark18": forall x {mark(x)}: mark(x)) serve as triggers:
    scale18(..) asks for the lemma "scale" at one tuple of terms; ins18(i) / out18(i) / bnd18(i) are the ONLY triggers of the
    three per-coordinate clauses of the relocation rule, so that proving one clause for row i never instantiates the others;
    wit18(b) is the ONLY trigger of "there is a nearest border point b such that ..." (exists b forall j): a refuted
    `nearest` yields a Skolem index j(b) whose radius term would otherwise re-trigger the search for b (matching loop).
    Why: with x * x, a / b and sqrt(a)^2 == a visible, z3's non-linear solver is consulted at every final check and the
    obligations of this function (20 one-dimensional temporaries, nested quantifier alternation) time out erratically.

C. Re-statements that add no fact.
(8) (only inside the contracts listed in NO_ARRAY_EXT) the two quantified facts with which the engine defines a basic
    slice `a[lo:hi, c]` are re-stated with their index arithmetic simplified (`0 + j` -> `j`, `c - 0` -> `c`; same bound variables, same body up to z3.simplify, same triggers).
(9) row store `a[i, :] = v` of a 1-D array value into a 2-D array, ONLY inside the contracts listed in
    ROW_LEN = {contract key: n}: obligations  a.shape[1] == n  and  len(v) == n, then the n element stores
    a[i, 0] = v[0], ..., a[i, n-1] = v[n-1]  (the engine's own reading stores the array term v as ONE element).
(11) a loop invariant may mention a local that is first assigned INSIDE the loop and is declared in the loop's `types`
    (`furthest_grid_2d_slim_index_from`: the result variable).  Where the invariant is evaluated in a state in which that
    local is still unbound (initialisation), it is bound to a fresh arbitrary value of the declared type: the obligation
    then demands the invariant for EVERY value of the unbound local, which is stronger than needed.  (The engine already
    treats a declared local as bound at the loop head and after the loop; that the local is really assigned before the
    function reads it follows here from `n >= 1` and the invariant, which pins its value from the first iteration on.)
(10) (drops an axiom, adds none) the obligations of the contracts listed in NO_ARRAY_EXT are sent to z3 with
    `smt.array.extensional=false`.  The engine models a 2-D array as an array of rows, so every 1-D temporary of a
    vectorised function has the sort of an array ELEMENT and z3 instantiates the extensionality axiom for every pair
    of them (measured here: ~170 `array-ext` index terms, each re-triggering every element-wise fact; 100 000
    quantifier instances per obligation against 130 without).  No proof in these contracts needs to conclude that two
    arrays are equal from their elements; without the axiom z3 proves at most what it proves with it.  The engine's own
    `_solve` is called unchanged; only the global z3 parameter is switched around that call.
    COROLLARY_MATH = {contract key: [names]}: a corollary whose first call is that contract gets these opt-in axioms
    (the engine's Corollary record has no `uses_math` field).
"""
from __future__ import annotations
import ast
import os
import z3

from pyvc import calls, verify
from pyvc.engine import (Engine, Ref, Arr, OutsideSubset, I, R, B, toz, to_real, arr_sort, sort_kind, is_z3, F_SQRT)


def _mean_symbols(E, data, c, what):
    """per-instance symbols (mean constant, partial-sum function) of one array term / column: keyed by the identity of
    the array TERM, so the program and the specification denote the mean of the same array by the same constant, and no
    array is ever passed to an uninterpreted function (that would switch on array extensionality for the whole sort)"""
    tab = E.__dict__.setdefault("_c18_means", {})
    key = (what, data.get_id(), None if c is None else c.get_id())
    if key not in tab:
        n = next(E.fresh_n)
        tab[key] = (z3.Const("%s!%d" % (what, n), R), z3.Function("%ssum!%d" % (what, n), I, R), data)
    return tab[key][0], tab[key][1]


def _delegate(path, E, node, st):
    """hand the call back to the engine's own handler (scalar / tuple arguments)"""
    mine = calls.NP_EXT.pop(path)
    try:
        return calls.np_call(E, path, node, st)
    finally:
        calls.NP_EXT[path] = mine


def _peek(E, argnode, st):
    """evaluate an argument to look at its kind; `undo()` restores the engine state exactly (obligations, path
    condition, heap), so that delegating to the engine's own handler leaves no trace of this module"""
    no, npc, hk = len(E.obl), len(st.pc), set(st.heap)
    v = E.ev(argnode, st)

    def undo():
        del E.obl[no:]
        del st.pc[npc:]
        for h in list(st.heap):
            if h not in hk:
                del st.heap[h]
    return v, undo


def _arr1(E, v, st, what):
    a = E.deref(v, st)
    if a.rank != 1:
        raise OutsideSubset("%s of a rank-%d array" % (what, a.rank))
    return a


def _nonempty(E, st, n, what):
    if not E.spec_mode:
        E.emit("%s-nonempty@%s" % (what, E.cur_line), st, toz(n) > 0, "index")


# ------------------------------------------------------------------------------------------- B. opaque arithmetic
OPAQUE_ARITH = set()
F_SQ = z3.Function("macro.sq18", R, R)
F_PMUL = z3.Function("macro.pmul18", R, R, R)
F_MFAC = z3.Function("macro.mfac18", R, R, R)
F_MV = z3.Function("macro.mv18", R, R, R, R)
F_SQD = z3.Function("macro.sqd18", R, R, R)
F_RADP = z3.Function("macro.radp18", R, R, R, R, R)
F_SCALE = z3.Function("macro.scale18", R, R, R, R, R, B)
F_ROWMARK = [z3.Function("macro.%s18" % n, I, B) for n in ("ins", "out", "bnd", "wit")]


def _definitions():
    """D1..D6 as closed formulas (see the module docstring)"""
    x, y, a, b, c, m, p = [z3.Real(n + "!d18") for n in "xyabcmp"]
    return {
        "D1": z3.ForAll([x], F_SQ(x) == x * x),
        "D2": z3.ForAll([x, y], F_PMUL(x, y) == x * y),
        "D3": z3.ForAll([a, b], F_MFAC(a, b) == a / b),
        "D4": z3.ForAll([c, m, p], F_MV(c, m, p) == c + F_PMUL(m, p - c), patterns=[F_MV(c, m, p)]),
        "D5": z3.ForAll([a], F_SQRT(a) >= 0, patterns=[F_SQRT(a)]),
        "D7": z3.ForAll([a, b], F_SQD(a, b) == F_SQ(a - b), patterns=[F_SQD(a, b)]),
        "D8": z3.ForAll([y, x, a, b], F_RADP(y, x, a, b) == F_SQRT(F_SQ(y - a) + F_SQ(x - b)), patterns=[F_RADP(y, x, a, b)]),
        "D6": z3.ForAll([a], z3.Implies(a >= 0, F_SQRT(a) * F_SQRT(a) == a)),
    }


def _instance(q, *terms):
    return z3.substitute_vars(q.body(), *reversed(terms))


def _abstract(formulas):
    """replace every application of an uninterpreted function by a fresh constant (same symbol on syntactically equal
    abstracted arguments -> same constant).  The abstracted problem is MORE general (it forgets congruence), so a proof
    of it is a proof of the original; it is pure real arithmetic."""
    cache, memo = {}, {}

    def go(t):
        i = t.get_id()
        if i in memo:
            return memo[i]
        r = t
        if z3.is_app(t) and t.num_args() > 0:
            args = [go(ch) for ch in t.children()]
            d = t.decl()
            if d.kind() == z3.Z3_OP_UNINTERPRETED:
                key = (d.name(), tuple(u.get_id() for u in args))
                if key not in cache:
                    cache[key] = (z3.FreshConst(t.sort(), "abs"), args)   # keep args alive: ids stay unique
                r = cache[key][0]
            else:
                r = d(*args)
        memo[i] = r
        return r
    return [go(f) for f in formulas]


def _scale_terms(c0, c1, p0, p1, rb):
    a_in = F_SQ(p0 - c0) + F_SQ(p1 - c1)
    r = F_RADP(p0, p1, c0, c1)
    m = F_MFAC(rb, r)
    o0, o1 = F_MV(c0, m, p0), F_MV(c1, m, p1)
    a_out = F_SQ(o0 - c0) + F_SQ(o1 - c1)
    return a_in, r, m, o0, o1, a_out, z3.Implies(z3.And(r > 0, rb >= 0), F_RADP(o0, o1, c0, c1) == rb)


def _mfac_body(a, b):
    q = F_MFAC(a, b)
    return z3.Implies(b > 0, z3.And((q < 1) == (a < b), z3.Implies(a >= 0, q >= 0)))


def _lemmas(E):
    """register the two proved lemmas with this engine run (same mechanism as the engine's counting lemma for np.sum:
    the statement becomes available to the client proof only after its own obligation is discharged)"""
    key = ("c18.lemmas",)
    if key in E.spec_inst:
        return
    D = _definitions()
    # ---- scale
    c0, c1, p0, p1, rb = [E.fresh(n, R) for n in ("c0", "c1", "p0", "p1", "rb")]
    a_in, r, m, o0, o1, a_out, body = _scale_terms(c0, c1, p0, p1, rb)
    insts = [_instance(D["D1"], t) for t in (p0 - c0, p1 - c1, o0 - c0, o1 - c1)]
    insts += [_instance(D["D3"], rb, r), _instance(D["D4"], c0, m, p0), _instance(D["D4"], c1, m, p1),
              _instance(D["D2"], m, p0 - c0), _instance(D["D2"], m, p1 - c1)]
    insts += [_instance(D[n], t) for n in ("D5", "D6") for t in (a_in, a_out)]
    insts += [_instance(D["D8"], p0, p1, c0, c1), _instance(D["D8"], o0, o1, c0, c1)]
    vs = [z3.Real(n + "!scale") for n in ("c0", "c1", "p0", "p1", "rb")]
    scale_stmt = z3.ForAll(vs, _scale_terms(*vs)[-1], patterns=[F_SCALE(*vs)])
    sp = _abstract(insts + [body])
    # ---- mfac
    a, b = E.fresh("a", R), E.fresh("b", R)
    mp = _abstract([_instance(D["D3"], a, b), _mfac_body(a, b)])
    av, bv = z3.Real("a!mfac"), z3.Real("b!mfac")
    mfac_stmt = z3.ForAll([av, bv], _mfac_body(av, bv), patterns=[F_MFAC(av, bv)])
    # ---- radp (distance is non-negative)
    q = [E.fresh(n, R) for n in ("y", "x", "c0", "c1")]
    rp = _abstract([_instance(D["D8"], *q), _instance(D["D5"], F_SQ(q[0] - q[2]) + F_SQ(q[1] - q[3])), F_RADP(*q) >= 0])
    qv = [z3.Real(n + "!radp") for n in ("y", "x", "c0", "c1")]
    radp_stmt = z3.ForAll(qv, F_RADP(*qv) >= 0, patterns=[F_RADP(*qv)])
    E.spec_inst[key] = {"f": None, "name": "c18", "axioms": [], "env": {}, "lemmas": [
        {"name": "c18.scale", "parts": [("direct", sp[:-1], sp[-1])], "stmt": scale_stmt, "hints": [], "export": True, "spec": "c18"},
        {"name": "c18.mfac", "parts": [("direct", mp[:-1], mp[-1])], "stmt": mfac_stmt, "hints": [], "export": True, "spec": "c18"},
        {"name": "c18.radp", "parts": [("direct", rp[:-1], rp[-1])], "stmt": radp_stmt, "hints": [], "export": True, "spec": "c18"}]}


if not getattr(verify, "_c18_math", False):
    _orig_math_axioms = verify.math_axioms

    def _math_axioms():
        d = dict(_orig_math_axioms())
        D = _definitions()
        v5 = [z3.Real(n + "!m18") for n in "abcde"]
        iv = z3.Int("i!m18")
        d["mv18"] = [D["D4"]]
        d["sqd18"] = [D["D7"]]
        d["radp18"] = [D["D8"]]
        d["sqrt_nonneg"] = [D["D5"]]
        d["scale18"] = [z3.ForAll(v5, F_SCALE(*v5), patterns=[F_SCALE(*v5)])]
        d["rowmark18"] = [z3.ForAll([iv], F(iv), patterns=[F(iv)]) for F in F_ROWMARK]
        return d

    verify.math_axioms = _math_axioms
    verify._c18_math = True


def _symbolic_real(v):
    return is_z3(v) and v.sort() == R and not z3.is_rational_value(v) and not z3.is_algebraic_value(v)


if not getattr(Engine, "_c18_opaque_binop", False):
    _orig_binop = Engine.binop

    def _binop(self, op, a, b, st, node=None):
        if (self.c.key in OPAQUE_ARITH and isinstance(op, (ast.Mult, ast.Div))
                and not isinstance(a, (Ref, Arr, tuple)) and not isinstance(b, (Ref, Arr, tuple))
                and not type(a).__name__ == "Cplx" and not type(b).__name__ == "Cplx"):
            ka, kb = sort_kind(a), sort_kind(b)
            if ka in ("real", "int") and kb in ("real", "int") and "real" in (ka, kb):
                ra = to_real(a) if is_z3(a) else a
                rb = to_real(b) if is_z3(b) else b
                if isinstance(op, ast.Mult) and _symbolic_real(ra) and _symbolic_real(rb):
                    _lemmas(self)
                    return F_PMUL(ra, rb)
                if isinstance(op, ast.Div) and _symbolic_real(rb):
                    if not self.spec_mode:
                        self.need_nonzero(rb, st, node)
                    _lemmas(self)
                    return F_MFAC(to_real(a), rb)
        return _orig_binop(self, op, a, b, st, node)

    Engine.binop = _binop
    Engine._c18_opaque_binop = True


def _np_square(E, node, st):
    if E.c.key not in OPAQUE_ARITH:
        return _delegate("np.square", E, node, st)
    _lemmas(E)
    v = E.ev(node.args[0], st)
    if isinstance(v, (Ref, Arr)):
        a = E.deref(v, st)
        if a.elem not in ("real", "int"):
            raise OutsideSubset("np.square of a %s array" % a.elem)
        idx = [E.fresh("i", I) for _ in a.shape]
        out = Arr(E.fresh("sq", arr_sort("real", a.rank)), a.shape, "real")
        st.pc.append(z3.ForAll(idx, E.select(out, idx) == F_SQ(to_real(E.select(a, idx))),
                               patterns=[E.select(out, idx), E.select(a, idx)]))
        rid = next(E.ids)
        st.heap[rid] = out
        return Ref(rid)
    return F_SQ(to_real(v))


# ------------------------------------------------------------------------------------------- A. numpy primitives
def _two_plain_args(node, what):
    if len(node.args) != 2 or node.keywords:          # out= / where= / dtype= change the meaning: not read here
        raise OutsideSubset("%s with %d positional arguments / keywords" % (what, len(node.args)))


def _np_add(E, node, st):
    _two_plain_args(node, "np.add")
    return E.binop(ast.Add(), E.ev(node.args[0], st), E.ev(node.args[1], st), st, node)


def _np_subtract(E, node, st):
    _two_plain_args(node, "np.subtract")
    return E.binop(ast.Sub(), E.ev(node.args[0], st), E.ev(node.args[1], st), st, node)


def _np_sqrt(E, node, st):
    v, undo = _peek(E, node.args[0], st)
    if not isinstance(v, (Ref, Arr)):
        undo()
        return _delegate("np.sqrt", E, node, st)
    a = E.deref(v, st)
    if a.elem not in ("real", "int"):
        raise OutsideSubset("np.sqrt of a %s array" % a.elem)
    E.math_used.add("sqrt")
    idx = [E.fresh("i", I) for _ in a.shape]
    out = Arr(E.fresh("sqrt", arr_sort("real", a.rank)), a.shape, "real")
    st.pc.append(z3.ForAll(idx, E.select(out, idx) == F_SQRT(to_real(E.select(a, idx))), patterns=[E.select(out, idx)]))
    rid = next(E.ids)
    st.heap[rid] = out
    return Ref(rid)


def _is_full_slice(n):
    return isinstance(n, ast.Slice) and n.lower is None and n.upper is None and n.step is None


F_UNROLL = z3.Function("unroll18", I, B)


def _mean_facts(E, st, m, S, n, elem_of):
    k = E.fresh("k", I)
    nm = F_PMUL(z3.ToReal(n), m) if E.c.key in OPAQUE_ARITH else z3.ToReal(n) * m
    st.pc.append(z3.And(S(z3.IntVal(0)) == 0,
                        # the recurrence only DEFINES the mean (no proof in contracts/c18_border.py uses it): its trigger is an
                        # otherwise unused marker, so e-matching never unrolls it.  (z3 matches a trigger S(k + 1) against S(n)
                        # by solving k = n - 1 and then unrolls S(n - 1), S(n - 2), ... on the symbolic length: matching loop.)
                        z3.ForAll([k], z3.Implies(k >= 0, S(k + 1) == S(k) + elem_of(k)),
                                  patterns=[z3.MultiPattern(S(k), F_UNROLL(k))]),
                        nm == S(n)))


def _np_mean(E, node, st):
    if len(node.args) != 1 or node.keywords:
        raise OutsideSubset("np.mean with axis / keywords")
    if E.c.key in OPAQUE_ARITH:
        _lemmas(E)            # also in a corollary run, where no program text is executed
    a0 = node.args[0]
    if (isinstance(a0, ast.Subscript) and isinstance(a0.slice, ast.Tuple) and len(a0.slice.elts) == 2
            and _is_full_slice(a0.slice.elts[0]) and not isinstance(a0.slice.elts[1], ast.Slice)):
        base = E.ev(a0.value, st)
        if isinstance(base, (Ref, Arr)):
            X = E.deref(base, st)
            if X.rank == 2 and X.elem == "real":
                c = E.norm_index(E.ev(a0.slice.elts[1], st), X.shape[1], st, "mean-column")
                n = toz(X.shape[0])
                _nonempty(E, st, n, "mean")
                m, S = _mean_symbols(E, X.data, c, "colmean")
                _mean_facts(E, st, m, S, n, lambda k: z3.Select(z3.Select(X.data, k), c))
                return m
    a = _arr1(E, E.ev(a0, st), st, "np.mean")
    if a.elem != "real":
        raise OutsideSubset("np.mean of a %s array" % a.elem)
    n = toz(a.shape[0])
    _nonempty(E, st, n, "mean")
    m, S = _mean_symbols(E, a.data, None, "mean")
    _mean_facts(E, st, m, S, n, lambda k: z3.Select(a.data, k))
    return m


def _extreme(path, is_min):
    def h(E, node, st):
        if len(node.args) != 1 or node.keywords:
            return _delegate(path, E, node, st)
        v, undo = _peek(E, node.args[0], st)
        if not isinstance(v, (Ref, Arr)):
            undo()
            return _delegate(path, E, node, st)
        a = _arr1(E, v, st, path)
        if a.elem not in ("real", "int"):
            raise OutsideSubset(path + " of a %s array" % a.elem)
        n = toz(a.shape[0])
        _nonempty(E, st, n, "min" if is_min else "max")
        m = E.fresh("amin" if is_min else "amax", R if a.elem == "real" else I)
        w = E.fresh("w", I)
        j = E.fresh("j", I)
        el = z3.Select(a.data, j)
        st.pc.append(z3.And(w >= 0, w < n, m == z3.Select(a.data, w),
                            z3.ForAll([j], z3.Implies(z3.And(j >= 0, j < n), (m <= el) if is_min else (m >= el)), patterns=[el])))
        return m
    return h


def _np_argmin(E, node, st):
    if len(node.args) != 1 or node.keywords:
        raise OutsideSubset("np.argmin with axis / keywords")
    a = _arr1(E, E.ev(node.args[0], st), st, "np.argmin")
    if a.elem not in ("real", "int"):
        raise OutsideSubset("np.argmin of a %s array" % a.elem)
    n = toz(a.shape[0])
    _nonempty(E, st, n, "argmin")
    i = E.fresh("argmin", I)
    j = E.fresh("j", I)
    el = z3.Select(a.data, j)
    st.pc.append(z3.And(i >= 0, i < n,
                        z3.ForAll([j], z3.Implies(z3.And(j >= 0, j < n), z3.Select(a.data, i) <= el), patterns=[el]),
                        z3.ForAll([j], z3.Implies(z3.And(j >= 0, j < i), z3.Select(a.data, i) < el), patterns=[el])))
    return i


calls.NP_EXT["np.square"] = _np_square
calls.NP_EXT["np.add"] = _np_add
calls.NP_EXT["np.subtract"] = _np_subtract
calls.NP_EXT["np.sqrt"] = _np_sqrt
calls.NP_EXT["np.mean"] = _np_mean
calls.NP_EXT["np.min"] = _extreme("np.min", True)
calls.NP_EXT["np.max"] = _extreme("np.max", False)
calls.NP_EXT["np.argmin"] = _np_argmin


# ---- (6) a[:, :] = b      (9) a[i, :] = v as element stores
def _full_copy_store(E, t, v, st):
    if not isinstance(t.value, ast.Name) or not isinstance(v, (Ref, Arr)):
        return False
    idx = E.index_list(t.slice)
    if len(idx) < 2 or not all(_is_full_slice(n) for n in idx):
        return False
    base = st.env.get(t.value.id)
    if not isinstance(base, Ref):
        return False
    arr = st.heap[base.id]
    src = E.deref(v, st)
    if arr.rank != len(idx) or src.rank != arr.rank or src.elem != arr.elem:
        return False
    for s, u in zip(arr.shape, src.shape):
        E.emit("shape-eq@%s" % E.cur_line, st, toz(s) == toz(u), "shape")
    st.heap[base.id] = Arr(src.data, arr.shape, arr.elem)
    return True


ROW_LEN = {}


def _row_store(E, t, v, st):
    n = ROW_LEN.get(E.c.key)
    if n is None or not isinstance(t.value, ast.Name) or not isinstance(v, (Ref, Arr)):
        return False
    idx = E.index_list(t.slice)
    base = st.env.get(t.value.id)
    if not isinstance(base, Ref) or len(idx) != 2 or isinstance(idx[0], ast.Slice) or not _is_full_slice(idx[1]):
        return False
    arr = st.heap[base.id]
    src = E.deref(v, st)
    if arr.rank != 2 or src.rank != 1 or src.elem != arr.elem:
        return False
    i = E.norm_index(E.ev(idx[0], st), arr.shape[0], st, t.value.id)
    E.emit("rowlen@%s" % E.cur_line, st, z3.And(toz(arr.shape[1]) == n, toz(src.shape[0]) == n), "index")
    data = arr.data
    for j in range(n):
        data = E.store(data, [i, z3.IntVal(j)], z3.Select(src.data, z3.IntVal(j)))
    st.heap[base.id] = Arr(data, arr.shape, arr.elem)
    return True


if not getattr(Engine, "_c18_copy_store", False):
    _orig_assign = Engine.assign

    def _assign(self, t, v, st, checked=False):
        if isinstance(t, ast.Subscript) and (_full_copy_store(self, t, v, st) or _row_store(self, t, v, st)):
            return
        return _orig_assign(self, t, v, st, checked)

    Engine.assign = _assign
    Engine._c18_copy_store = True


# ---- (8) slice facts with simplified index arithmetic
def _resimplify(q):
    if not z3.is_quantifier(q) or not q.is_forall():
        return q
    n = q.num_vars()
    vs = [z3.Const("%s!s" % q.var_name(i), q.var_sort(i)) for i in range(n)]
    rev = list(reversed(vs))
    body = z3.simplify(z3.substitute_vars(q.body(), *rev))
    pats = []
    for k in range(q.num_patterns()):
        p = q.pattern(k)
        terms = [z3.simplify(z3.substitute_vars(p.arg(i), *rev)) for i in range(p.num_args())]
        pats.append(z3.MultiPattern(*terms) if len(terms) > 1 else terms[0])
    try:
        return z3.ForAll(vs, body, patterns=pats)
    except z3.Z3Exception:
        return q


if not getattr(Engine, "_c18_slice_simplify", False):
    _orig_slice_read = Engine.slice_read

    def _slice_read(self, arr, idx_nodes, st, node):
        n0 = len(st.pc)
        out = _orig_slice_read(self, arr, idx_nodes, st, node)
        if self.c.key in NO_ARRAY_EXT:                    # only the contracts of this module
            for i in range(n0, len(st.pc)):
                st.pc[i] = _resimplify(st.pc[i])
        return out

    Engine.slice_read = _slice_read
    Engine._c18_slice_simplify = True


# ---- (10) array extensionality off for selected contracts
NO_ARRAY_EXT = set()
COROLLARY_MATH = {}        # contract key -> uses_math of the corollaries whose first call is that contract
_current = {"key": None}

if not getattr(verify, "_c18_noext", False):
    _orig_all_axioms = verify.all_axioms
    _orig_solve = verify._solve

    def _all_axioms(E, proven_lemmas, internal_for=None):
        _current["key"] = getattr(E.c, "key", None)
        from pyvc.contract import CONTRACTS
        real = CONTRACTS.get(_current["key"])
        if real is not None and E.c is not real and _current["key"] in COROLLARY_MATH and not getattr(E.c, "uses_math", None):
            E.c.uses_math = list(COROLLARY_MATH[_current["key"]])     # opt-in axioms of a corollary over that contract
        return _orig_all_axioms(E, proven_lemmas, internal_for=internal_for)

    def _solve(hyps, goal, *args, **kwargs):
        """the engine's own _solve (whatever its current options are), with array extensionality switched off for the
        solver it creates: the global z3 parameter is set only around the call and restored afterwards"""
        if _current["key"] not in NO_ARRAY_EXT:
            return _orig_solve(hyps, goal, *args, **kwargs)
        z3.set_param("smt.array.extensional", False)
        try:
            s, r = _orig_solve(hyps, goal, *args, **kwargs)
        finally:
            z3.set_param("smt.array.extensional", True)
        if os.environ.get("C18_STATS"):
            st_ = s.statistics()
            d = {k: st_.get_key_value(k) for k in st_.keys()}
            if d.get("time", 0) > float(os.environ["C18_STATS"]):
                print("C18_STATS", r, args, kwargs, {k: d.get(k) for k in (
                    "time", "quant instantiations", "max generation", "final checks", "array splits", "decisions", "conflicts")},
                    str(goal)[:100].replace("\n", " "), flush=True)
        return s, r

    verify.all_axioms = _all_axioms
    verify._solve = _solve
    verify._orig_solve = _orig_solve
    verify._c18_noext = True


# ---- (11) invariants over locals first assigned inside the loop
from pyvc import loops  # noqa: E402
from pyvc.engine import State  # noqa: E402

if not getattr(loops, "_c18_eval_invs", False):
    _orig_eval_invs = loops.eval_invs

    def _eval_invs(E, sp, st):
        declared = sp.get("types", {}) or {}
        missing = [nm for nm in declared if nm not in st.env]
        if not missing:
            return _orig_eval_invs(E, sp, st)
        st2 = State(dict(st.env), st.heap, st.pc)
        for nm in missing:
            st2.env[nm] = loops.havoc_value(E, nm, None, st2, declared[nm])
        return _orig_eval_invs(E, sp, st2)

    loops.eval_invs = _eval_invs
    loops._c18_eval_invs = True
