"""Engine extensions used by contracts/c18_border.py (part of the trusted base -- every fact below is assumed).

Vectorised numpy primitives of `grid_2d_util.relocated_grid_via_jit_from` / `grid_2d_centre_from`.  Each returns a fresh
value defined by the minimal fact stated here; `n` is the length of the 1-D argument `a`.

(1) np.add(x, y), np.subtract(x, y)       == x + y, x - y   (the engine's own scalar / element-wise reading of + and -).
(2) np.sqrt(a) of an array                fresh r, same shape:   forall i:  r[i] == sqrt(a[i])
                                          (sqrt is the engine's uninterpreted sqrt; its axioms stay opt-in, uses_math).
(3) np.mean(a), a 1-D real array          obligation  n > 0  (numpy returns NaN for an empty array; R1 has no NaN)
                                          result m = mean1(a, n)   with   n * m == sum1(a, n),
                                          sum1(a, 0) == 0,  forall k >= 0: sum1(a, k + 1) == sum1(a, k) + a[k].
    When the argument is written as the column slice `X[:, c]` of a 2-D real array the same facts are stated on
    colmean(X, c, n) / colsum(X, c, n) with a[k] := X[k, c] (n = X.shape[0]): program and specification then denote the
    mean of a column by the SAME term and no array-extensionality reasoning is needed to identify them.
(4) np.min(a) / np.max(a), a 1-D array    obligation  n > 0  (numpy raises ValueError on an empty array)
                                          result m, ghost index w:  0 <= w < n,  m == a[w],
                                          forall j in [0, n):  m <= a[j]      (np.max:  m >= a[j]).
(5) np.argmin(a), a 1-D array             obligation  n > 0
                                          result i:  0 <= i < n,  forall j in [0, n): a[i] <= a[j].
    (numpy additionally returns the FIRST minimal index; that tie rule is not assumed.)
(7) np.square, ONLY inside the contracts listed in OPAQUE_SQUARE (performance device, no new meaning):
    np.square(x) is read as sq18(x) (element-wise for arrays: fresh r, forall i: r[i] == sq18(a[i])), where sq18 is the
    uninterpreted symbol of the opaque contract macro `sq18(x) = x * x`; its definition is the opt-in axiom
        uses_math "sq18":   forall x:  sq18(x) == x * x .
    Specification and program then share the symbol sq18, so that identifying the program's radii / distances with
    those of the specification is congruence + linear arithmetic instead of non-linear arithmetic.
(6) full-array copy store  `a[:, :] = b`  (every index a bare `:`; a, b heap arrays / snapshots of equal rank >= 2 and
    element type): obligations `shape-eq` per dimension; afterwards a[i, j] == b[i, j] for all i, j -- read, as numpy
    does, as an element-wise copy of every element (b is snapshot at the time of the store).
"""
from __future__ import annotations
import ast
import z3

from pyvc import calls
from pyvc.engine import (Engine, Ref, Arr, OutsideSubset, I, R, toz, to_real, arr_sort, sort_kind, F_SQRT)

A1 = z3.ArraySort(I, R)
A2 = z3.ArraySort(I, z3.ArraySort(I, R))
F_SUM1 = z3.Function("sum1", A1, I, R)
F_MEAN1 = z3.Function("mean1", A1, I, R)
F_COLSUM = z3.Function("colsum", A2, I, I, R)
F_COLMEAN = z3.Function("colmean", A2, I, I, R)


def _delegate(path, E, node, st):
    """hand the call back to the engine's own handler (scalar / tuple arguments)"""
    mine = calls.NP_EXT.pop(path)
    try:
        return calls.np_call(E, path, node, st)
    finally:
        calls.NP_EXT[path] = mine


def _peek(E, argnode, st):
    """evaluate an argument to look at its kind; `undo()` restores the engine state exactly (obligations, path
    condition, heap), so that delegating to the engine's own handler leaves no trace of this module"""
    no, npc, hk = len(E.obl), len(st.pc), set(st.heap)
    v = E.ev(argnode, st)

    def undo():
        del E.obl[no:]
        del st.pc[npc:]
        for h in list(st.heap):
            if h not in hk:
                del st.heap[h]
    return v, undo


def _arr1(E, v, st, what):
    a = E.deref(v, st)
    if a.rank != 1:
        raise OutsideSubset("%s of a rank-%d array" % (what, a.rank))
    return a


def _nonempty(E, st, n, what):
    if not E.spec_mode:
        E.emit("%s-nonempty@%s" % (what, E.cur_line), st, toz(n) > 0, "index")


# ---- (1) np.add / np.subtract
def _np_add(E, node, st):
    return E.binop(ast.Add(), E.ev(node.args[0], st), E.ev(node.args[1], st), st, node)


def _np_subtract(E, node, st):
    return E.binop(ast.Sub(), E.ev(node.args[0], st), E.ev(node.args[1], st), st, node)


# ---- (2) np.sqrt of an array
def _np_sqrt(E, node, st):
    v, undo = _peek(E, node.args[0], st)
    if not isinstance(v, (Ref, Arr)):
        undo()
        return _delegate("np.sqrt", E, node, st)
    a = E.deref(v, st)
    if a.elem not in ("real", "int"):
        raise OutsideSubset("np.sqrt of a %s array" % a.elem)
    E.math_used.add("sqrt")
    idx = [E.fresh("i", I) for _ in a.shape]
    out = Arr(E.fresh("sqrt", arr_sort("real", a.rank)), a.shape, "real")
    st.pc.append(z3.ForAll(idx, E.select(out, idx) == F_SQRT(to_real(E.select(a, idx))), patterns=[E.select(out, idx)]))
    rid = next(E.ids)
    st.heap[rid] = out
    return Ref(rid)


# ---- (3) np.mean
def _is_full_slice(n):
    return isinstance(n, ast.Slice) and n.lower is None and n.upper is None and n.step is None


def _np_mean(E, node, st):
    if len(node.args) != 1 or node.keywords:
        raise OutsideSubset("np.mean with axis / keywords")
    a0 = node.args[0]
    k = E.fresh("k", I)
    if (isinstance(a0, ast.Subscript) and isinstance(a0.slice, ast.Tuple) and len(a0.slice.elts) == 2
            and _is_full_slice(a0.slice.elts[0]) and not isinstance(a0.slice.elts[1], ast.Slice)):
        base = E.ev(a0.value, st)
        if isinstance(base, (Ref, Arr)):
            X = E.deref(base, st)
            if X.rank == 2 and X.elem == "real":
                c = E.norm_index(E.ev(a0.slice.elts[1], st), X.shape[1], st, "mean-column")
                n = toz(X.shape[0])
                _nonempty(E, st, n, "mean")
                m = F_COLMEAN(X.data, c, n)
                st.pc.append(z3.And(
                    F_COLSUM(X.data, c, z3.IntVal(0)) == 0,
                    z3.ForAll([k], z3.Implies(k >= 0, F_COLSUM(X.data, c, k + 1) == F_COLSUM(X.data, c, k) + z3.Select(z3.Select(X.data, k), c)),
                              patterns=[F_COLSUM(X.data, c, k + 1)]),
                    z3.ToReal(n) * m == F_COLSUM(X.data, c, n)))
                return m
    a = _arr1(E, E.ev(a0, st), st, "np.mean")
    if a.elem != "real":
        raise OutsideSubset("np.mean of a %s array" % a.elem)
    n = toz(a.shape[0])
    _nonempty(E, st, n, "mean")
    m = F_MEAN1(a.data, n)
    st.pc.append(z3.And(
        F_SUM1(a.data, z3.IntVal(0)) == 0,
        z3.ForAll([k], z3.Implies(k >= 0, F_SUM1(a.data, k + 1) == F_SUM1(a.data, k) + z3.Select(a.data, k)),
                  patterns=[F_SUM1(a.data, k + 1)]),
        z3.ToReal(n) * m == F_SUM1(a.data, n)))
    return m


# ---- (4) np.min / np.max of a 1-D array
def _extreme(path, is_min):
    def h(E, node, st):
        if len(node.args) != 1 or node.keywords:
            return _delegate(path, E, node, st)
        v, undo = _peek(E, node.args[0], st)
        if not isinstance(v, (Ref, Arr)):
            undo()
            return _delegate(path, E, node, st)
        a = _arr1(E, v, st, path)
        if a.elem not in ("real", "int"):
            raise OutsideSubset(path + " of a %s array" % a.elem)
        n = toz(a.shape[0])
        _nonempty(E, st, n, "min" if is_min else "max")
        m = E.fresh("amin" if is_min else "amax", R if a.elem == "real" else I)
        w = E.fresh("w", I)
        j = E.fresh("j", I)
        el = z3.Select(a.data, j)
        st.pc.append(z3.And(w >= 0, w < n, m == z3.Select(a.data, w),
                            z3.ForAll([j], z3.Implies(z3.And(j >= 0, j < n), (m <= el) if is_min else (m >= el)), patterns=[el])))
        return m
    return h


# ---- (5) np.argmin of a 1-D array
def _np_argmin(E, node, st):
    if len(node.args) != 1 or node.keywords:
        raise OutsideSubset("np.argmin with axis / keywords")
    a = _arr1(E, E.ev(node.args[0], st), st, "np.argmin")
    if a.elem not in ("real", "int"):
        raise OutsideSubset("np.argmin of a %s array" % a.elem)
    n = toz(a.shape[0])
    _nonempty(E, st, n, "argmin")
    i = E.fresh("argmin", I)
    j = E.fresh("j", I)
    el = z3.Select(a.data, j)
    st.pc.append(z3.And(i >= 0, i < n,
                        z3.ForAll([j], z3.Implies(z3.And(j >= 0, j < n), z3.Select(a.data, i) <= el), patterns=[el])))
    return i


# ---- (7) opaque square
OPAQUE_SQUARE = set()
F_SQ = z3.Function("macro.sq18", R, R)


def _np_square(E, node, st):
    if E.c.key not in OPAQUE_SQUARE:
        return _delegate("np.square", E, node, st)
    v = E.ev(node.args[0], st)
    if isinstance(v, (Ref, Arr)):
        a = E.deref(v, st)
        if a.elem not in ("real", "int"):
            raise OutsideSubset("np.square of a %s array" % a.elem)
        idx = [E.fresh("i", I) for _ in a.shape]
        out = Arr(E.fresh("sq", arr_sort("real", a.rank)), a.shape, "real")
        st.pc.append(z3.ForAll(idx, E.select(out, idx) == F_SQ(to_real(E.select(a, idx))),
                               patterns=[E.select(out, idx), E.select(a, idx)]))
        rid = next(E.ids)
        st.heap[rid] = out
        return Ref(rid)
    return F_SQ(to_real(v))


from pyvc import verify  # noqa: E402

if not getattr(verify, "_c18_sq", False):
    _orig_math_axioms = verify.math_axioms

    def _math_axioms():
        d = dict(_orig_math_axioms())
        x = z3.Real("x!sq")
        d["sq18"] = [z3.ForAll([x], F_SQ(x) == x * x, patterns=[F_SQ(x)])]
        return d

    verify.math_axioms = _math_axioms
    verify._c18_sq = True

calls.NP_EXT["np.square"] = _np_square
calls.NP_EXT["np.add"] = _np_add
calls.NP_EXT["np.subtract"] = _np_subtract
calls.NP_EXT["np.sqrt"] = _np_sqrt
calls.NP_EXT["np.mean"] = _np_mean
calls.NP_EXT["np.min"] = _extreme("np.min", True)
calls.NP_EXT["np.max"] = _extreme("np.max", False)
calls.NP_EXT["np.argmin"] = _np_argmin


# ---- (6) a[:, :] = b
def _full_copy_store(E, t, v, st):
    if not isinstance(t.value, ast.Name) or not isinstance(v, (Ref, Arr)):
        return False
    idx = E.index_list(t.slice)
    if len(idx) < 2 or not all(_is_full_slice(n) for n in idx):
        return False
    base = st.env.get(t.value.id)
    if not isinstance(base, Ref):
        return False
    arr = st.heap[base.id]
    src = E.deref(v, st)
    if arr.rank != len(idx) or src.rank != arr.rank or src.elem != arr.elem:
        return False
    for s, u in zip(arr.shape, src.shape):
        E.emit("shape-eq@%s" % E.cur_line, st, toz(s) == toz(u), "shape")
    st.heap[base.id] = Arr(src.data, arr.shape, arr.elem)
    return True


if not getattr(Engine, "_c18_copy_store", False):
    _orig_assign = Engine.assign

    def _assign(self, t, v, st, checked=False):
        if isinstance(t, ast.Subscript) and _full_copy_store(self, t, v, st):
            return
        return _orig_assign(self, t, v, st, checked)

    Engine.assign = _assign
    Engine._c18_copy_store = True
