"""Engine extensions used by contracts/c18_border.py (part of the trusted base -- every fact below is assumed).

Vectorised numpy primitives of `grid_2d_util.relocated_grid_via_jit_from` / `grid_2d_centre_from`.  Each returns a fresh
value defined by the minimal fact stated here; `n` is the length of the 1-D argument `a`.

(1) np.add(x, y), np.subtract(x, y)       == x + y, x - y   (the engine's own scalar / element-wise reading of + and -).
(2) np.sqrt(a) of an array                fresh r, same shape:   forall i:  r[i] == sqrt(a[i])
                                          (sqrt is the engine's uninterpreted sqrt; its axioms stay opt-in, uses_math).
(3) np.mean(a), a 1-D real array          obligation  n > 0  (numpy returns NaN for an empty array; R1 has no NaN)
                                          result: a constant m_a with   n * m_a == S_a(n),
                                          S_a(0) == 0,  forall k >= 0: S_a(k + 1) == S_a(k) + a[k].
    m_a / S_a are chosen per array TERM (same term => same constant: np.mean is a function of its argument).  When the
    argument is written as the column slice `X[:, c]` of a 2-D real array the facts are stated on the column directly,
    a[k] := X[k, c], n = X.shape[0], keyed by (X, c): program and specification then denote the mean of a column of the
    same array by the SAME constant and no array-extensionality reasoning is needed to identify them.
(4) np.min(a) / np.max(a), a 1-D array    obligation  n > 0  (numpy raises ValueError on an empty array)
                                          result m, ghost index w:  0 <= w < n,  m == a[w],
                                          forall j in [0, n):  m <= a[j]      (np.max:  m >= a[j]).
(5) np.argmin(a), a 1-D array             obligation  n > 0
                                          result i:  0 <= i < n,  forall j in [0, n): a[i] <= a[j].
    (numpy additionally returns the FIRST minimal index; that tie rule is not assumed.)
(7) opaque arithmetic with explicit unfold points (performance device; the DSL macros of contracts/c18_border.py and
    the definitions below must agree -- engine C executes the macro bodies on every run):
      sq18(x)  = x * x         mfac18(a, b) = a / b         mv18(c, m, p) = c + m * (p - c)         unf18(x) = x
    are opaque macros (uninterpreted symbols for the prover).  Inside the contracts listed in OPAQUE_SQUARE np.square(x)
    is read as sq18(x) (element-wise for arrays: fresh r, forall i: r[i] == sq18(a[i])), so the program's radii and
    distances are identified with those of the specification by congruence + linear arithmetic.  The definitions are
    opt-in axioms (uses_math) that fire only where a ghost assertion asks for them:
      "sq18":        forall x {unf18(x)}:            unf18(x) == x  and  sq18(x) == x * x
      "mfac18":      forall a, b {u_mfac18(a, b)}:   u_mfac18(a, b)  and  mfac18(a, b) == a / b
      "mv18":        forall c, m, p {u_mv18(c, m, p)}: u_mv18(c, m, p)  and  mv18(c, m, p) == c + m * (p - c)
    (u_* are marker predicates, `True` at run time), and the engine's sqrt axiom split in two:
      "sqrt_nonneg": forall a {sqrt(a)}:             sqrt(a) >= 0
      "sqrt_sq_at":  forall a {sqrt(unf18(a))}:      a >= 0  ->  sqrt(a) * sqrt(a) == a
    Unfolding every square / quotient / square root everywhere drowns z3's non-linear solver.
(8) (no new fact) the two quantified facts with which the engine defines a basic slice `a[lo:hi, c]` are re-stated with
    their index arithmetic simplified (`0 + j` -> `j`, `c - 0` -> `c`): with the unsimplified offsets the forward
    (trigger: slice element) and backward (trigger: source element) facts feed each other new index terms
    `0 + t`, `(0 + t) - 0`, ... -- a matching loop that makes every obligation of a function with several column
    slices slow.  Same bound variables, same body up to z3.simplify, same triggers.
(9) (no new fact) row store `a[i, :] = v` of a 1-D array value into a 2-D array, ONLY inside the contracts listed in
    ROW_LEN = {contract key: n}: obligations  a.shape[1] == n  and  len(v) == n, then the n element stores
    a[i, 0] = v[0], ..., a[i, n-1] = v[n-1]  -- the engine's own reading stores the array term v as ONE element of the
    array-of-rows, which makes every 1-D array of the proof a potential array element and switches on pairwise
    extensionality reasoning (measured: 170 `array-ext` index terms, 60 000 quantifier instances per obligation).
(10) (drops an axiom, adds none) the obligations of the contracts listed in NO_ARRAY_EXT are sent to z3 with
    `smt.array.extensional=false`.  The engine models a 2-D array as an array of rows, so every 1-D temporary of a
    vectorised function has the sort of an array ELEMENT and z3 instantiates the extensionality axiom for every pair
    of them (measured here: ~170 `array-ext` index terms, each re-triggering every element-wise fact; 100 000
    quantifier instances against 130 without).  No proof in these contracts needs to conclude that two arrays are equal
    from their elements; without the axiom z3 proves at most what it proves with it.
(6) full-array copy store  `a[:, :] = b`  (every index a bare `:`; a, b heap arrays / snapshots of equal rank >= 2 and
    element type): obligations `shape-eq` per dimension; afterwards a[i, j] == b[i, j] for all i, j -- read, as numpy
    does, as an element-wise copy of every element (b is snapshot at the time of the store).
"""
from __future__ import annotations
import ast
import z3

from pyvc import calls
from pyvc.engine import (Engine, Ref, Arr, OutsideSubset, I, R, toz, to_real, arr_sort, sort_kind, F_SQRT)


def _mean_symbols(E, data, c, what):
    """per-instance symbols (mean constant, partial-sum function) of one array term / column: keyed by the identity of
    the array TERM, so the program and the specification denote the mean of the same array by the same constant, and no
    array is ever passed to an uninterpreted function (that would switch on array extensionality for the whole sort)"""
    tab = E.__dict__.setdefault("_c18_means", {})
    key = (what, data.get_id(), None if c is None else c.get_id())
    if key not in tab:
        n = next(E.fresh_n)
        tab[key] = (z3.Const("%s!%d" % (what, n), R), z3.Function("%ssum!%d" % (what, n), I, R), data)
    return tab[key][0], tab[key][1]


def _delegate(path, E, node, st):
    """hand the call back to the engine's own handler (scalar / tuple arguments)"""
    mine = calls.NP_EXT.pop(path)
    try:
        return calls.np_call(E, path, node, st)
    finally:
        calls.NP_EXT[path] = mine


def _peek(E, argnode, st):
    """evaluate an argument to look at its kind; `undo()` restores the engine state exactly (obligations, path
    condition, heap), so that delegating to the engine's own handler leaves no trace of this module"""
    no, npc, hk = len(E.obl), len(st.pc), set(st.heap)
    v = E.ev(argnode, st)

    def undo():
        del E.obl[no:]
        del st.pc[npc:]
        for h in list(st.heap):
            if h not in hk:
                del st.heap[h]
    return v, undo


def _arr1(E, v, st, what):
    a = E.deref(v, st)
    if a.rank != 1:
        raise OutsideSubset("%s of a rank-%d array" % (what, a.rank))
    return a


def _nonempty(E, st, n, what):
    if not E.spec_mode:
        E.emit("%s-nonempty@%s" % (what, E.cur_line), st, toz(n) > 0, "index")


# ---- (1) np.add / np.subtract
def _np_add(E, node, st):
    return E.binop(ast.Add(), E.ev(node.args[0], st), E.ev(node.args[1], st), st, node)


def _np_subtract(E, node, st):
    return E.binop(ast.Sub(), E.ev(node.args[0], st), E.ev(node.args[1], st), st, node)


# ---- (2) np.sqrt of an array
def _np_sqrt(E, node, st):
    v, undo = _peek(E, node.args[0], st)
    if not isinstance(v, (Ref, Arr)):
        undo()
        return _delegate("np.sqrt", E, node, st)
    a = E.deref(v, st)
    if a.elem not in ("real", "int"):
        raise OutsideSubset("np.sqrt of a %s array" % a.elem)
    E.math_used.add("sqrt")
    idx = [E.fresh("i", I) for _ in a.shape]
    out = Arr(E.fresh("sqrt", arr_sort("real", a.rank)), a.shape, "real")
    st.pc.append(z3.ForAll(idx, E.select(out, idx) == F_SQRT(to_real(E.select(a, idx))), patterns=[E.select(out, idx)]))
    rid = next(E.ids)
    st.heap[rid] = out
    return Ref(rid)


# ---- (3) np.mean
def _is_full_slice(n):
    return isinstance(n, ast.Slice) and n.lower is None and n.upper is None and n.step is None


def _np_mean(E, node, st):
    if len(node.args) != 1 or node.keywords:
        raise OutsideSubset("np.mean with axis / keywords")
    a0 = node.args[0]
    k = E.fresh("k", I)
    if (isinstance(a0, ast.Subscript) and isinstance(a0.slice, ast.Tuple) and len(a0.slice.elts) == 2
            and _is_full_slice(a0.slice.elts[0]) and not isinstance(a0.slice.elts[1], ast.Slice)):
        base = E.ev(a0.value, st)
        if isinstance(base, (Ref, Arr)):
            X = E.deref(base, st)
            if X.rank == 2 and X.elem == "real":
                c = E.norm_index(E.ev(a0.slice.elts[1], st), X.shape[1], st, "mean-column")
                n = toz(X.shape[0])
                _nonempty(E, st, n, "mean")
                m, S = _mean_symbols(E, X.data, c, "colmean")
                st.pc.append(z3.And(
                    S(z3.IntVal(0)) == 0,
                    z3.ForAll([k], z3.Implies(k >= 0, S(k + 1) == S(k) + z3.Select(z3.Select(X.data, k), c)), patterns=[S(k + 1)]),
                    z3.ToReal(n) * m == S(n)))
                return m
    a = _arr1(E, E.ev(a0, st), st, "np.mean")
    if a.elem != "real":
        raise OutsideSubset("np.mean of a %s array" % a.elem)
    n = toz(a.shape[0])
    _nonempty(E, st, n, "mean")
    m, S = _mean_symbols(E, a.data, None, "mean")
    st.pc.append(z3.And(
        S(z3.IntVal(0)) == 0,
        z3.ForAll([k], z3.Implies(k >= 0, S(k + 1) == S(k) + z3.Select(a.data, k)), patterns=[S(k + 1)]),
        z3.ToReal(n) * m == S(n)))
    return m


# ---- (4) np.min / np.max of a 1-D array
def _extreme(path, is_min):
    def h(E, node, st):
        if len(node.args) != 1 or node.keywords:
            return _delegate(path, E, node, st)
        v, undo = _peek(E, node.args[0], st)
        if not isinstance(v, (Ref, Arr)):
            undo()
            return _delegate(path, E, node, st)
        a = _arr1(E, v, st, path)
        if a.elem not in ("real", "int"):
            raise OutsideSubset(path + " of a %s array" % a.elem)
        n = toz(a.shape[0])
        _nonempty(E, st, n, "min" if is_min else "max")
        m = E.fresh("amin" if is_min else "amax", R if a.elem == "real" else I)
        w = E.fresh("w", I)
        j = E.fresh("j", I)
        el = z3.Select(a.data, j)
        st.pc.append(z3.And(w >= 0, w < n, m == z3.Select(a.data, w),
                            z3.ForAll([j], z3.Implies(z3.And(j >= 0, j < n), (m <= el) if is_min else (m >= el)), patterns=[el])))
        return m
    return h


# ---- (5) np.argmin of a 1-D array
def _np_argmin(E, node, st):
    if len(node.args) != 1 or node.keywords:
        raise OutsideSubset("np.argmin with axis / keywords")
    a = _arr1(E, E.ev(node.args[0], st), st, "np.argmin")
    if a.elem not in ("real", "int"):
        raise OutsideSubset("np.argmin of a %s array" % a.elem)
    n = toz(a.shape[0])
    _nonempty(E, st, n, "argmin")
    i = E.fresh("argmin", I)
    j = E.fresh("j", I)
    el = z3.Select(a.data, j)
    st.pc.append(z3.And(i >= 0, i < n,
                        z3.ForAll([j], z3.Implies(z3.And(j >= 0, j < n), z3.Select(a.data, i) <= el), patterns=[el])))
    return i


# ---- (7) opaque square
OPAQUE_SQUARE = set()
F_SQ = z3.Function("macro.sq18", R, R)
F_UNF = z3.Function("macro.unf18", R, R)
F_MFAC = z3.Function("macro.mfac18", R, R, R)
F_UMFAC = z3.Function("macro.u_mfac18", R, R, z3.BoolSort())
F_MV = z3.Function("macro.mv18", R, R, R, R)
F_UMV = z3.Function("macro.u_mv18", R, R, R, z3.BoolSort())


def _np_square(E, node, st):
    if E.c.key not in OPAQUE_SQUARE:
        return _delegate("np.square", E, node, st)
    v = E.ev(node.args[0], st)
    if isinstance(v, (Ref, Arr)):
        a = E.deref(v, st)
        if a.elem not in ("real", "int"):
            raise OutsideSubset("np.square of a %s array" % a.elem)
        idx = [E.fresh("i", I) for _ in a.shape]
        out = Arr(E.fresh("sq", arr_sort("real", a.rank)), a.shape, "real")
        st.pc.append(z3.ForAll(idx, E.select(out, idx) == F_SQ(to_real(E.select(a, idx))),
                               patterns=[E.select(out, idx), E.select(a, idx)]))
        rid = next(E.ids)
        st.heap[rid] = out
        return Ref(rid)
    return F_SQ(to_real(v))


from pyvc import verify  # noqa: E402

if not getattr(verify, "_c18_sq", False):
    _orig_math_axioms = verify.math_axioms

    def _math_axioms():
        d = dict(_orig_math_axioms())
        x, a, b, c, m, p = [z3.Real(n + "!c18") for n in "xabcmp"]
        d["sq18"] = [z3.ForAll([x], z3.And(F_UNF(x) == x, F_SQ(x) == x * x), patterns=[F_UNF(x)])]
        d["mfac18"] = [z3.ForAll([a, b], z3.And(F_UMFAC(a, b), F_MFAC(a, b) == a / b), patterns=[F_UMFAC(a, b)])]
        d["mv18"] = [z3.ForAll([c, m, p], z3.And(F_UMV(c, m, p), F_MV(c, m, p) == c + m * (p - c)), patterns=[F_UMV(c, m, p)])]
        d["sqrt_nonneg"] = [z3.ForAll([a], F_SQRT(a) >= 0, patterns=[F_SQRT(a)])]
        d["sqrt_sq_at"] = [z3.ForAll([a], z3.Implies(a >= 0, F_SQRT(a) * F_SQRT(a) == a), patterns=[F_SQRT(F_UNF(a))])]
        return d

    verify.math_axioms = _math_axioms
    verify._c18_sq = True

calls.NP_EXT["np.square"] = _np_square
calls.NP_EXT["np.add"] = _np_add
calls.NP_EXT["np.subtract"] = _np_subtract
calls.NP_EXT["np.sqrt"] = _np_sqrt
calls.NP_EXT["np.mean"] = _np_mean
calls.NP_EXT["np.min"] = _extreme("np.min", True)
calls.NP_EXT["np.max"] = _extreme("np.max", False)
calls.NP_EXT["np.argmin"] = _np_argmin


# ---- (6) a[:, :] = b
def _full_copy_store(E, t, v, st):
    if not isinstance(t.value, ast.Name) or not isinstance(v, (Ref, Arr)):
        return False
    idx = E.index_list(t.slice)
    if len(idx) < 2 or not all(_is_full_slice(n) for n in idx):
        return False
    base = st.env.get(t.value.id)
    if not isinstance(base, Ref):
        return False
    arr = st.heap[base.id]
    src = E.deref(v, st)
    if arr.rank != len(idx) or src.rank != arr.rank or src.elem != arr.elem:
        return False
    for s, u in zip(arr.shape, src.shape):
        E.emit("shape-eq@%s" % E.cur_line, st, toz(s) == toz(u), "shape")
    st.heap[base.id] = Arr(src.data, arr.shape, arr.elem)
    return True


ROW_LEN = {}


def _row_store(E, t, v, st):
    n = ROW_LEN.get(E.c.key)
    if n is None or not isinstance(t.value, ast.Name) or not isinstance(v, (Ref, Arr)):
        return False
    idx = E.index_list(t.slice)
    base = st.env.get(t.value.id)
    if not isinstance(base, Ref) or len(idx) != 2 or isinstance(idx[0], ast.Slice) or not _is_full_slice(idx[1]):
        return False
    arr = st.heap[base.id]
    src = E.deref(v, st)
    if arr.rank != 2 or src.rank != 1 or src.elem != arr.elem:
        return False
    i = E.norm_index(E.ev(idx[0], st), arr.shape[0], st, t.value.id)
    E.emit("rowlen@%s" % E.cur_line, st, z3.And(toz(arr.shape[1]) == n, toz(src.shape[0]) == n), "index")
    data = arr.data
    for j in range(n):
        data = E.store(data, [i, z3.IntVal(j)], z3.Select(src.data, z3.IntVal(j)))
    st.heap[base.id] = Arr(data, arr.shape, arr.elem)
    return True


if not getattr(Engine, "_c18_copy_store", False):
    _orig_assign = Engine.assign

    def _assign(self, t, v, st, checked=False):
        if isinstance(t, ast.Subscript) and (_full_copy_store(self, t, v, st) or _row_store(self, t, v, st)):
            return
        return _orig_assign(self, t, v, st, checked)

    Engine.assign = _assign
    Engine._c18_copy_store = True


# ---- (8) slice facts with simplified index arithmetic
def _resimplify(q):
    if not z3.is_quantifier(q) or not q.is_forall():
        return q
    n = q.num_vars()
    vs = [z3.Const("%s!s" % q.var_name(i), q.var_sort(i)) for i in range(n)]
    rev = list(reversed(vs))
    body = z3.simplify(z3.substitute_vars(q.body(), *rev))
    pats = []
    for k in range(q.num_patterns()):
        p = q.pattern(k)
        terms = [z3.simplify(z3.substitute_vars(p.arg(i), *rev)) for i in range(p.num_args())]
        pats.append(z3.MultiPattern(*terms) if len(terms) > 1 else terms[0])
    try:
        return z3.ForAll(vs, body, patterns=pats)
    except z3.Z3Exception:
        return q


if not getattr(Engine, "_c18_slice_simplify", False):
    _orig_slice_read = Engine.slice_read

    def _slice_read(self, arr, idx_nodes, st, node):
        n0 = len(st.pc)
        out = _orig_slice_read(self, arr, idx_nodes, st, node)
        for i in range(n0, len(st.pc)):
            st.pc[i] = _resimplify(st.pc[i])
        return out

    Engine.slice_read = _slice_read
    Engine._c18_slice_simplify = True


# ---- (10) array extensionality off for selected contracts
NO_ARRAY_EXT = set()
_current = {"key": None}

if not getattr(verify, "_c18_noext", False):
    _orig_all_axioms = verify.all_axioms
    _orig_solve = verify._solve

    def _all_axioms(E, proven_lemmas, internal_for=None):
        _current["key"] = getattr(E.c, "key", None)
        return _orig_all_axioms(E, proven_lemmas, internal_for=internal_for)

    def _solve(hyps, goal, timeout_ms, ematch_only=False):
        if _current["key"] not in NO_ARRAY_EXT:
            return _orig_solve(hyps, goal, timeout_ms, ematch_only=ematch_only)
        import os
        s = z3.Solver()
        s.set("timeout", timeout_ms)
        s.set("smt.array.extensional", False)
        if ematch_only:
            if os.environ.get("VERIF_AC", "1") == "0":
                s.set("auto_config", False)
            s.set("smt.mbqi", False)
        for h in hyps:
            s.add(h)
        s.add(z3.Not(goal))
        return s, s.check()

    verify.all_axioms = _all_axioms
    verify._solve = _solve
    verify._c18_noext = True
