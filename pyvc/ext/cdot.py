"""Engine extensions used by contracts/c04_dense.py (part of the trusted base -- every fact below is ASSUMED).

Active ONLY while a contract whose key is in ENABLED is executed (`install()` is called by the contract module; every
handler chains to the handler that was registered before for all other contracts / argument kinds).  The same keys are put
into `cframes.ENABLED`, so that V9 (`A.T` of a rank-2 array) and the lambda re-reading of element-wise results of
pyvc/ext/cframes.py apply too.

 D1  np.dot(A, B), A real of shape (n, k), B real of shape (k2, m)
        obligation shape-eq: k == k2;  r: real[2], FRESH, shape (n, m),
        r[i, j] == sumto(k, lambda t: A[i, t] * B[t, j])          -- the definition of the matrix product over the reals
        (R1: BLAS' order of summation and rounding are not modelled; floats are reals)
 D2  v[:, None], v real of rank 1 and length n            r: real[2] of shape (n, 1),  r[i, 0] == v[i]
        (numpy returns a VIEW; read as a snapshot -- exact where the expression is consumed at once by D3)
 D4  r @ C, r real of rank 1 (length n), C real of shape (n2, m)      obligation shape-eq: n == n2;  v: real[1], FRESH, length m,
        v[j] == sumto(n, lambda a: r[a] * C[a, j])                      (vector-matrix product)
     v @ r, v and r real of rank 1 (lengths m, m2)                      obligation shape-eq: m == m2;  the real SCALAR
        sumto(m, lambda b: v[b] * r[b])                                 (inner product)
 D3  A / c, A real of shape (n, p), c real of shape (n2, 1)   (numpy broadcasting of a column over the columns of a matrix)
        obligations shape-eq: n == n2,  div: forall i < n: c[i, 0] != 0;   r: real[2], FRESH, shape (n, p),
        r[i, j] == A[i, j] / c[i, 0]

Representation: every result is the z3 lambda term  idx -> e(idx)  (see cframes._lam), so reads beta-reduce.
Nothing else is assumed.  `_selfcheck()` validates D1-D3 against numpy on random small instances (run at import of the
contract module, hence by every check and by `./vf selftest`).
"""
from __future__ import annotations
import ast
import z3

from pyvc import engine
from pyvc.engine import Engine, Ref, Arr, I, OutsideSubset, toz
from pyvc.ext import cframes
from pyvc.ext.cframes import _lam, _peek, _chain, _is_arr, _shape_eq

ENABLED = set()


def _on(E):
    return getattr(getattr(E, "c", None), "key", None) in ENABLED


# D1
def _np_dot(E, node, st):
    if len(node.args) != 2 or node.keywords:
        return NotImplemented
    a = E.ev(node.args[0], st)
    b = E.ev(node.args[1], st)
    if not (_is_arr(a) and _is_arr(b)):
        raise OutsideSubset("np.dot of non-arrays")
    A, Bm = E.deref(a, st), E.deref(b, st)
    if A.rank != 2 or Bm.rank != 2 or A.elem != "real" or Bm.elem != "real":
        raise OutsideSubset("np.dot: rank-2 real arrays only (line %s)" % E.cur_line)
    _shape_eq(E, st, A.shape[1], Bm.shape[0])

    def el(idx):
        return toz(E.evs("sumto(k_, lambda t: A_[i_, t] * B_[t, j_])", st,
                         {"A_": Arr(A.data, A.shape, A.elem), "B_": Arr(Bm.data, Bm.shape, Bm.elem), "k_": A.shape[1],
                          "i_": idx[0], "j_": idx[1]}))
    return _lam(E, st, (A.shape[0], Bm.shape[1]), "real", el)


_INSTALLED = False


def install():
    global _INSTALLED
    cframes.install()
    if _INSTALLED:
        return
    _INSTALLED = True
    _chain_dot()

    orig_sub = Engine.ev_Subscript

    def ev_Subscript(self, node, st):                                         # D2
        if _on(self) and isinstance(node.ctx, ast.Load) and isinstance(node.slice, ast.Tuple) and len(node.slice.elts) == 2:
            s0, s1 = node.slice.elts
            if (isinstance(s0, ast.Slice) and s0.lower is None and s0.upper is None and s0.step is None
                    and isinstance(s1, ast.Constant) and s1.value is None):
                v, undo = _peek(self, node.value, st)
                if _is_arr(v) and self.deref(v, st).rank == 1 and self.deref(v, st).elem == "real":
                    V = self.deref(v, st)
                    return _lam(self, st, (V.shape[0], 1), "real", lambda idx: self.select(V, [idx[0]]))
                undo()
        return orig_sub(self, node, st)
    Engine.ev_Subscript = ev_Subscript

    prev_arr_binop = Engine.arr_binop

    def arr_binop(self, op, a, b, st):                                        # D3, D4
        if _on(self) and isinstance(op, ast.MatMult) and _is_arr(a) and _is_arr(b):
            A, C = self.deref(a, st), self.deref(b, st)
            if A.elem != "real" or C.elem != "real" or A.rank != 1 or C.rank not in (1, 2):
                raise OutsideSubset("@ : only real vector @ matrix and vector @ vector (line %s)" % self.cur_line)
            _shape_eq(self, st, A.shape[0], C.shape[0])
            env = {"r_": Arr(A.data, A.shape, A.elem), "C_": Arr(C.data, C.shape, C.elem), "n_": A.shape[0]}
            if C.rank == 1:
                return self.evs("sumto(n_, lambda b: r_[b] * C_[b])", st, env)
            return _lam(self, st, (C.shape[1],), "real",
                        lambda idx: toz(self.evs("sumto(n_, lambda a: r_[a] * C_[a, j_])", st, {**env, "j_": idx[0]})))
        if _on(self) and isinstance(op, ast.Div) and _is_arr(a) and _is_arr(b):
            A, C = self.deref(a, st), self.deref(b, st)
            if A.rank == 2 and C.rank == 2 and A.elem == "real" and C.elem == "real" and isinstance(C.shape[1], int) and C.shape[1] == 1 \
                    and not (isinstance(A.shape[1], int) and A.shape[1] == 1):
                _shape_eq(self, st, A.shape[0], C.shape[0])
                i = self.fresh("i", I)
                self.emit("div@%s" % self.cur_line, st,
                          z3.ForAll([i], z3.Implies(z3.And(i >= 0, i < toz(A.shape[0])), self.select(C, [i, z3.IntVal(0)]) != 0)), "div")
                return _lam(self, st, A.shape, "real", lambda idx: self.select(A, idx) / self.select(C, [idx[0], z3.IntVal(0)]))
        return prev_arr_binop(self, op, a, b, st)
    Engine.arr_binop = arr_binop


def _chain_dot():
    _chain_on("np.dot", _np_dot)


def _chain_on(path, mine):
    """like cframes._chain but gated by THIS module's ENABLED"""
    from pyvc import calls
    prev = calls.NP_EXT.get(path)

    def h(E, node, st):
        if _on(E):
            r = mine(E, node, st)
            if r is not NotImplemented:
                return r
        if prev is not None:
            return prev(E, node, st)
        calls.NP_EXT.pop(path)
        try:
            return calls.np_call(E, path, node, st)
        finally:
            calls.NP_EXT[path] = h
    calls.NP_EXT[path] = h


def enable(key):
    ENABLED.add(key)
    cframes.ENABLED.add(key)
    install()


def _selfcheck():
    """numeric validation of D1-D3 against numpy (the executable twin of the assumed facts)"""
    import numpy as np
    rng = np.random.RandomState(7)
    for _ in range(40):
        n, k, m = rng.randint(0, 4), rng.randint(0, 4), rng.randint(0, 4)
        A, B = rng.uniform(-2, 2, (n, k)), rng.uniform(-2, 2, (k, m))
        r = np.dot(A, B)
        assert r.shape == (n, m) and not np.shares_memory(r, A) and not np.shares_memory(r, B)
        for i in range(n):
            for j in range(m):
                assert abs(r[i, j] - sum(A[i, t] * B[t, j] for t in range(k))) < 1e-12
        v = rng.uniform(0.5, 2, (n,))
        c = v[:, None]
        assert c.shape == (n, 1) and all(c[i, 0] == v[i] for i in range(n))
        q = A / c if k != 1 else None
        if q is not None:
            assert q.shape == (n, k) and not np.shares_memory(q, A)
            assert all(q[i, j] == A[i, j] / c[i, 0] for i in range(n) for j in range(k))
        if n:
            C = rng.uniform(-2, 2, (n, n)); rv = rng.uniform(-2, 2, (n,))
            w = rv @ C
            assert w.shape == (n,) and all(abs(w[j] - sum(rv[a] * C[a, j] for a in range(n))) < 1e-12 for j in range(n))
            assert abs(w @ rv - sum(w[b] * rv[b] for b in range(n))) < 1e-12
        t = A.T
        assert t.shape == (k, n) and all(t[j, i] == A[i, j] for i in range(n) for j in range(k))
    return True
