"""Engine extensions used by contracts/c06_mappers.py (part of the trusted base -- keep minimal).

(1) chained element access on an ndarray NAME:  `a[i][j]`  (load, store, augmented store) is read as `a[i, j]`
    when `a` is a heap array of rank >= 2 and `i`, `j` are scalar (non-slice) indices.  In numpy `a[i]` with an
    integer `i` is a *view* of row i, so `a[i][j] = v` writes `a[i, j]` and `a[i][j]` reads it (R5 treats a bare
    `a[i]` read as a snapshot, which is why the engine itself refuses the chained store).
(2) `np.array([s0, s1, ...])` of scalars: a fresh 1-D array of that length holding exactly those values
    (int elements when every value is an integer, else real).
(2b) `a[i, lo:hi] = <1-D array of statically known length n>`: n element stores; obligations: the slice lies inside the
    row and hi - lo == n (numpy would clamp / broadcast; neither is assumed).
(3) `a[:] = scalar` on a 1-D array: every element becomes the scalar.
(4) gather `a[rows]` with a 1-D int array `rows` of statically known length (literal, or fixed by a path-condition fact
    `len == <numeral>`): g[j] == a[rows[j]]; every rows[j] must be a valid non-negative index (obligations).
(5) np.max / np.min of a 1-D array (only installed when no other extension provides them).
(6) `np.argmin(np.sum((X - y) ** 2.0, axis=1))`: first index of a row of X nearest to the point y.
(7) `np.sum(A <cmp> c, axis=1)` for a 2-D array with a statically known number of columns: per-row count.
Handlers (2), (6), (7) are installed by `install()` in front of whatever is registered and pass every form they do not
recognise on to the previous handler.
"""
from __future__ import annotations
import ast
import z3

from pyvc import calls
from pyvc.engine import Engine, Ref, Arr, OutsideSubset, I, R, sort_kind, to_real, to_int_strict, num_of_bool, arr_sort, toz


def _flatten(E, node, st):
    """Subscript(Subscript(Name a, i), j) -> Subscript(Name a, (i, j)) when a is a heap array of rank >= 2"""
    if not (isinstance(node, ast.Subscript) and isinstance(node.value, ast.Subscript)):
        return None
    inner = node.value
    if not isinstance(inner.value, ast.Name):
        return None
    v = st.env.get(inner.value.id)
    if not isinstance(v, Ref):
        return None
    arr = st.heap[v.id]
    if isinstance(inner.slice, (ast.Slice, ast.Tuple)) or isinstance(node.slice, (ast.Slice, ast.Tuple)):
        return None
    if arr.rank < 2:
        return None
    new = ast.Subscript(value=inner.value, slice=ast.Tuple(elts=[inner.slice, node.slice], ctx=ast.Load()), ctx=node.ctx)
    return ast.copy_location(ast.fix_missing_locations(ast.copy_location(new, node)), node)


_orig_assign = Engine.assign
_orig_aug = Engine.st_AugAssign
_orig_sub = Engine.ev_Subscript


def _assign(self, t, v, st, checked=False):
    if isinstance(t, ast.Subscript):
        f = _flatten(self, t, st)
        if f is not None:
            t = f
        elif _row_slice_store(self, t, v, st):
            return
    return _orig_assign(self, t, v, st, checked)


def _row_slice_store(E, t, v, st):
    """a[i, lo:hi] = <1-D array of statically known length n>:  n stores a[i, lo+j] = v[j]; numpy requires the
    slice to lie inside the row (no clamping is assumed: obligation) and hi - lo == n (obligation)."""
    if not (isinstance(t.slice, ast.Tuple) and len(t.slice.elts) == 2 and isinstance(t.slice.elts[1], ast.Slice)
            and not isinstance(t.slice.elts[0], ast.Slice) and isinstance(t.value, ast.Name)):
        return False
    sl = t.slice.elts[1]
    if sl.step is not None or sl.lower is None or sl.upper is None or not isinstance(v, (Ref, Arr)):
        return False
    base = st.env.get(t.value.id)
    if not isinstance(base, Ref):
        return False
    arr = st.heap[base.id]
    src = E.deref(v, st)
    if arr.rank != 2 or src.rank != 1 or not z3.is_int_value(toz(src.shape[0])):
        return False
    n = toz(src.shape[0]).as_long()
    i = E.norm_index(E.ev(t.slice.elts[0], st), arr.shape[0], st, t.value.id)
    lo = to_int_strict(E.ev(sl.lower, st))
    hi = to_int_strict(E.ev(sl.upper, st))
    E.emit("slice:%s@%s" % (t.value.id, E.cur_line), st, z3.And(lo >= 0, hi <= toz(arr.shape[1]), hi - lo == n), "index")
    data = arr.data
    for j in range(n):
        el = z3.Select(src.data, z3.IntVal(j))
        data = E.store(data, [i, z3.simplify(lo + j)], E.elem_coerce(el, arr.elem))
    st.heap[base.id] = Arr(data, arr.shape, arr.elem)
    return True


def _aug(self, s, st):
    if isinstance(s.target, ast.Subscript):
        f = _flatten(self, s.target, st)
        if f is not None:
            s2 = ast.AugAssign(target=f, op=s.op, value=s.value)
            ast.copy_location(s2, s)
            s2.lineno = s.lineno
            return _orig_aug(self, s2, st)
    return _orig_aug(self, s, st)


Engine.assign = _assign
Engine.st_AugAssign = _aug


# ---- np.array([scalars])
def _np_array(E, node, st, _prev_np_array=None):
    a0 = node.args[0] if node.args else None
    if isinstance(a0, (ast.List, ast.Tuple)):
        vals = [num_of_bool(E.ev(e, st)) for e in a0.elts]
        kinds = [sort_kind(v) for v in vals]
        if vals and all(k in ("int", "real") for k in kinds):
            elem = "int" if all(k == "int" for k in kinds) else "real"
            data = z3.K(I, z3.IntVal(0) if elem == "int" else z3.RealVal(0))
            for j, v in enumerate(vals):
                data = z3.Store(data, z3.IntVal(j), to_int_strict(v) if elem == "int" else to_real(v))
            rid = next(E.ids)
            st.heap[rid] = Arr(data, [z3.IntVal(len(vals))], elem)
            return Ref(rid)
    if _prev_np_array is not None:
        return _prev_np_array(E, node, st)
    return _builtin("np.array", E, node, st)




# ---- (3) a[:] = scalar on a 1-D heap array: every element becomes that scalar.
def _full_fill(E, t, v, st):
    if not (isinstance(t.slice, ast.Slice) and t.slice.lower is None and t.slice.upper is None and t.slice.step is None
            and isinstance(t.value, ast.Name)):
        return False
    base = st.env.get(t.value.id)
    if not isinstance(base, Ref) or isinstance(v, (Ref, Arr, tuple)) or sort_kind(num_of_bool(v)) not in ("int", "real"):
        return False
    arr = st.heap[base.id]
    if arr.rank != 1:
        return False
    st.heap[base.id] = Arr(z3.K(I, E.elem_coerce(num_of_bool(v), arr.elem)), arr.shape, arr.elem)
    return True


_assign_2 = Engine.assign


def _assign3(self, t, v, st, checked=False):
    if isinstance(t, ast.Subscript) and _full_fill(self, t, v, st):
        return
    return _assign_2(self, t, v, st, checked)


Engine.assign = _assign3


# ---- (4) gather  a[rows]  with `rows` a 1-D int array of statically known length n (numpy fancy indexing on axis 0):
#      fresh array g of shape (n,) + a.shape[1:] with g[j] == a[rows[j]]; every rows[j] must be a valid non-negative index (R3).
def _static_len(t, st):
    """a literal length, or one fixed by a path-condition fact of the syntactic form  t == <numeral>"""
    if z3.is_int_value(t):
        return t.as_long()
    for f in st.pc:
        if z3.is_eq(f):
            a, b = f.children()
            if a.eq(t) and z3.is_int_value(b):
                return b.as_long()
            if b.eq(t) and z3.is_int_value(a):
                return a.as_long()
    return None


def _subscript(self, node, st):
    if not isinstance(node.slice, (ast.Slice, ast.Tuple)):
        base = self.ev(node.value, st)
        if isinstance(base, (Ref, Arr)):
            iv = self.ev(node.slice, st)
            if isinstance(iv, (Ref, Arr)):
                arr, rows = self.deref(base, st), self.deref(iv, st)
                n = _static_len(toz(rows.shape[0]), st)
                if rows.rank == 1 and rows.elem == "int" and n is not None and arr.rank >= 1:
                    data = self.fresh("gather", arr_sort(arr.elem, arr.rank))
                    for j in range(n):
                        rj = z3.Select(rows.data, z3.IntVal(j))
                        if not self.spec_mode:
                            self.emit("index:%s@%s" % (getattr(node.value, "id", "expr"), self.cur_line), st,
                                      z3.And(rj >= 0, rj < toz(arr.shape[0])), "index")
                        st.pc.append(z3.Select(data, z3.IntVal(j)) == z3.Select(arr.data, rj))
                    return Arr(data, [z3.IntVal(n)] + list(arr.shape[1:]), arr.elem)
                raise OutsideSubset("fancy indexing (line %s)" % getattr(node, "lineno", "?"))
    return _orig_sub(self, node, st)


Engine.ev_Subscript = _subscript


# ---- (5) np.max / np.min of a 1-D array: m with  forall i: a[i] <= m  and  exists i: a[i] == m  (numpy raises on an empty array: obligation)
def _np_extreme(path):
    is_max = path.endswith("max")

    def h(E, node, st):
        if len(node.args) == 1 and not node.keywords:
            v = E.ev(node.args[0], st)
            if isinstance(v, (Ref, Arr)):
                a = E.deref(v, st)
                if a.rank != 1 or a.elem not in ("int", "real"):
                    raise OutsideSubset(path + " of rank-%d %s array" % (a.rank, a.elem))
                E.emit("nonempty:%s@%s" % (path, E.cur_line), st, toz(a.shape[0]) > 0, "index")
                cache = E.__dict__.setdefault("_c06_extreme", {})      # the extreme of one array value is one term
                ck = (path, a.data.get_id(), toz(a.shape[0]).get_id())
                if ck not in cache:
                    cache[ck] = E.fresh(path[3:], I if a.elem == "int" else R)
                m = cache[ck]
                i, j = E.fresh("i", I), E.fresh("j", I)
                el = z3.Select(a.data, i)
                st.pc.append(z3.ForAll([i], z3.Implies(z3.And(i >= 0, i < toz(a.shape[0])), el <= m if is_max else el >= m), patterns=[el]))
                st.pc.append(z3.Exists([j], z3.And(j >= 0, j < toz(a.shape[0]), z3.Select(a.data, j) == m)))
                return m
        return _builtin(path, E, node, st)
    return h




# ---- (6) np.argmin(np.sum((X - y) ** 2.0, axis=1)): index of the row of X (n x d, d statically known) nearest to the point y
#      (squared Euclidean distance); numpy returns the FIRST minimal index; an empty X raises (obligation).
def _sqdist(E, X, y, m, d):
    tot = z3.RealVal(0)
    for c in range(d):
        diff = z3.Select(z3.Select(X.data, m), z3.IntVal(c)) - z3.Select(y.data, z3.IntVal(c))
        tot = tot + diff * diff
    return tot


def _np_argmin(E, node, st, _prev=None):
    a = node.args[0] if len(node.args) == 1 else None
    ok = (isinstance(a, ast.Call) and isinstance(a.func, ast.Attribute) and a.func.attr == "sum" and len(a.args) == 1
          and [(k.arg, getattr(k.value, "value", None)) for k in a.keywords] == [("axis", 1)]
          and isinstance(a.args[0], ast.BinOp) and isinstance(a.args[0].op, ast.Pow) and isinstance(a.args[0].right, ast.Constant)
          and a.args[0].right.value in (2, 2.0) and isinstance(a.args[0].left, ast.BinOp) and isinstance(a.args[0].left.op, ast.Sub))
    if not ok or not isinstance(E.ev(a.func.value, st), calls.NpV):
        if _prev is not None:
            return _prev(E, node, st)
        raise OutsideSubset("np.argmin of this expression (line %s)" % getattr(node, "lineno", "?"))
    l, r = E.ev(a.args[0].left.left, st), E.ev(a.args[0].left.right, st)
    if not (isinstance(l, (Ref, Arr)) and isinstance(r, (Ref, Arr))):
        raise OutsideSubset("np.argmin operands")
    L, Rr = E.deref(l, st), E.deref(r, st)
    if L.rank == 1 and Rr.rank == 2:
        L, Rr = Rr, L          # (y - X)**2 == (X - y)**2
    if not (L.rank == 2 and Rr.rank == 1 and L.elem == "real" and Rr.elem == "real"):
        raise OutsideSubset("np.argmin operand ranks")
    d = _static_len(toz(L.shape[1]), st)
    if d is None:
        raise OutsideSubset("np.argmin: number of coordinates not statically known")
    n = toz(L.shape[0])
    E.emit("shape-eq@%s" % E.cur_line, st, toz(Rr.shape[0]) == d, "shape")
    E.emit("nonempty:np.argmin@%s" % E.cur_line, st, n > 0, "index")
    j = E.fresh("argmin", I)
    m = E.fresh("m", I)
    dj, dm = _sqdist(E, L, Rr, j, d), _sqdist(E, L, Rr, m, d)
    st.pc.append(z3.And(j >= 0, j < n))
    st.pc.append(z3.ForAll([m], z3.Implies(z3.And(m >= 0, m < n), z3.And(dj <= dm, z3.Implies(m < j, dj < dm))),
                           patterns=[z3.Select(L.data, m)]))
    return j




# ---- (7) np.sum(A >= c, axis=1) for a 2-D array with a statically known number of columns: per-row count (int array)
def _np_sum(E, node, st, _prev_np_sum=None):
    kws = [(k.arg, getattr(k.value, "value", None)) for k in node.keywords]
    a = node.args[0] if len(node.args) == 1 else None
    if kws == [("axis", 1)] and isinstance(a, ast.Compare) and len(a.ops) == 1 and isinstance(a.ops[0], (ast.GtE, ast.Gt, ast.NotEq, ast.Lt, ast.LtE, ast.Eq)):
        base = E.ev(a.left, st)
        rhs = num_of_bool(E.ev(a.comparators[0], st))
        if isinstance(base, (Ref, Arr)) and sort_kind(rhs) in ("int", "real"):
            A = E.deref(base, st)
            ncol = _static_len(toz(A.shape[1]), st) if A.rank == 2 else None
            if ncol is not None and A.elem in ("int", "real"):
                i = E.fresh("i", I)
                tot = z3.IntVal(0)
                for c in range(ncol):
                    tot = tot + z3.If(toz(E.compare(a.ops[0], z3.Select(z3.Select(A.data, i), z3.IntVal(c)), rhs)), z3.IntVal(1), z3.IntVal(0))
                out = Arr(E.fresh("rowcount", arr_sort("int", 1)), [A.shape[0]], "int")
                st.pc.append(z3.ForAll([i], z3.Select(out.data, i) == tot, patterns=[z3.Select(out.data, i)]))
                rid = next(E.ids)
                st.heap[rid] = out
                return Ref(rid)
        raise OutsideSubset("np.sum(<comparison>, axis=1) of this operand")
    if _prev_np_sum is not None:
        return _prev_np_sum(E, node, st)
    return _builtin("np.sum", E, node, st)


def _builtin(path, E, node, st):
    saved = calls.NP_EXT.pop(path)
    try:
        return calls.np_call(E, path, node, st)
    finally:
        calls.NP_EXT[path] = saved


def install():
    """(re)install this module's numpy handlers on top of whatever is registered now; forms they do not recognise are
    passed on to the previously registered handler (or the engine's own).  Idempotent; contracts/c06_mappers.py calls it
    after every extension module has been imported."""
    def wrap(path, mine):
        prev = calls.NP_EXT.get(path)
        if getattr(prev, "_c06", False):
            return

        def h(E, node, st):
            return mine(E, node, st, prev)
        h._c06 = True
        calls.NP_EXT[path] = h
    wrap("np.array", _np_array)
    wrap("np.argmin", _np_argmin)
    wrap("np.sum", _np_sum)
    for path in ("np.max", "np.min"):
        if path not in calls.NP_EXT:
            calls.NP_EXT[path] = _np_extreme(path)


install()
