"""Engine extensions used by contracts/c_more_masks_regions.py (part of the trusted base -- keep minimal).

ASSUMED FACTS (each is a reading of a Python construct the base engine refuses; nothing else is assumed; details at each section):

 Z1  `for t1, t2, .. in zip(a1, a2, ..)` (optionally under `enumerate`) with every a_i a 1-D array value: the loop runs
     min(len(a_i)) times and iteration k binds t_i = a_i[k].  As for the engine's own `for x in <array>` the arrays are read
     as snapshots taken when the loop starts (R5); the ghost name `pos_L<ordinal>` is bound to the iteration counter
     (no fact, no new term -- same device as pyvc/ext/c04.py).
 T1  `try: <one if statement> except UnboundLocalError: <handler>`: evaluating the `if` test raises UnboundLocalError exactly when a
     local it reads (in evaluation order, short-circuit respected) is unbound -- the negation of the engine's own `bound:` obligations;
     then <handler> runs, otherwise the `if` statement.  Unbound reads inside the branches stay ordinary obligations.
 O1  optional values `T?` in a callee's `returns` ("(int?,int?)", "(int,int,int,int)?"): a pair (is-None flag, value).  `is None`,
     `== None` read the flag; `==` with a non-optional value is "not None and equal"; `x in [e1, .., en]` on a list / tuple display is
     the disjunction of x == e_i; passing an optional where a contract parameter of type int / real is expected, or using it in
     arithmetic, emits the obligation `not-none:*` (python raises TypeError on None) and continues with the value.
 L1  `name = []` ... `name.append(v)` (integer v): a fresh int sequence of length 0; append lengthens it by one with v as the new last
     element, other elements unchanged; loops whose body appends treat the list as written.  Modelling device: the length is stored in
     the ghost array at index -1 (unreachable by program indices, R3) so that havocking the contents havocs the length.
 L2  `x in a` / `x not in a` for a 1-D numeric array value a (numpy: (a == x).any()): exists k in [0, len(a)): a[k] == x.
"""
from __future__ import annotations
import ast
import z3

from pyvc import calls, loops, engine
from pyvc.engine import Engine, State, Ref, Arr, OutsideSubset, I, R, B, toz, to_int_strict, sort_kind, arr_sort

# nothing here is keyed by contract: every handler only accepts forms the base engine refuses


# ----------------------------------------------------------------------------------------------------------- Z1: zip loops
def _zip_call(node, st):
    if (isinstance(node, ast.Call) and isinstance(node.func, ast.Name) and node.func.id == "zip" and "zip" not in st.env
            and not node.keywords and len(node.args) >= 2):
        return node
    return None


if not getattr(loops.Iter, "_cmore_zip", False):
    _orig_iter_init = loops.Iter.__init__
    _orig_iter_item = loops.Iter.item
    _orig_iter_bind = loops.Iter.bind

    def _iter_init(self, E, s, st):
        it = s.iter
        enum = False
        if isinstance(it, ast.Call) and isinstance(it.func, ast.Name) and it.func.id == "enumerate" and len(it.args) == 1 and not it.keywords:
            enum, it = True, it.args[0]
        z = _zip_call(it, st)
        if z is None:
            self.zipped = None
            return _orig_iter_init(self, E, s, st)
        arrs = []
        for a in z.args:
            v = E.ev(a, st)
            if not isinstance(v, (Ref, Arr)):
                raise OutsideSubset("zip of a non-array (line %s)" % getattr(s, "lineno", "?"))
            arr = E.deref(v, st)
            if arr.rank != 1 or arr.elem not in ("int", "real", "bool"):
                raise OutsideSubset("zip of a rank-%d %s array" % (arr.rank, arr.elem))
            arrs.append(Arr(arr.data, arr.shape, arr.elem))         # iteration snapshot
        self.E, self.s, self.enum, self.lo, self.arr = E, s, enum, None, None
        self.zipped = arrs
        n = toz(arrs[0].shape[0])
        for a in arrs[1:]:
            m = toz(a.shape[0])
            n = n if n.eq(m) else z3.If(n <= m, n, m)
        self.n = n

    def _iter_item(self, k):
        if getattr(self, "zipped", None):
            return tuple(z3.Select(a.data, k) for a in self.zipped)
        return _orig_iter_item(self, k)

    def _iter_bind(self, st, k):
        _orig_iter_bind(self, st, k)
        if getattr(self, "zipped", None) and not self.enum:
            st.env["pos_L%d" % self.E.loops.index(self.s)] = k

    loops.Iter.__init__ = _iter_init
    loops.Iter.item = _iter_item
    loops.Iter.bind = _iter_bind
    loops.Iter._cmore_zip = True


# ------------------------------------------------------------------------------- T1: try / except UnboundLocalError
# ASSUMED FACT T1.  The only accepted form is
#       try:
#           if <test>: <body> else: <orelse>
#       except UnboundLocalError:
#           <handler>
#   (one `if` statement in the try body; one handler, no `as` name; no else / finally).  Reading: evaluating <test> raises
#   UnboundLocalError exactly when, in evaluation order (short-circuit `and` / `or` respected), a local variable that is read is not
#   bound -- this is the negation of the engine's own `bound:<name>` obligations, collected here instead of being emitted.  Then
#   control continues in <handler>; otherwise the `if` statement is executed as usual (its reads are now bound).  Reads of unbound
#   locals inside <body> / <orelse> are NOT routed to the handler: they stay ordinary `bound:` obligations (stricter, never weaker).
#   Any other obligation raised while evaluating <test> (index, division) makes the form unsupported.
if not getattr(Engine, "_cmore_try", False):
    _orig_st_try = Engine.st_Try

    def _st_try(self, s, st):
        ok = (len(s.handlers) == 1 and not s.orelse and not s.finalbody and len(s.body) == 1 and isinstance(s.body[0], ast.If)
              and isinstance(s.handlers[0].type, ast.Name) and s.handlers[0].type.id == "UnboundLocalError"
              and s.handlers[0].name is None and "UnboundLocalError" not in st.env)
        if not ok:
            return _orig_st_try(self, s, st)
        ifs = s.body[0]
        n0, x0 = len(self.obl), len(self.exits)
        probe = st.copy()
        self.cur_line = ifs.lineno
        self.ev(ifs.test, probe)          # dry run: only its `bound:` obligations are used; the test is evaluated again below
        new = self.obl[n0:]
        if len(self.exits) != x0:
            del self.obl[n0:], self.exits[x0:]
            raise OutsideSubset("try at line %s: the guarded test calls a function that can raise" % s.lineno)
        if any(o.kind != "bound" for o in new):
            del self.obl[n0:]
            raise OutsideSubset("try at line %s: the guarded test can raise something else than UnboundLocalError" % s.lineno)
        del self.obl[n0:]
        base = len(st.pc)
        cases = [z3.And([toz(h) for h in o.hyps[base:]] + [z3.Not(toz(o.goal))]) for o in new]
        unbound = z3.simplify(z3.Or(cases)) if cases else z3.BoolVal(False)
        outs = []
        if not z3.is_false(unbound):
            sx = st.copy()
            sx.pc.append(unbound)
            outs.extend(self.exec_block(s.handlers[0].body, sx) or [])
        sn = st.copy()
        if not z3.is_false(unbound):
            sn.pc.append(z3.Not(unbound))
        self.cur_line = ifs.lineno
        r = self.st_If(ifs, sn)
        if isinstance(r, State):
            r = [r]
        outs.extend(r or [])
        return outs

    Engine.st_Try = _st_try
    Engine._cmore_try = True


# ------------------------------------------------------------------------------------ O1: optional values  `T?`
# ASSUMED FACT O1.  A callee whose contract declares `returns="...T?..."` (e.g. "(int?,int?)", "(int,int,int,int)?") returns, for
#   each `T?` component, either None or a value of type T.  Such a component is the pair (none: Bool, val: T).  Readings:
#     v is None / v is not None / v == None / v != None   ->  none / not none
#     v == u (u not optional)                             ->  not none and val == u          (None equals only None)
#     v == u (both optional)                              ->  (none_v and none_u) or (not none_v and not none_u and val_v == val_u)
#     x in [e1, .., en] / x not in [...]  (a list or tuple display)  ->  the disjunction of x == e_i  (python's `in` on a sequence)
#     passing v where a contract parameter of type int / real is expected: obligation `not-none:<param>` (v is not None), then val.
#   Any other use of an optional value is refused (outside the subset).
class Opt:
    __slots__ = ("none", "val")

    def __init__(self, none, val):
        self.none, self.val = none, val

    def __repr__(self):
        return "Opt(%r, %r)" % (self.none, self.val)


if not getattr(Engine, "_cmore_opt", False):
    _orig_parse_type = engine.parse_type

    def _parse_type(t):
        t = t.strip()
        if t.endswith("?"):
            return ("opt", _parse_type(t[:-1]))
        return _orig_parse_type(t)

    engine.parse_type = _parse_type
    calls.parse_type = _parse_type

    _orig_fresh_of_type = Engine.fresh_of_type

    def _fresh_of_type(self, ty, name, st):
        if ty[0] == "opt":
            return Opt(self.fresh(name + ".isnone", B), _fresh_of_type(self, ty[1], name, st))
        if ty[0] == "tuple":
            return tuple(_fresh_of_type(self, t, "%s.%d" % (name, i), st) for i, t in enumerate(ty[1]))
        return _orig_fresh_of_type(self, ty, name, st)

    Engine.fresh_of_type = _fresh_of_type

    _orig_compare = Engine.compare

    def _not(x):
        return (not x) if isinstance(x, bool) else z3.Not(toz(x))

    def _and(xs):
        if all(isinstance(x, bool) for x in xs):
            return all(xs)
        return z3.And([toz(x) for x in xs])

    def _or(xs):
        if all(isinstance(x, bool) for x in xs):
            return any(xs)
        return z3.Or([toz(x) for x in xs])

    def _compare(self, op, a, b):
        if isinstance(a, Opt) or isinstance(b, Opt):
            if isinstance(op, (ast.Is, ast.IsNot)):
                if a is not None and b is not None:
                    raise OutsideSubset("`is` between an optional value and a non-None value")
                r = a.none if isinstance(a, Opt) else b.none
                return r if isinstance(op, ast.Is) else _not(r)
            if isinstance(op, (ast.Eq, ast.NotEq)):
                if a is None or b is None:
                    r = a.none if isinstance(a, Opt) else b.none
                elif isinstance(a, Opt) and isinstance(b, Opt):
                    r = _or([_and([a.none, b.none]), _and([_not(a.none), _not(b.none), self.compare(ast.Eq(), a.val, b.val)])])
                elif isinstance(a, Opt):
                    r = _and([_not(a.none), self.compare(ast.Eq(), a.val, b)])
                else:
                    r = _and([_not(b.none), self.compare(ast.Eq(), a, b.val)])
                return r if isinstance(op, ast.Eq) else _not(r)
            raise OutsideSubset("ordering comparison of an optional value")
        return _orig_compare(self, op, a, b)

    Engine.compare = _compare

    _orig_ev_compare = Engine.ev_Compare

    def _ev_compare(self, node, st):
        if len(node.ops) == 1 and isinstance(node.ops[0], (ast.In, ast.NotIn)) and isinstance(node.comparators[0], (ast.List, ast.Tuple)):
            left = self.ev(node.left, st)
            elts = [self.ev(e, st) for e in node.comparators[0].elts]
            r = _or([self.compare(ast.Eq(), left, e) for e in elts]) if elts else False
            return r if isinstance(node.ops[0], ast.In) else _not(r)
        return _orig_ev_compare(self, node, st)

    Engine.ev_Compare = _ev_compare

    _orig_coerce = calls.coerce_to_type

    def _coerce_to_type(E, v, ty, st, what):
        if isinstance(v, Opt) and ty[0] in ("int", "real"):
            E.emit("not-none:%s@%s" % (what, E.cur_line), st, z3.Not(toz(v.none)), "call-pre")
            v = v.val
        return _orig_coerce(E, v, ty, st, what)

    calls.coerce_to_type = _coerce_to_type
    Engine._cmore_opt = True

#     arithmetic v + u, v - u, ... on an optional v: obligation `not-none:operand` (python raises TypeError on None), then val.
if not getattr(Engine, "_cmore_opt_binop", False):
    _orig_binop = Engine.binop

    def _binop(self, op, a, b, st, node=None):
        if isinstance(a, Opt) or isinstance(b, Opt):
            out = []
            for v in (a, b):
                if isinstance(v, Opt):
                    if not self.spec_mode:
                        self.emit("not-none:operand@%s" % self.cur_line, st, z3.Not(toz(v.none)), "index")
                    v = v.val
                out.append(v)
            a, b = out
        return _orig_binop(self, op, a, b, st, node)

    Engine.binop = _binop
    Engine._cmore_opt_binop = True


# ------------------------------------------------------------------------------------ L1: python lists grown by append
# ASSUMED FACT L1.  `name = []` followed (anywhere in the same function) by `name.append(v)` with integer v: `name` is a fresh 1-D int
#   sequence of length 0; `name.append(v)` makes it one longer with v as the new last element and leaves the other elements alone
#   (an in-place write: loops whose body appends treat the list as written).  Returning it yields a sequence value (`int[1]` in
#   contracts: len(result), result[j]).  Modelling device (no fact about the program): the length is kept inside the ghost array, at
#   index -1, which no program index can reach (R3), so that havocking the contents at a loop head havocs the length with them.
# ASSUMED FACT L2.  `x in a` / `x not in a` for a 1-D array value a (numpy: (a == x).any()):  exists k in [0, len(a)): a[k] == x.
class ListShape(list):
    """shape of a list value: [data[-1]]"""


if not getattr(Engine, "_cmore_list", False):
    _orig_arr_init = Arr.__init__

    def _arr_init(self, data, shape, elem):
        if isinstance(shape, ListShape):
            self.data, self.elem = data, elem
            self.shape = ListShape([z3.Select(data, z3.IntVal(-1))])
        else:
            _orig_arr_init(self, data, shape, elem)

    Arr.__init__ = _arr_init

    def _appended_names(fn):
        out = set()
        for n in ast.walk(fn):
            if (isinstance(n, ast.Call) and isinstance(n.func, ast.Attribute) and n.func.attr == "append"
                    and isinstance(n.func.value, ast.Name)):
                out.add(n.func.value.id)
        return out

    _orig_st_assign = Engine.st_Assign

    def _st_assign(self, s, st):
        if (not self.spec_mode and isinstance(s.value, ast.List) and not s.value.elts and len(s.targets) == 1
                and isinstance(s.targets[0], ast.Name) and s.targets[0].id in _appended_names(self.fn)):
            data = self.fresh(s.targets[0].id, arr_sort("int", 1))
            st.pc.append(z3.Select(data, z3.IntVal(-1)) == 0)
            rid = next(self.ids)
            st.heap[rid] = Arr(data, ListShape(), "int")
            st.env[s.targets[0].id] = Ref(rid)
            return st
        return _orig_st_assign(self, s, st)

    Engine.st_Assign = _st_assign

    def _append(E, base, arr, node, st):
        if not (isinstance(base, Ref) and isinstance(arr.shape, ListShape)) or len(node.args) != 1 or node.keywords:
            raise OutsideSubset("append on something that is not a list grown from [] (line %s)" % getattr(node, "lineno", "?"))
        v = E.ev(node.args[0], st)
        if sort_kind(v) != "int":
            raise OutsideSubset("append of a non-integer value")
        n = arr.shape[0]
        data = z3.Store(z3.Store(arr.data, n, to_int_strict(v)), z3.IntVal(-1), n + 1)
        st.heap[base.id] = Arr(data, ListShape(), "int")
        return None

    calls.METHOD_EXT["append"] = _append

    _orig_write_set = loops.write_set

    def _write_set(E, body, st):
        names, heap_ids = _orig_write_set(E, body, st)
        for s in body:
            for n in ast.walk(s):
                if (isinstance(n, ast.Call) and isinstance(n.func, ast.Attribute) and n.func.attr == "append"
                        and isinstance(n.func.value, ast.Name)):
                    v = st.env.get(n.func.value.id)
                    if isinstance(v, engine.Maybe):
                        v = v.value
                    if isinstance(v, Ref):
                        heap_ids.add(v.id)
        return names, heap_ids

    loops.write_set = _write_set

    _prev_ev_compare = Engine.ev_Compare

    def _ev_compare_in(self, node, st):
        if len(node.ops) == 1 and isinstance(node.ops[0], (ast.In, ast.NotIn)) and not isinstance(node.comparators[0], (ast.List, ast.Tuple)):
            left = self.ev(node.left, st)
            right = self.ev(node.comparators[0], st)
            if isinstance(right, (Ref, Arr)) and sort_kind(left) in ("int", "real"):
                a = self.deref(right, st)
                if a.rank != 1 or a.elem not in ("int", "real"):
                    raise OutsideSubset("`in` on a rank-%d %s array" % (a.rank, a.elem))
                k = self.fresh("k", I)
                body = toz(self.compare(ast.Eq(), z3.Select(a.data, k), left))
                r = z3.Exists([k], z3.And(z3.And(z3.IntVal(0) <= k, k < toz(a.shape[0])), body))
                return r if isinstance(node.ops[0], ast.In) else z3.Not(r)
            raise OutsideSubset("`in` at line %s" % getattr(node, "lineno", "?"))
        return _prev_ev_compare(self, node, st)

    Engine.ev_Compare = _ev_compare_in
    Engine._cmore_list = True
