"""Engine extensions used by contracts/c_overlay_preprocess.py (part of the trusted base -- every fact below is ASSUMED).

Active ONLY while a contract whose key is in ENABLED is executed (`install()` is called by the contract module; every
handler chains to the handler that was registered before for all other contracts / argument kinds).  Floats are reals (R1).

 R1c a callee parameter that the call site omits and whose default value is a constructor call (`settings=SettingsInversion()`)
     is bound to an opaque value (None) instead of evaluating the constructor.  The call is then read through the CALLEE'S CONTRACT
     as usual; this is exact where that contract does not mention the parameter (curvature_matrix_via_mapping_matrix_from:
     `settings` is only read under `add_to_curvature_diag`, default False).  Where the callee's (single, variant-less) contract
     models such an omitted parameter as a rank-1 array, an omitted `None` list is passed as the EMPTY int array and the omitted
     settings object as ONE unconstrained real element (contracts/c04_normal_equations.py reads `settings` as the one-element array
     of its only field and `no_regularization_index_list` as int[1]); both are unread when add_to_curvature_diag is False and the
     callee's postcondition is used under `not add_to_curvature_diag` only
 R1d a call of a repo function that has a variant-less contract AND `#variant` contracts is verified against the variant-less one
     (the general contract of the function; variants are other agents' specialisations for particular callers)
 N1  np.seterr(...)                               no effect on any array or value of the program (it changes numpy's process-wide
                                                   floating-point ERROR REPORTING mode only; the returned dict of old settings is not read)
 N2  abs(A) / np.abs(A), A a real/int array       a FRESH array r of A's shape,  r[idx] == |A[idx]|
 N3  A (cmp) s  /  s (cmp) A,  cmp in < <= > >= == !=,  A a real/int array, s a scalar
                                                   a FRESH bool array r of A's shape,  r[idx] == (A[idx] cmp s)
 N4  A[B] = s,  A a heap array, B a bool array of the same rank (obligation shape-eq per dimension), s a scalar
                                                   IN-PLACE update of A (every alias of A sees it; no other array changes):
                                                   A'[idx] == (s if B[idx] else A[idx])
 N6  np.max(a) / np.min(a), a a real/int array of rank 1   obligation len(a) > 0 (numpy raises ValueError on an empty array);  result m
                                                   with a ghost index w:  0 <= w < len(a),  m == a[w],  forall j in range: m >= a[j]
                                                   (np.min: m <= a[j])
 (representation: the fresh arrays of N2..N4 and, inside ENABLED contracts, the engine's own element-wise results `A (op) B` are
  z3 lambda terms idx -> e(idx) instead of uninterpreted arrays constrained by `forall idx: r[idx] == e(idx)` -- identical meaning)
 N5  A[B] as a VALUE, A of rank 2 with 2 columns (obligation), B a rank-1 bool array with len(B) == A.shape[0] (obligation)
                                                   boolean-mask row selection: a FRESH array r of shape (total1(B'), 2), B' = not B
                                                   (so that total1 counts the SELECTED rows), and for every row x with B[x]:
                                                   r[cnt1(B', x), c] == A[x, c]   (the selected rows in their original order;
                                                   cnt1 = rank function of contracts/specs.py)
"""
from __future__ import annotations
import ast
import z3

from pyvc import calls, engine, verify
from pyvc.engine import Engine, Ref, Arr, I, R, arr_sort, OutsideSubset, to_real, toz

ENABLED = set()


def _on(E):
    return getattr(getattr(E, "c", None), "key", None) in ENABLED


def _new(E, st, name, shape, elem="real"):
    out = Arr(E.fresh(name, arr_sort(elem, len(shape))), tuple(shape), elem)
    rid = next(E.ids)
    st.heap[rid] = out
    return Ref(rid), out


def _lam(E, st, shape, elem, fn):
    """fresh array DEFINED as the z3 lambda idx -> fn(idx) (same meaning as `forall idx: r[idx] == fn(idx)`)"""
    idx = [E.fresh("i", I) for _ in shape]
    body = fn(idx)
    for v in reversed(idx):
        body = z3.Lambda([v], body)
    rid = next(E.ids)
    st.heap[rid] = Arr(body, tuple(shape), elem)
    return Ref(rid)


def _lamify_last(E, st, ref):
    """the engine's own element-wise result `forall idx: out[idx] == e` (last path-condition entry) re-read as the lambda idx -> e
    (identical meaning; program and specification terms then coincide syntactically)"""
    q = st.pc[-1]
    out = st.heap[ref.id]
    if not (z3.is_quantifier(q) and q.is_forall() and q.num_vars() == out.rank):
        return ref
    xs = [E.fresh("i", I) for _ in range(out.rank)]
    body = z3.substitute_vars(q.body(), *reversed(xs))
    if not (z3.is_eq(body) and body.arg(0).eq(E.select(out, xs))):
        return ref
    e = body.arg(1)
    for v in reversed(xs):
        e = z3.Lambda([v], e)
    st.pc.pop()
    st.heap[ref.id] = Arr(e, out.shape, out.elem)
    return ref


def _peek(E, argnode, st):
    no, npc, hk = len(E.obl), len(st.pc), set(st.heap)
    v = E.ev(argnode, st)

    def undo():
        del E.obl[no:]
        del st.pc[npc:]
        for h in list(st.heap):
            if h not in hk:
                del st.heap[h]
    return v, undo


def _is_arr(v):
    return isinstance(v, (Ref, Arr))


def _chain(path, mine):
    prev = calls.NP_EXT.get(path)

    def h(E, node, st):
        if _on(E):
            r = mine(E, node, st)
            if r is not NotImplemented:
                return r
        if prev is not None:
            return prev(E, node, st)
        calls.NP_EXT.pop(path)
        try:
            return calls.np_call(E, path, node, st)
        finally:
            calls.NP_EXT[path] = h
    calls.NP_EXT[path] = h


# N1
def _np_seterr(E, node, st):
    return None


# N2
def _abs(E, node, st):
    if len(node.args) != 1 or node.keywords:
        return NotImplemented
    v, undo = _peek(E, node.args[0], st)
    if not _is_arr(v):
        undo()
        return NotImplemented
    a = E.deref(v, st)
    if a.elem not in ("real", "int"):
        raise OutsideSubset("abs of a %s array" % a.elem)

    def el(idx):
        x = E.select(a, idx)
        return z3.If(x >= 0, x, -x)
    return _lam(E, st, a.shape, a.elem, el)


# N6
def _extreme(is_min):
    return lambda E, node, st: _np_extreme(E, node, st, is_min)


def _np_extreme(E, node, st, is_min):
    if len(node.args) != 1 or node.keywords:
        return NotImplemented
    v, undo = _peek(E, node.args[0], st)
    if not _is_arr(v):
        undo()
        return NotImplemented
    a = E.deref(v, st)
    if a.rank != 1 or a.elem not in ("real", "int"):
        raise OutsideSubset("np.max of a rank-%d %s array" % (a.rank, a.elem))
    n = toz(a.shape[0])
    E.emit("nonempty:extreme@%s" % E.cur_line, st, n > 0, "index")
    w, j = E.fresh("wext", I), E.fresh("j", I)
    el = z3.simplify(z3.Select(a.data, j))
    m = z3.simplify(z3.Select(a.data, w))             # the result IS the term a[w] (no defining equation to solve)
    st.pc.append(z3.And(w >= 0, w < n))
    st.pc.append(z3.ForAll([j], z3.Implies(z3.And(j >= 0, j < n), (m <= el) if is_min else (m >= el))))
    return m


_CMP = {ast.Lt: lambda x, y: x < y, ast.LtE: lambda x, y: x <= y, ast.Gt: lambda x, y: x > y, ast.GtE: lambda x, y: x >= y,
        ast.Eq: lambda x, y: x == y, ast.NotEq: lambda x, y: x != y}
_FLIP = {ast.Lt: ast.Gt, ast.LtE: ast.GtE, ast.Gt: ast.Lt, ast.GtE: ast.LtE, ast.Eq: ast.Eq, ast.NotEq: ast.NotEq}


def _install_engine_hooks():
    orig_compare = Engine.ev_Compare

    def ev_Compare(self, node, st):                                              # N3
        if _on(self) and len(node.ops) == 1 and type(node.ops[0]) in _CMP:
            l, undo = _peek(self, node.left, st)
            r = self.ev(node.comparators[0], st)
            op = type(node.ops[0])
            if _is_arr(r) and not _is_arr(l):
                l, r, op = r, l, _FLIP[op]
            if _is_arr(l) and not _is_arr(r) and not isinstance(r, tuple) and r is not None:
                a = self.deref(l, st)
                if a.elem in ("real", "int"):
                    s = toz(engine.num_of_bool(r))
                    if a.elem == "real" or engine.sort_kind(s) == "real":
                        return _lam(self, st, a.shape, "bool", lambda idx: _CMP[op](to_real(self.select(a, idx)), to_real(s)))
                    return _lam(self, st, a.shape, "bool", lambda idx: _CMP[op](self.select(a, idx), s))
            undo()
        return orig_compare(self, node, st)
    Engine.ev_Compare = ev_Compare

    orig_arr_binop = Engine.arr_binop

    def arr_binop(self, op, a, b, st):
        r = orig_arr_binop(self, op, a, b, st)
        if _on(self) and isinstance(r, Ref):
            return _lamify_last(self, st, r)
        return r
    Engine.arr_binop = arr_binop

    orig_bind = calls.bind_args

    def bind_args(fn, node, E, st, skip_self=False):                             # R1c
        if not (_on(E) and any(isinstance(d, ast.Call) for d in fn.args.defaults)):
            return orig_bind(fn, node, E, st, skip_self)
        import copy
        from pyvc.contract import CONTRACTS
        fn2 = copy.copy(fn)
        a2 = copy.copy(fn.args)
        a2.defaults = [ast.copy_location(ast.Constant(None), d) if isinstance(d, ast.Call) else d for d in fn.args.defaults]
        fn2.args = a2
        bound = orig_bind(fn2, node, E, st, skip_self)
        passed = {kw.arg for kw in node.keywords}
        cs = [c for k, c in CONTRACTS.items() if "#" not in k and k.split(":")[1] == fn.name]
        if len(cs) == 1 and len(node.args) == 0:
            for prm, t in cs[0].types.items():
                ty = engine.parse_type(t)
                if prm not in passed and bound.get(prm) is None and ty[0] == "arr" and ty[2] == 1:
                    # omitted optional argument that the callee's contract reads as a rank-1 array: the empty list (int) /
                    # a single unconstrained element (real: the one field of a settings object)
                    if ty[1] == "int":
                        bound[prm] = calls.alloc(E, st, 0, "int", 0)
                    else:
                        rid = next(E.ids)
                        st.heap[rid] = Arr(E.fresh(prm, arr_sort("real", 1)), (1,), "real")
                        bound[prm] = Ref(rid)
        return bound
    calls.bind_args = bind_args

    orig_repo_call, orig_cf = calls.repo_call, calls.contracts_for
    flag = []

    def contracts_for(key):                                                      # R1d
        out = orig_cf(key)
        if flag and len(out) > 1 and any(c.key == key for c in out):
            return [c for c in out if c.key == key]
        return out

    def repo_call(E, key, node, st, self_value=None):
        if not _on(E):
            return orig_repo_call(E, key, node, st, self_value)
        flag.append(1)
        try:
            return orig_repo_call(E, key, node, st, self_value)
        finally:
            flag.pop()
    calls.contracts_for, calls.repo_call = contracts_for, repo_call

    orig_assign = Engine.assign

    def assign(self, t, v, st, checked=False):                                   # N4
        if _on(self) and isinstance(t, ast.Subscript) and not isinstance(t.slice, (ast.Tuple, ast.Slice)) and not _is_arr(v) \
                and not isinstance(v, tuple):
            base = self.ev(t.value, st)
            if isinstance(base, Ref):
                b, undo = _peek(self, t.slice, st)
                if _is_arr(b) and self.deref(b, st).elem == "bool":
                    B, A = self.deref(b, st), st.heap[base.id]
                    if B.rank != A.rank:
                        raise OutsideSubset("boolean-mask store: rank")
                    for p, q in zip(A.shape, B.shape):
                        self.emit("shape-eq@%s" % self.cur_line, st, toz(p) == toz(q), "shape")
                    val = self.elem_coerce(v, A.elem)
                    idx = [self.fresh("i", I) for _ in A.shape]
                    body = z3.If(self.select(B, idx), val, self.select(A, idx))
                    for x in reversed(idx):
                        body = z3.Lambda([x], body)
                    st.heap[base.id] = Arr(body, A.shape, A.elem)
                    return
                undo()
        return orig_assign(self, t, v, st, checked)
    Engine.assign = assign


_INSTALLED = False


def install():
    global _INSTALLED
    if _INSTALLED:
        return
    _INSTALLED = True
    _chain("np.seterr", _np_seterr)
    _chain("np.abs", _abs)
    _chain("builtin.abs", _abs)
    _chain("np.max", _extreme(False))
    _chain("np.min", _extreme(True))
    _install_engine_hooks()
