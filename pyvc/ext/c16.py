"""Engine extension used by contracts/c16_fits_c01_glue.py: the FITS glue of array_2d_util / array_1d_util (property C16).

Active ONLY while a contract whose key is in ENABLED is executed (`install()` is called by the contract module after every
extension has been imported; every hook chains to whatever was registered before for all other contracts / value kinds).

astropy (`fits.Header`, `fits.PrimaryHDU`, `fits.open`, `hdu.writeto`), `os` and `conf.instance[...]` are EXTERNAL to /repo.
They are given the minimal ASSUMED contracts below (part of the trusted base; the same list is exported as `ASSUMED_FACTS` and
registered by the contract module as `trusted` pseudo-contracts, so that each fact is printed as
"assumed contract (not verified): pyvc.ext.c16:<id>" in the evidence of C16).  Floats are reals (R1).

 F1  fits.PrimaryHDU(a, header=h) / fits.PrimaryHDU(a, h): an object `u` with  u.data IS the array a  (same shape, same values,
     same storage: a write through u.data would be a write to a, so the frame obligation of the caller's array still sees it) and
     u.header == h.  Constructing it does not modify a.
 F2  fits.Header(): a header (a mapping from card names to values) with no card.  Headers are read only through
     `name in header` and `header[name]` with a LITERAL name; `header[name]` raises KeyError exactly when `name in header` is
     false, otherwise it yields the card's value (a real).
 F3  conf.instance["general"]["fits"]["flip_for_ds9"] is an arbitrary boolean that does not change during a call: the ghost
     input `ds9_flip` of the contract DSL (one uninterpreted boolean: every contract and corollary holds for both settings;
     engine C sets the real configuration entry to the generated value before every call).
 F4  np.flipud(a):  a FRESH array r of the shape of a with  r[i, j] == a[H-1-i, j]  (rank 2, H = a.shape[0]),
     r[i] == a[N-1-i]  (rank 1).  a is not modified.  (numpy returns a view; read as a snapshot -- exact for the functions under
     contract, which hand it straight to PrimaryHDU / astype and never write to a afterwards.)
 F5  x.astype("float64") on a real array is value preserving and returns a fresh array (the engine's own R1/R5 reading,
     pyvc/calls.py:astype_real); the data of a FITS image HDU are read as reals whatever their BITPIX (R1, R2).
 F6  fits.open(path, ...)[k] with an integer k: the k-th header-data unit stored in the file: an object u with
     u.data == fits_dataR(path, k)  (R = 1, 2: the rank the contract's `let` declares; a ghost array of unknown shape and values)
     and u.header == fits_header(path, k) (a ghost header).  ASSUMED: the file exists, is a readable FITS file and has an image
     HDU number k of that rank (otherwise astropy raises; nothing is claimed for such files).  One file is opened per call;
     obligation `fits:hdu-index`: the index used by the code is the `hdu` the contract's ghost was declared for.
 F7  the file system, as far as `numpy_array_*_to_fits` uses it -- ghost state `fs` (an int vector; 0/1 for booleans), allocated
     by the DSL term `fits_fs(file_path)`:
        fs[0] = 1 iff os.path.split(file_path)[0] is a non-empty string (its truth value)
        fs[1] = 1 iff that directory exists            fs[2] = 1 iff file_path exists
        fs[3], fs[4], fs[5] = number of os.makedirs / os.remove / writeto calls made so far (0 at entry)
     os.path.exists(dir) == (fs[1] == 1), os.path.exists(file_path) == (fs[2] == 1);
     os.makedirs(dir): obligation `fs:makedirs-absent` (fs[1] == 0, python raises FileExistsError otherwise); then fs[1] = 1, fs[3] += 1;
     os.remove(file_path): obligation `fs:remove-present` (fs[2] == 1, FileNotFoundError otherwise); then fs[2] = 0, fs[4] += 1;
     u.writeto(file_path) (astropy default overwrite=False): raises OSError exactly when fs[2] == 1; otherwise obligation
        `fs:writeto-dir` (fs[0] == 0 or fs[1] == 1: the target directory exists), then fs[2] = 1, fs[5] += 1 and the file's
        primary HDU is u:  fits_written2(file_path) / fits_written1(file_path) has the shape and values of u.data.
     Nothing else about the file system is modelled (permissions, races, symbolic links, disk space: ASSUMED absent).

Not a fact, a dispatch rule (`INLINE_FOR_CALLERS`, see below): helpers that received one contract variant per input rank keep being
INLINED at their call sites, exactly as before they had contracts (the engine cannot select a variant by rank).

Type names added to the contract grammar: "header" (F2), "hdu1" / "hdu2" (F1: `.data` of rank 1 / 2, `.header`), and "dict" / "list"
(only for parameters of `mode="bounded"` variants; engine A refuses values of these types).
"""
from __future__ import annotations
import ast
import z3

from pyvc import calls, engine, verify
from pyvc.engine import Engine, State, Ref, Arr, StrV, Exit, OutsideSubset, I, R, B, toz, arr_sort, to_int_strict

ENABLED = set()

ASSUMED_FACTS = {
    "F1_PrimaryHDU_data_is_its_array_argument_header_is_its_header_argument_array_not_modified":
        "fits.PrimaryHDU(a, header=h): .data has the shape and values of a (it is a), .header == h, a is not modified",
    "F2_Header_is_a_mapping_read_by_in_and_getitem_KeyError_iff_name_absent_new_Header_is_empty":
        "fits.Header() has no card; `name in header`, `header[name]` (KeyError iff absent) on literal names",
    "F3_conf_flip_for_ds9_is_an_arbitrary_boolean_constant_during_a_call":
        "conf.instance['general']['fits']['flip_for_ds9'] == ghost boolean ds9_flip",
    "F4_np_flipud_reverses_the_first_axis_into_a_fresh_array":
        "np.flipud(a)[i, j] == a[H-1-i, j] (rank 1: a[N-1-i]); fresh; a not modified",
    "F5_astype_float64_is_value_preserving_on_reals_and_fresh":
        "x.astype('float64') has the values of x (R1), fresh array; FITS image data are reals",
    "F6_fits_open_path_k_is_the_kth_HDU_of_an_existing_readable_file":
        "fits.open(path)[k].data == ghost fits_dataR(path, k), .header == ghost fits_header(path, k); file readable, HDU k present",
    "F7_os_path_exists_makedirs_remove_and_HDU_writeto_over_the_ghost_file_system_state_fs":
        "os.path.split/exists, os.makedirs, os.remove, writeto (OSError iff the file exists) as state transitions of ghost fs",
}

FLAG = z3.Bool("ds9_flip")
_CONF_SRC = "conf.instance['general']['fits']['flip_for_ds9']"


def _on(E):
    return getattr(getattr(E, "c", None), "key", None) in ENABLED


# ------------------------------------------------------------------------------------------------------------ values
class HdrV:
    """a header: per literal card name a presence flag and a value (created on demand, named after the header)"""

    def __init__(self, name, empty=False):
        self.name, self.empty = name, empty

    def has(self, k):
        return z3.BoolVal(False) if self.empty else z3.Bool("%s.has[%s]" % (self.name, k))

    def val(self, k):
        return z3.Real("%s[%s]" % (self.name, k))

    def __repr__(self):
        return "HdrV(%s)" % self.name


class HduV:
    def __init__(self, data, header):
        self.data, self.header = data, header

    def __repr__(self):
        return "HduV(%r, %r)" % (self.data, self.header)


class HduListV:
    pass


class PathPartV:
    """os.path.split(file_path)[0]: only its truth value is used"""

    def __init__(self, fs):
        self.fs = fs


def _ghost(E, st, what, rank=None):
    g = E.__dict__.setdefault("_c16_ghost", {})
    if what not in g:
        if what == "header":
            g[what] = HdrV("fits_header")
        else:
            elem = "int" if what == "fs" else "real"
            shape = [z3.IntVal(6)] if what == "fs" else [E.fresh("%s.shape%d" % (what, i), I) for i in range(rank)]
            g[what] = (Arr(E.fresh(what, arr_sort(elem, rank or 1)), shape, elem), next(E.ids))
    if what == "header":
        return g[what]
    arr, rid = g[what]
    if rid not in st.heap:
        st.heap[rid] = arr
        for s in arr.shape:
            if not z3.is_int_value(s):
                st.pc.append(s >= 0)
        if what == "fs":
            a = arr.data
            for k in (0, 1, 2):
                st.pc.append(z3.Or(z3.Select(a, k) == 0, z3.Select(a, k) == 1))
            for k in (3, 4, 5):
                st.pc.append(z3.Select(a, k) == 0)
    return Ref(rid)


def _fs_get(E, st, k):
    ref = _ghost(E, st, "fs")
    return z3.Select(st.heap[ref.id].data, z3.IntVal(k))


def _fs_set(E, st, upd):
    ref = _ghost(E, st, "fs")
    a = st.heap[ref.id]
    d = a.data
    for k, v in upd.items():
        d = z3.Store(d, z3.IntVal(k), toz(v))
    st.heap[ref.id] = Arr(d, a.shape, a.elem)


def _is_file_path(E, v):
    return isinstance(v, StrV)


# ------------------------------------------------------------------------------------------------------------ np.flipud (F4)
def _flipud(E, node, st):
    v = E.ev(node.args[0], st)
    a = E.deref(v, st)
    if a.rank not in (1, 2):
        raise OutsideSubset("np.flipud of rank %d" % a.rank)
    out = Arr(E.fresh("flipud", arr_sort(a.elem, a.rank)), tuple(a.shape), a.elem)
    idx = [E.fresh("i", I) for _ in a.shape]
    src = [toz(a.shape[0]) - 1 - idx[0]] + idx[1:]
    sel = E.select(out, idx)
    st.pc.append(z3.ForAll(idx, sel == E.select(a, src), patterns=[sel]))
    rid = next(E.ids)
    st.heap[rid] = out
    return Ref(rid)


def _chain_np(path, mine):
    prev = calls.NP_EXT.get(path)

    def h(E, node, st):
        if _on(E):
            return mine(E, node, st)
        if prev is not None:
            return prev(E, node, st)
        calls.NP_EXT.pop(path)
        try:
            return calls.np_call(E, path, node, st)
        finally:
            calls.NP_EXT[path] = h
    calls.NP_EXT[path] = h


# ------------------------------------------------------------------------------------------------------------ calls
def _func_src(node):
    try:
        return ast.unparse(node.func)
    except Exception:
        return ""


def _my_call(E, node, st):
    """returns NotImplemented when the call is not one of the external forms read here"""
    src = _func_src(node)
    f = node.func
    # DSL ghosts (spec mode)
    if E.spec_mode and isinstance(f, ast.Name) and f.id not in st.env:
        if f.id in ("fits_data1", "fits_data2"):
            if len(node.args) >= 2:
                # the HDU number the contract speaks about: `hdu_list[k]` in the code must use this very index (obligation fits:hdu-index)
                E.__dict__.setdefault("_c16_index", to_int_strict(E.ev(node.args[1], st)))
            return _ghost(E, st, "fits_data", int(f.id[-1]))
        if f.id in ("fits_written1", "fits_written2"):
            return _ghost(E, st, "fits_written", int(f.id[-1]))
        if f.id == "fits_header":
            return _ghost(E, st, "header")
        if f.id == "fits_fs":
            return _ghost(E, st, "fs")
    if E.spec_mode:
        return NotImplemented
    if src in ("fits.Header", "fits.PrimaryHDU", "fits.open") and E.mi.resolve("fits") == "astropy.io.fits":
        if src == "fits.Header":
            if node.args or node.keywords:
                raise OutsideSubset("fits.Header with arguments")
            return HdrV("hdr!%d" % next(E.fresh_n), empty=True)
        if src == "fits.PrimaryHDU":
            data = calls.get_arg(node, 0, "data")
            hdr = calls.get_arg(node, 1, "header")
            if data is None:
                raise OutsideSubset("fits.PrimaryHDU without data")
            d = E.ev(data, st)
            if not isinstance(d, (Ref, Arr)):
                raise OutsideSubset("fits.PrimaryHDU of a non-array")
            h = E.ev(hdr, st) if hdr is not None else HdrV("hdr!%d" % next(E.fresh_n), empty=True)
            if not isinstance(h, HdrV):
                raise OutsideSubset("fits.PrimaryHDU header argument")
            return HduV(d, h)
        if E.__dict__.get("_c16_opened"):
            raise OutsideSubset("a second fits.open in one function")
        E.__dict__["_c16_opened"] = True
        p = E.ev(node.args[0], st)
        if not isinstance(p, StrV):
            raise OutsideSubset("fits.open of a non-path")
        for kw in node.keywords:
            E.ev(kw.value, st)
        return HduListV()
    if src in ("os.path.split", "os.path.exists", "os.makedirs", "os.remove") and E.mi.resolve("os") == "os":
        if len(node.args) != 1 or node.keywords:
            raise OutsideSubset(src + " form")
        v = E.ev(node.args[0], st)
        if src == "os.path.split":
            if not isinstance(v, StrV):
                raise OutsideSubset("os.path.split of a non-path")
            return (PathPartV(None), StrV(None))
        is_dir = isinstance(v, PathPartV)
        if not is_dir and not isinstance(v, StrV):
            raise OutsideSubset(src + " of %r" % (v,))
        if src == "os.path.exists":
            return _fs_get(E, st, 1 if is_dir else 2) == 1
        if src == "os.makedirs":
            if not is_dir:
                raise OutsideSubset("os.makedirs of the file path")
            E.emit("fs:makedirs-absent@%s" % E.cur_line, st, _fs_get(E, st, 1) == 0, "call-pre")
            _fs_set(E, st, {1: z3.IntVal(1), 3: _fs_get(E, st, 3) + 1})
            return None
        if is_dir:
            raise OutsideSubset("os.remove of the directory")
        E.emit("fs:remove-present@%s" % E.cur_line, st, _fs_get(E, st, 2) == 1, "call-pre")
        _fs_set(E, st, {2: z3.IntVal(0), 4: _fs_get(E, st, 4) + 1})
        return None
    if isinstance(f, ast.Attribute) and f.attr == "writeto" and isinstance(f.value, ast.Name):
        u = st.env.get(f.value.id)
        if isinstance(u, HduV):
            if len(node.args) != 1 or node.keywords:
                raise OutsideSubset("writeto form")
            p = E.ev(node.args[0], st)
            if not isinstance(p, StrV):
                raise OutsideSubset("writeto of a non-path")
            exists = _fs_get(E, st, 2) == 1
            ex = st.copy()
            ex.pc.append(exists)
            E.exits.append(Exit("raise", ex, None, exc="OSError", line=E.cur_line))
            st.pc.append(z3.Not(exists))
            E.emit("fs:writeto-dir@%s" % E.cur_line, st, z3.Or(_fs_get(E, st, 0) == 0, _fs_get(E, st, 1) == 1), "call-pre")
            _fs_set(E, st, {2: z3.IntVal(1), 5: _fs_get(E, st, 5) + 1})
            d = E.deref(u.data, st)
            w = _ghost(E, st, "fits_written", d.rank)
            st.heap[w.id] = Arr(d.data, tuple(d.shape), d.elem)
            return None
    return NotImplemented


_INSTALLED = False
# Contracts of tiny loop-free helpers that have one variant per input rank / form (convert_array, convert_grid, check_*_and_mask_2d).
# The engine selects variants only by None-ness, so their mere existence would make every CALLER (convert_array_2d, convert_grid_2d,
# convert_*_1d) undecidable.  For callers these helpers therefore stay what they were before they had contracts: inlined bodies
# (a caller is then verified against the helper's CODE, which assumes nothing).  No fact is assumed here.
INLINE_FOR_CALLERS = set()      # keys without the #variant part


def install():
    global _INSTALLED
    if _INSTALLED:
        return
    _INSTALLED = True
    _chain_np("np.flipud", _flipud)

    orig_contracts_for = calls.contracts_for

    def contracts_for(key):
        if key in INLINE_FOR_CALLERS:
            return []
        return orig_contracts_for(key)
    calls.contracts_for = contracts_for

    # ---- types: "header", "hdu1", "hdu2"
    def _wrap_parse(orig):
        def parse_type(t):
            ts = t.strip() if isinstance(t, str) else t
            if ts == "header":
                return ("c16hdr",)
            if ts in ("hdu1", "hdu2"):
                return ("c16hdu", int(ts[-1]))
            if ts in ("dict", "list"):                 # only in `mode="bounded"` variants (engine C); engine A refuses a value of this type
                return ("c16dict",)
            return orig(t)
        return parse_type
    pt = _wrap_parse(engine.parse_type)
    engine.parse_type = pt
    calls.parse_type = pt
    verify.parse_type = pt

    orig_fresh = Engine.fresh_of_type

    def fresh_of_type(self, ty, name, st):
        if ty[0] == "c16hdr":
            return HdrV(name)
        if ty[0] == "c16hdu":
            data = orig_fresh(self, ("arr", "real", ty[1]), name + ".data", st)
            return HduV(data, HdrV(name + ".header"))
        return orig_fresh(self, ty, name, st)
    Engine.fresh_of_type = fresh_of_type

    orig_call = Engine.ev_Call

    def ev_Call(self, node, st):
        if _on(self):
            r = _my_call(self, node, st)
            if r is not NotImplemented:
                return r
        return orig_call(self, node, st)
    Engine.ev_Call = ev_Call

    orig_name = Engine.ev_Name

    def ev_Name(self, node, st):
        if _on(self) and node.id == "ds9_flip" and "ds9_flip" not in st.env and self.spec_mode:
            return FLAG
        return orig_name(self, node, st)
    Engine.ev_Name = ev_Name

    orig_attr = Engine.ev_Attribute

    def ev_Attribute(self, node, st):
        if _on(self) and isinstance(node.value, (ast.Name, ast.Subscript)):
            base = None
            if isinstance(node.value, ast.Name):
                base = st.env.get(node.value.id)
            elif node.attr in ("data", "header"):
                base = self.ev(node.value, st)
            if isinstance(base, HduV):
                if node.attr == "data":
                    return base.data
                if node.attr == "header":
                    return base.header
                return ("c16method", base, node.attr)
        return orig_attr(self, node, st)
    Engine.ev_Attribute = ev_Attribute

    orig_sub = Engine.ev_Subscript

    def ev_Subscript(self, node, st):
        if _on(self):
            if not self.spec_mode and ast.unparse(node) == _CONF_SRC and self.mi.resolve("conf") == "autoconf.conf":
                return FLAG                                                                                    # F3
            if isinstance(node.value, ast.Name):
                base = st.env.get(node.value.id)
                if isinstance(base, HduListV):                                                                 # F6
                    k = self.ev(node.slice, st)
                    if engine.sort_kind(k) != "int":
                        raise OutsideSubset("hdu index")
                    g = self.__dict__.get("_c16_ghost", {})
                    if "_c16_index" in self.__dict__ and not self.spec_mode:
                        self.emit("fits:hdu-index@%s" % self.cur_line, st, toz(k) == toz(self.__dict__["_c16_index"]), "call-pre")
                    if "fits_data" not in g:
                        # the contract's `let` did not declare the rank of the stored data: only the header is readable
                        return HduV(None, _ghost(self, st, "header"))
                    return HduV(_ghost(self, st, "fits_data"), _ghost(self, st, "header"))
                if isinstance(base, HdrV):                                                                     # F2
                    k = self.ev(node.slice, st)
                    if not (isinstance(k, StrV) and k.s is not None):
                        raise OutsideSubset("header card name must be a literal")
                    if not self.spec_mode:
                        ex = st.copy()
                        ex.pc.append(z3.Not(base.has(k.s)))
                        self.exits.append(Exit("raise", ex, None, exc="KeyError", line=self.cur_line))
                        st.pc.append(base.has(k.s))
                    return base.val(k.s)
        return orig_sub(self, node, st)
    Engine.ev_Subscript = ev_Subscript

    orig_cmp = Engine.ev_Compare

    def ev_Compare(self, node, st):
        if _on(self) and len(node.ops) == 1 and isinstance(node.ops[0], (ast.In, ast.NotIn)):
            cn, h = node.comparators[0], None
            if isinstance(cn, ast.Name):
                h = st.env.get(cn.id)
            elif isinstance(cn, ast.Attribute) and cn.attr == "header":
                h = self.ev(cn, st)
            if isinstance(h, HdrV):
                k = self.ev(node.left, st)
                if not (isinstance(k, StrV) and k.s is not None):
                    raise OutsideSubset("header card name must be a literal")
                r = h.has(k.s)
                return r if isinstance(node.ops[0], ast.In) else z3.Not(r)
        return orig_cmp(self, node, st)
    Engine.ev_Compare = ev_Compare

    orig_truth = Engine.truth

    def truth(self, v):
        if isinstance(v, PathPartV):
            g = self.__dict__.get("_c16_ghost", {})
            if "fs" not in g:
                raise OutsideSubset("truth of a path: the contract does not declare fits_fs(file_path)")
            return z3.Select(g["fs"][0].data, z3.IntVal(0)) == 1
        return orig_truth(self, v)
    Engine.truth = truth


# ------------------------------------------------------------------------------------------------------------ run-time twins
def rt_data(path, k):
    """what the file really holds: the raw data of HDU k, read with astropy directly (no flip, no conversion)"""
    import numpy as np
    from astropy.io import fits
    with fits.open(str(path)) as hl:
        return np.array(hl[int(k)].data)


def rt_header(path, k):
    from astropy.io import fits
    with fits.open(str(path)) as hl:
        return hl[int(k)].header.copy()


def rt_set_flip(value):
    import autoarray  # noqa
    from autoconf import conf
    conf.instance["general"]["fits"]["flip_for_ds9"] = bool(value)
