"""engine extensions used by contracts/c04_normal_equations.py

1. ghost position counter for `for x in <array>` loops.  pyvc binds only the loop target (`x = arr[k]`), so an
   invariant of such a loop cannot say how far the iteration has got.  This wrapper additionally binds the ghost name
   `pos_L<ordinal>` (ordinal = pre-order loop number, as in the contract's `loops` keys) to the very counter term `k`
   the engine already uses for initialisation (0), the arbitrary iteration (k), preservation (k + 1) and exit (n).
   It introduces no fact and no new term; program variables cannot collide with the name because the ghost is
   (re)bound at every evaluation point of the invariant and never read by program code.
"""
from pyvc import loops

if not getattr(loops.Iter, "_c04_pos", False):
    _orig_bind = loops.Iter.bind

    def _bind(self, st, k):
        _orig_bind(self, st, k)
        if self.arr is not None and not self.enum:
            st.env["pos_L%d" % self.E.loops.index(self.s)] = k

    loops.Iter.bind = _bind
    loops.Iter._c04_pos = True
