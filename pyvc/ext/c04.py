"""engine extensions used by contracts/c04_normal_equations.py

1. ghost position counter for `for x in <array>` loops.  pyvc binds only the loop target (`x = arr[k]`), so an
   invariant of such a loop cannot say how far the iteration has got.  This wrapper additionally binds the ghost name
   `pos_L<ordinal>` (ordinal = pre-order loop number, as in the contract's `loops` keys) to the very counter term `k`
   the engine already uses for initialisation (0), the arbitrary iteration (k), preservation (k + 1) and exit (n).
   It introduces no fact and no new term; program variables cannot collide with the name because the ghost is
   (re)bound at every evaluation point of the invariant and never read by program code.
"""
from pyvc import loops

if not getattr(loops.Iter, "_c04_pos", False):
    _orig_bind = loops.Iter.bind

    def _bind(self, st, k):
        _orig_bind(self, st, k)
        if self.arr is not None and not self.enum:
            st.env["pos_L%d" % self.E.loops.index(self.s)] = k

    loops.Iter.bind = _bind
    loops.Iter._c04_pos = True


# 2. NaN-aware element-wise array division (opt-in per contract key through NAN_DIV).
#    R1 treats floats as exact reals without NaN, so `image_native / noise_map_native ** 2.0` followed by
#    `np.isnan(weight)` (w_tilde_data_imaging_from: masked pixels carry image = noise = 0 and are skipped through
#    0/0 = NaN) has no reading in the base engine: its `div@` obligation demands a non-zero divisor everywhere.
#    For contracts listed in NAN_DIV the division `a / b` of two real arrays is read as IEEE does:
#        b != 0            ->  out = a / b      (exact, R1)
#        b == 0, a == 0    ->  out = NaN        (flag array; the real value of `out` there is left unconstrained)
#        b == 0, a != 0    ->  +-inf            -- excluded by the proof obligation `nan-div:no-inf@line`
#    and `np.isnan(x)` of an element read straight from such an array returns its flag (False for anything else, R1).
import ast
import z3
from pyvc import calls, engine
from pyvc.engine import Arr, Ref, I, B, arr_sort

NAN_DIV = set()

if not getattr(engine.Engine, "_c04_nan", False):
    _orig_arr_binop = engine.Engine.arr_binop

    def _arr_binop(self, op, a, b, st):
        if (isinstance(op, ast.Div) and self.c.key in NAN_DIV and not self.spec_mode
                and isinstance(a, (Ref, Arr)) and isinstance(b, (Ref, Arr))):
            A, Bv = self.deref(a, st), self.deref(b, st)
            if A.rank == Bv.rank and A.elem == "real" and Bv.elem == "real":
                for s, t in zip(A.shape, Bv.shape):
                    self.emit("shape-eq@%s" % self.cur_line, st, engine.toz(s) == engine.toz(t), "shape")
                idx = [self.fresh("i", I) for _ in A.shape]
                ea, eb = self.select(A, idx), self.select(Bv, idx)
                rng = z3.And([z3.And(i >= 0, i < engine.toz(s)) for i, s in zip(idx, A.shape)])
                self.emit("nan-div:no-inf@%s" % self.cur_line, st,
                          z3.ForAll(idx, z3.Implies(z3.And(rng, eb == 0), ea == 0)), "div")
                out = Arr(self.fresh("nandiv", arr_sort("real", A.rank)), A.shape, "real")
                flag = Arr(self.fresh("isnan", arr_sort("bool", A.rank)), A.shape, "bool")
                st.pc.append(z3.ForAll(idx, z3.And(self.select(flag, idx) == (eb == 0),
                                                   z3.Implies(eb != 0, self.select(out, idx) == ea / eb)),
                                       patterns=[self.select(out, idx), self.select(flag, idx)]))
                if not hasattr(self, "_nanflags"):
                    self._nanflags = {}
                self._nanflags[out.data.get_id()] = flag
                rid = next(self.ids)
                st.heap[rid] = out
                return Ref(rid)
        if (isinstance(op, ast.Pow) and self.c.key in NAN_DIV and not self.spec_mode and isinstance(a, (Ref, Arr))
                and not isinstance(b, (Ref, Arr)) and not engine.is_z3(b) and b == 2):
            # a ** 2.0 element-wise: same fact as the base engine (out[idx] == a[idx] * a[idx]) but triggered on out[idx] only,
            # so that reads of `a` elsewhere do not keep producing non-linear products
            A = self.deref(a, st)
            if A.elem == "real":
                idx = [self.fresh("i", I) for _ in A.shape]
                out = Arr(self.fresh("sq", arr_sort("real", A.rank)), A.shape, "real")
                ea = self.select(A, idx)
                st.pc.append(z3.ForAll(idx, self.select(out, idx) == ea * ea, patterns=[self.select(out, idx)]))
                rid = next(self.ids)
                st.heap[rid] = out
                return Ref(rid)
        return _orig_arr_binop(self, op, a, b, st)

    def _isnan(E, node, st):
        v = E.ev(node.args[0], st)
        flags = getattr(E, "_nanflags", {})
        if flags and engine.is_z3(v):
            t, idx = v, []
            while z3.is_select(t):
                idx.insert(0, t.arg(1))
                t = t.arg(0)
            f = flags.get(t.get_id())
            if f is not None and len(idx) == f.rank:
                return E.select(f, idx)
        return False            # R1: reals, no NaN

    engine.Engine.arr_binop = _arr_binop
    engine.Engine._c04_nan = True
    calls.NP_EXT["np.isnan"] = _isnan


# 3. np.sum of a 1-D real array as the spec function c04_psum (opt-in per contract key through PSUM).
#    The base engine defines np.sum(a) by a private partial-sum function (S(0) = 0, S(k+1) = S(k) + a[k]) to which no
#    lemma can be attached.  For the listed contracts the same sum is read as c04_psum(a, len(a)) -- a spec function of
#    contracts/c04_normal_equations.py with exactly that recurrence as axioms -- so that its proven lemmas
#    (monotone / integer-valued for non-negative integer-valued entries) are available.
PSUM = set()


def _np_sum(E, node, st):
    v = E.ev(node.args[0], st)
    arr = E.deref(v, st)
    if E.c.key in PSUM and arr.rank == 1 and arr.elem == "real" and len(node.args) == 1 and not node.keywords:
        return E.spec_apply("c04_psum", [v, arr.shape[0]], st)
    return calls.np_sum(E, arr, st)


calls.NP_EXT["np.sum"] = _np_sum
