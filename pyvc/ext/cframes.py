"""Engine extensions used by contracts/c17_c12_frames.py (part of the trusted base -- every fact below is ASSUMED).

Active ONLY while a contract whose key is in ENABLED is executed (`install()` is called by the contract module; every
handler chains to the handler that was registered before for all other contracts / argument kinds).

Vectorised numpy readings (each returns a FRESH array defined by the stated element-wise fact; `sin cos arctan2 sqrt` are
the engine's uninterpreted functions, arithmetic is the engine's own scalar reading, floats are reals (R1)):

 V1  np.array(t), t a tuple of n scalars          r: real[1], length n,  r[i] == t[i]
 V2  A (op) b, A of rank 2, b of rank 1           obligation shape-eq: A.shape[1] == b.shape[0];  r[i, j] == A[i, j] (op) b[j]
                                                   (numpy broadcasting of a row vector over the rows of a matrix)
 V3  np.sum(A, 1), A real of rank 2               obligation axis-width: A.shape[1] == 2;  r: real[1], length A.shape[0],
                                                   r[i] == A[i, 0] + A[i, 1]       (only the width-2 case is read)
 V4  np.sin np.cos np.sqrt(a), np.arctan2(a, b) of arrays   r same shape,  r[i] == sin(a[i]) / cos(a[i]) / arctan2(a[i], b[i])
                                                   (arctan2: obligation shape-eq)
 V5  np.multiply(x, y)                            == x * y  (the engine's own reading of *)
 V6  -a, a an array                               == 0 - a  (element-wise)
 V7  a * (u, v), a, u, v real arrays of rank 1    obligation shape-eq (all three lengths equal);  r: real[2] of shape (2, n),
                                                   r[0, i] == a[i] * u[i],  r[1, i] == a[i] * v[i]
                                                   (numpy converts the tuple to a (2, n) array and broadcasts a over its rows)
 V8  np.vstack(A), A of rank 2                    a copy of A;     np.vstack((u, v)), u, v of rank 1 and equal length n
                                                   (obligation shape-eq):  r of shape (2, n), r[0, i] == u[i], r[1, i] == v[i]
 V9  A.T, A of rank 2                             r of shape (A.shape[1], A.shape[0]),  r[i, j] == A[j, i]
                                                   (numpy returns a VIEW; read as a snapshot -- exact for the two functions, which
                                                   return it immediately and whose base array is a fresh temporary)

Representation: where possible the fresh array is not an uninterpreted array constrained by `forall idx: r[idx] == e(idx)` but the
z3 lambda term  idx -> e(idx)  (identical meaning; `_lam`); inside ENABLED contracts the engine's own element-wise results
`A (op) B` are re-read the same way (`_lamify_last`: the quantified definition the engine has just emitted is replaced by the lambda).

Trigonometric facts, opt-in through `uses_math=["trig17"]` (ASSUMED; validated numerically by the `py` twin `_selfcheck()`
below, which contracts/c17_c12_frames.py runs at import and `./vf selftest` therefore runs too):

 T1  forall a:        sin(a)^2 + cos(a)^2 == 1                                   trigger {sin a} / {cos a}
 T2  forall a, b, c:  c == a - b  ->  sin(c) == sin(a) cos(b) - cos(a) sin(b)    trigger {sin c, sin a, sin b}
                                  and cos(c) == cos(a) cos(b) + sin(a) sin(b)    trigger {cos c, cos a, cos b}
 (angle-difference form of the angle-sum formulas; stated through `c == a - b` so that no arithmetic occurs in a trigger).
 Nothing is assumed about arctan2, sqrt (beyond the engine's opt-in "sqrt") or radians (exact linear map t * pi / 180, engine).
"""
from __future__ import annotations
import ast
import math
import z3

from pyvc import calls, engine, verify
from pyvc.engine import Engine, Ref, Arr, I, R, F_COS, F_SIN, arr_sort, OutsideSubset, to_real, toz, UF_MATH

ENABLED = set()


def _on(E):
    return getattr(getattr(E, "c", None), "key", None) in ENABLED


def _new(E, st, name, shape, elem="real"):
    out = Arr(E.fresh(name, arr_sort(elem, len(shape))), tuple(shape), elem)
    rid = next(E.ids)
    st.heap[rid] = out
    return Ref(rid), out


def _lam(E, st, shape, elem, fn):
    """fresh array DEFINED as the z3 lambda  idx -> fn(idx)  (same meaning as `forall idx: r[idx] == fn(idx)`; the solver
    beta-reduces reads of it, so program term and specification term become syntactically equal)"""
    idx = [E.fresh("i", I) for _ in shape]
    body = fn(idx)
    for v in reversed(idx):
        body = z3.Lambda([v], body)
    rid = next(E.ids)
    st.heap[rid] = Arr(body, tuple(shape), elem)
    return Ref(rid)


def _lamify_last(E, st, ref):
    """the engine's own element-wise result `forall idx: out[idx] == e` (last path-condition entry) re-read as a lambda"""
    q = st.pc[-1]
    out = st.heap[ref.id]
    if not (z3.is_quantifier(q) and q.is_forall() and q.num_vars() == out.rank):
        return ref
    xs = [E.fresh("i", I) for _ in range(out.rank)]
    body = z3.substitute_vars(q.body(), *reversed(xs))
    if not (z3.is_eq(body) and body.arg(0).eq(E.select(out, xs))):
        return ref
    e = body.arg(1)
    for v in reversed(xs):
        e = z3.Lambda([v], e)
    st.pc.pop()
    st.heap[ref.id] = Arr(e, out.shape, out.elem)
    return ref


def _peek(E, argnode, st):
    no, npc, hk = len(E.obl), len(st.pc), set(st.heap)
    v = E.ev(argnode, st)

    def undo():
        del E.obl[no:]
        del st.pc[npc:]
        for h in list(st.heap):
            if h not in hk:
                del st.heap[h]
    return v, undo


def _chain(path, mine):
    prev = calls.NP_EXT.get(path)

    def h(E, node, st):
        if _on(E):
            r = mine(E, node, st)
            if r is not NotImplemented:
                return r
        if prev is not None:
            return prev(E, node, st)
        calls.NP_EXT.pop(path)
        try:
            return calls.np_call(E, path, node, st)
        finally:
            calls.NP_EXT[path] = h
    calls.NP_EXT[path] = h


def _is_arr(v):
    return isinstance(v, (Ref, Arr))


def _shape_eq(E, st, s, t):
    E.emit("shape-eq@%s" % E.cur_line, st, toz(s) == toz(t), "shape")


# V1
def _np_array(E, node, st):
    if len(node.args) != 1 or node.keywords:
        return NotImplemented
    v, undo = _peek(E, node.args[0], st)
    if not (isinstance(v, tuple) and v and all(engine.sort_kind(engine.num_of_bool(x)) in ("int", "real") for x in v)):
        undo()
        return NotImplemented
    vals = [to_real(toz(engine.num_of_bool(x))) for x in v]

    data = z3.K(I, z3.RealVal(0))                  # a store chain: reads at literal indices reduce syntactically, no if-then-else
    for i, x in enumerate(vals):
        data = z3.Store(data, z3.IntVal(i), x)
    rid = next(E.ids)
    st.heap[rid] = Arr(data, (len(vals),), "real")
    return Ref(rid)


# V3
def _np_sum(E, node, st):
    if len(node.args) != 2 or node.keywords or not (isinstance(node.args[1], ast.Constant) and node.args[1].value == 1):
        return NotImplemented
    A = E.deref(E.ev(node.args[0], st), st)
    if A.rank != 2 or A.elem != "real":
        raise OutsideSubset("np.sum(A, 1) of a non-real or non-2-D array")
    E.emit("axis-width@%s" % E.cur_line, st, toz(A.shape[1]) == 2, "shape")
    return _lam(E, st, (A.shape[0],), "real", lambda idx: E.select(A, [idx[0], z3.IntVal(0)]) + E.select(A, [idx[0], z3.IntVal(1)]))


# V4
def _ufunc1(nm):
    def h(E, node, st):
        if len(node.args) != 1 or node.keywords:
            return NotImplemented
        v, undo = _peek(E, node.args[0], st)
        if not _is_arr(v):
            undo()
            return NotImplemented
        a = E.deref(v, st)
        if a.elem not in ("real", "int"):
            raise OutsideSubset("np.%s of a %s array" % (nm, a.elem))
        E.math_used.add(nm)
        return _lam(E, st, a.shape, "real", lambda idx: UF_MATH[nm](to_real(E.select(a, idx))))
    return h


def _arctan2(E, node, st):
    if len(node.args) != 2 or node.keywords:
        return NotImplemented
    v, undo = _peek(E, node.args[0], st)
    if not _is_arr(v):
        undo()
        return NotImplemented
    w = E.ev(node.args[1], st)
    if not _is_arr(w):
        raise OutsideSubset("np.arctan2(array, scalar)")
    a, b = E.deref(v, st), E.deref(w, st)
    if a.rank != b.rank or a.elem != "real" or b.elem != "real":
        raise OutsideSubset("np.arctan2 of arrays of different rank / non-real")
    for s, t in zip(a.shape, b.shape):
        _shape_eq(E, st, s, t)
    E.math_used.add("arctan2")
    return _lam(E, st, a.shape, "real", lambda idx: UF_MATH["arctan2"](E.select(a, idx), E.select(b, idx)))


# V5
def _np_multiply(E, node, st):
    if len(node.args) != 2 or node.keywords:
        return NotImplemented
    return E.binop(ast.Mult(), E.ev(node.args[0], st), E.ev(node.args[1], st), st, node)


# V8
def _np_vstack(E, node, st):
    if len(node.args) != 1 or node.keywords:
        return NotImplemented
    v = E.ev(node.args[0], st)
    if _is_arr(v):
        A = E.deref(v, st)
        if A.rank != 2:
            raise OutsideSubset("np.vstack of a rank-%d array" % A.rank)
        rid = next(E.ids)
        st.heap[rid] = Arr(A.data, A.shape, A.elem)
        return Ref(rid)
    if isinstance(v, tuple) and len(v) == 2 and all(_is_arr(x) for x in v):
        return _stack2(E, st, E.deref(v[0], st), E.deref(v[1], st), None)
    raise OutsideSubset("np.vstack argument")


def _stack2(E, st, u, v, a):
    """rows (a*u, a*v) (a None: rows (u, v)) of rank-1 real arrays"""
    if u.rank != 1 or v.rank != 1 or u.elem != "real" or v.elem != "real" or (a is not None and (a.rank != 1 or a.elem != "real")):
        raise OutsideSubset("stack of non rank-1 real arrays")
    _shape_eq(E, st, u.shape[0], v.shape[0])
    if a is not None:
        _shape_eq(E, st, a.shape[0], u.shape[0])
    def el(idx):
        eu, ev = E.select(u, [idx[1]]), E.select(v, [idx[1]])
        if a is not None:
            eu, ev = E.select(a, [idx[1]]) * eu, E.select(a, [idx[1]]) * ev
        return z3.If(idx[0] == 0, eu, ev)
    return _lam(E, st, (2, u.shape[0]), "real", el)


_INSTALLED = False


def install():
    global _INSTALLED
    if _INSTALLED:
        return
    _INSTALLED = True
    _chain("np.array", _np_array)
    _chain("np.sum", _np_sum)
    _chain("np.sin", _ufunc1("sin"))
    _chain("np.cos", _ufunc1("cos"))
    _chain("np.arctan2", _arctan2)
    _chain("np.sqrt", _ufunc1("sqrt"))
    _chain("np.multiply", _np_multiply)
    _chain("np.vstack", _np_vstack)

    orig_arr_binop = Engine.arr_binop

    def arr_binop(self, op, a, b, st):
        if _on(self):
            A = self.deref(a, st) if _is_arr(a) else None
            Bv = self.deref(b, st) if _is_arr(b) else None
            # V7  a * (u, v)
            if A is not None and isinstance(op, ast.Mult) and isinstance(b, tuple) and len(b) == 2 and all(_is_arr(x) for x in b):
                return _stack2(self, st, self.deref(b[0], st), self.deref(b[1], st), A)
            # V2  matrix (op) row vector
            if A is not None and Bv is not None and A.rank == 2 and Bv.rank == 1 and isinstance(op, (ast.Add, ast.Sub, ast.Mult)):
                _shape_eq(self, st, A.shape[1], Bv.shape[0])
                return _lam(self, st, A.shape, "real",
                            lambda idx: toz(self.binop(op, self.select(A, idx), self.select(Bv, [idx[1]]), st)))
            r = orig_arr_binop(self, op, a, b, st)
            return _lamify_last(self, st, r) if isinstance(r, Ref) else r
        return orig_arr_binop(self, op, a, b, st)
    Engine.arr_binop = arr_binop

    orig_binop = Engine.binop

    def binop(self, op, a, b, st, node=None):
        if _on(self) and _is_arr(a) and isinstance(b, tuple):
            return self.arr_binop(op, a, b, st)
        return orig_binop(self, op, a, b, st, node)
    Engine.binop = binop

    orig_unary = Engine.ev_UnaryOp

    def ev_UnaryOp(self, node, st):
        if _on(self) and isinstance(node.op, ast.USub):
            v, undo = _peek(self, node.operand, st)
            if _is_arr(v):                                                    # V6
                return self.arr_binop(ast.Sub(), 0, v, st)
            undo()
        return orig_unary(self, node, st)
    Engine.ev_UnaryOp = ev_UnaryOp

    orig_attr = Engine.ev_Attribute

    def ev_Attribute(self, node, st):
        if _on(self) and node.attr == "T":
            v, undo = _peek(self, node.value, st)
            if _is_arr(v) and self.deref(v, st).rank == 2:                    # V9
                A = self.deref(v, st)
                return _lam(self, st, (A.shape[1], A.shape[0]), A.elem, lambda idx: self.select(A, [idx[1], idx[0]]))
            undo()
        return orig_attr(self, node, st)
    Engine.ev_Attribute = ev_Attribute

    orig_math = verify.math_axioms

    def math_axioms():
        d = dict(orig_math())
        a, b, c = z3.Real("a!f"), z3.Real("b!f"), z3.Real("c!f")
        t1 = F_SIN(a) * F_SIN(a) + F_COS(a) * F_COS(a) == 1
        d["trig17"] = [
            z3.ForAll([a], t1, patterns=[F_SIN(a), F_COS(a)]),
            z3.ForAll([a, b, c], z3.Implies(c == a - b, F_SIN(c) == F_SIN(a) * F_COS(b) - F_COS(a) * F_SIN(b)),
                      patterns=[z3.MultiPattern(F_SIN(c), F_SIN(a), F_SIN(b))]),
            z3.ForAll([a, b, c], z3.Implies(c == a - b, F_COS(c) == F_COS(a) * F_COS(b) + F_SIN(a) * F_SIN(b)),
                      patterns=[z3.MultiPattern(F_COS(c), F_COS(a), F_COS(b))]),
        ]
        return d
    verify.math_axioms = math_axioms


def _selfcheck():
    """numeric validation of T1, T2 on a grid of angles (the executable twin of the assumed facts)"""
    vals = [k * 0.37 - 7.0 for k in range(40)] + [0.0, math.pi, -math.pi / 2, 1e-9, 100.0]
    for a in vals:
        assert abs(math.sin(a) ** 2 + math.cos(a) ** 2 - 1) < 1e-12
        for b in vals:
            c = a - b
            assert abs(math.sin(c) - (math.sin(a) * math.cos(b) - math.cos(a) * math.sin(b))) < 1e-9
            assert abs(math.cos(c) - (math.cos(a) * math.cos(b) + math.sin(a) * math.sin(b))) < 1e-9
    return True
