"""Engine extensions used by contracts/c07_regularization.py.

(1) fused element-wise facts (derived, not trusted).  The engine defines every element-wise array expression by one
    quantified fact per operator: for `(a * s + b * (1.0 - s)) ** 2.0` it introduces e1..e5 with
    `forall v: e5[v] == e4[v] * e4[v]`, `forall v: e4[v] == e1[v] + e3[v]`, ...   z3 then has to rediscover the polynomial
    identity `e5[v] == (a*s[v] + b*(1 - s[v]))^2` through its incomplete non-linear solver, which it fails to do.
    For the contracts listed in FUSE this wrapper ADDS, next to the engine's own fact, the same fact with the
    definitions of the operand arrays substituted in (`forall v: e5[v] == (a*s[v] + b*(1 - s[v])) * (...)`).  The added
    formula is a logical consequence of the facts already present (substitution of equals under the same bound
    variable), so nothing is assumed that the engine did not assume already.  Rank-1 operands only.

(2) `np.shape(a)` of an ndarray: its shape tuple (identical to `a.shape`).
"""
from __future__ import annotations
import z3

from pyvc import calls, engine
from pyvc.engine import Arr, Ref, I

FUSE = set()      # contract keys that opt in to (1)

if not getattr(engine.Engine, "_c07_fuse", False):
    _orig_arr_binop = engine.Engine.arr_binop

    def _arr_binop(self, op, a, b, st):
        n0 = len(st.pc)
        res = _orig_arr_binop(self, op, a, b, st)
        if self.c.key not in FUSE or not isinstance(res, Ref):
            return res
        out = st.heap[res.id]
        if out.rank != 1 or len(st.pc) != n0 + 1 or not z3.is_quantifier(st.pc[-1]):
            return res
        q = st.pc[-1]
        body = q.body()
        if not (q.num_vars() == 1 and z3.is_eq(body)):
            return res
        defs = getattr(self, "_c07_defs", None)
        if defs is None:
            defs = self._c07_defs = {}
        v = self.fresh("v", I)
        lhs, rhs = z3.substitute_vars(body.arg(0), v), z3.substitute_vars(body.arg(1), v)
        if not lhs.eq(z3.Select(out.data, v)):
            return res
        subs = [(z3.Select(arr, v), d(v)) for arr, d in defs.values()]
        fused = z3.substitute(rhs, *subs) if subs else rhs
        if not fused.eq(rhs):
            st.pc.append(z3.ForAll([v], z3.Select(out.data, v) == fused, patterns=[z3.Select(out.data, v)]))
        defs[out.data.get_id()] = (out.data, (lambda f, w: (lambda x: z3.substitute(f, (w, x))))(fused, v))
        return res

    engine.Engine.arr_binop = _arr_binop
    engine.Engine._c07_fuse = True


def _np_shape(E, node, st):
    v = E.ev(node.args[0], st)
    return tuple(E.deref(v, st).shape)


calls.NP_EXT.setdefault("np.shape", _np_shape)
