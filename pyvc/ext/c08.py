"""Engine extensions used by contracts/c08_fit.py  (autoarray/fit/fit_util.py: vectorised numpy on plain ndarrays).

Everything listed under TRUSTED is part of the trusted base; everything under DERIVED is emitted as proof obligations.

READING THE SOURCE (TRUSTED)
(R-a) keyword-only parameters.  `def f(*, a, b)` (module autoarray.fit.fit_util only) is read as `def f(a, b)`: the body
      sees the same bindings.  A call that passes such a parameter positionally is rejected (OutsideSubset).
(R-b) the decorator `fit_util.to_new_array` is dropped.  Its wrapper is
          result = func(**kwargs)
          try:    return list(kwargs.values())[0].with_new_array(result)
          except AttributeError: return result
      so for a first argument without a `with_new_array` attribute -- every plain numpy.ndarray -- it returns `result`
      unchanged.  The contracts therefore describe the PLAIN-NDARRAY behaviour (engine C runs the real, decorated
      functions on ndarrays, so this reading is exercised at run time).
(R-c) `npw` (`from autoarray.numpy_wrapper import numpy as npw`) is read as `np`: with USE_JAX unset and ndarray
      arguments `npw.f(*args)` unwraps nothing and returns `np.f(*args)` unchanged.

NUMPY PRIMITIVES (TRUSTED) -- arrays of rank 1..3, no broadcasting between arrays (equal shapes are obligations)
(P1) np.zeros_like(a)                 a fresh real array of a's shape, every element 0.
(P2) np.log(a) for an array a         a fresh array e with   forall idx in range: e[idx] == log(a[idx])     (log uninterpreted)
(P3) uf(x1, x2, out=o, where=w), uf in {np.subtract, np.add, np.multiply, np.divide}; `where` optional (default: everywhere)
      o is updated in place and returned:   forall idx in range: o'[idx] == (x1[idx] uf x2[idx]  if w[idx] else  o[idx])
      np.divide emits the obligation        forall idx in range: w[idx] -> x2[idx] != 0      (division only where selected)
      `w` is an element-wise boolean expression (e.g. `np.asarray(mask) == 0`), read point-wise: w[idx] is the expression
      with every array leaf X replaced by X[idx] (np.asarray / np.array of an array are the identity here).
      Without `out=`/`where=` these ufuncs are the engine's own element-wise operators.
(P4) np.sum over a boolean selection:  np.sum(f(X1[s], ..., Xn[s]))  where s is an element-wise boolean expression over
      rank-2 arrays, X1..Xn are element-wise expressions over rank-2 arrays of the same shape and f is built from
      + - * / ** np.log np.square np.subtract np.add np.multiply np.divide and scalars:
          result == c08_sum2(D, H, 0)       with  D[i, j] == (f(X1[i, j], ..., Xn[i, j]) if s[i, j] else 0),   (H, W) = shape
      i.e. the sum over the selected positions (c08_sum2 = row-major partial sums, contracts/c08_fit.py).  Rationale:
      X[s] lists the selected elements in row-major order, element-wise operations act position by position on such
      lists when the selector is the same, and (R1) a finite sum of reals does not depend on the order.
      Every division inside f emits   forall i, j in range: s[i, j] -> denominator(i, j) != 0.
      D is the ghost array `arr2(H, W, lambda i, j: (f(..) if s[i, j] else 0))` of the contract DSL (same symbol when the
      contract writes the same expression); H, W are the shape terms of the first array leaf of s.

DERIVED (proved, not trusted)
(D1) np.sum(e) for a rank-1 element-wise expression e (or a rank-1 array), functions of autoarray.fit.fit_util only: the
      engine's own reading is kept (result = asum(len), the partial-sum function of the evaluated array) and the LEMMA
          forall 0 <= n <= len:  asum(n) == c08_sum1(D, n),     D = arr1(len, lambda k: e point-wise at k)  (or e itself if e is a name)
      is emitted as obligations `lemma:c08.npsum@line/base|step` (hypotheses: the defining facts of the temporaries) and is
      available to the client proof only after both are discharged (same mechanism as pyvc/ext/c09.py).  In the point-wise
      reading `X.real` / `X.imag` of a complex array leaf are creal(X[k]) / cimag(X[k]).
(D2) fused definitions.  Next to the defining facts of the temporaries (one quantified fact per operator) the lemma
      hypotheses contain their composition `forall v: guards(v) -> e[v] == rhs(v)` obtained by substituting each temporary's
      right-hand side for the temporary under the same bound variable -- a purely syntactic consequence of those facts
      (function `_fuse`); it spares z3 the non-linear step x == n*n |- 2*pi*x == 2*pi*n*n.  Nothing is added to the
      client's path condition.

DISPATCH.  np.subtract / np.add / np.sum are also registered by other extension modules that are loaded later (their
NP_EXT entries win).  The out=/where= forms (P3) and the boolean-selection sum (P4) are therefore recognised in a wrapper
around calls.np_call, in front of the NP_EXT dispatch, for every contract (all other handlers ignore or reject these
forms); everything else is dispatched as before.
"""
from __future__ import annotations
import ast, copy
import z3

from pyvc import calls, source, engine
from pyvc.engine import (Engine, Ref, Arr, NpV, State, OutsideSubset, Maybe, I, toz, to_real, arr_sort, UF_MATH,
                         is_z3, sort_kind)

# ------------------------------------------------------------------------------------------- (R-a) (R-b) (R-c)
_KWONLY_MODULES = {"autoarray.fit.fit_util"}

if "to_new_array" not in source.DROPPED_DECORATORS:
    source.DROPPED_DECORATORS = tuple(source.DROPPED_DECORATORS) + ("to_new_array",)

if not getattr(source, "_c08_kwonly", False):
    _orig_function = source.function
    _kw_cache = {}

    def _function(key):
        mi, fn = _orig_function(key)
        a = fn.args
        if key.split(":")[0] in _KWONLY_MODULES and a.kwonlyargs and not (a.args or a.posonlyargs or a.vararg or a.kwarg) \
                and all(d is None for d in a.kw_defaults):
            if id(fn) not in _kw_cache:
                fn2 = copy.copy(fn)
                a2 = copy.copy(a)
                a2.args, a2.kwonlyargs, a2.kw_defaults = list(a.kwonlyargs), [], []
                fn2.args = a2
                fn2._c08_kwonly = True
                _kw_cache[id(fn)] = (fn, fn2)          # keep fn alive so that its id stays unique
            return mi, _kw_cache[id(fn)][1]
        return mi, fn

    source.function = _function
    source._c08_kwonly = True

    _orig_bind = calls.bind_args

    def _bind_args(fn, node, E, st, skip_self=False):
        if getattr(fn, "_c08_kwonly", False) and node.args:
            raise OutsideSubset("positional argument passed to the keyword-only function %s" % fn.name)
        return _orig_bind(fn, node, E, st, skip_self)

    calls.bind_args = _bind_args

if not getattr(Engine, "_c08_npw", False):
    _orig_ev_Name = Engine.ev_Name

    def _ev_Name(self, node, st):
        if node.id not in st.env and self.mi.resolve(node.id) == "autoarray.numpy_wrapper.numpy":
            return NpV("np")
        return _orig_ev_Name(self, node, st)

    Engine.ev_Name = _ev_Name
    Engine._c08_npw = True


# ------------------------------------------------------------------------------------------- point-wise reading of an expression
class _NotPointwise(Exception):
    pass


_UF2 = {"np.subtract": ast.Sub, "np.add": ast.Add, "np.multiply": ast.Mult, "np.divide": ast.Div, "np.true_divide": ast.Div}
_UF1 = ("np.log", "np.square")
_IDX = ("i__c08", "j__c08", "l__c08")


class _PW:
    """AST of the element at index (i, j, ..) of an element-wise expression over arrays of rank `rank`.
    sel_mode: array leaves are only allowed below a boolean selection X[s] (all selections must use the same s)."""

    def __init__(self, E, st, rank, sel_mode=False):
        self.E, self.st, self.rank, self.sel_mode = E, st, rank, sel_mode
        self.leaves, self.dens, self.sel, self.sel_leaves = [], [], None, []

    def idx(self):
        names = [ast.Name(id=n, ctx=ast.Load()) for n in _IDX[: self.rank]]
        return names[0] if self.rank == 1 else ast.Tuple(elts=names, ctx=ast.Load())

    def path(self, f):
        try:
            v = self.E.ev(f, State(dict(self.st.env), dict(self.st.heap), list(self.st.pc)))
        except OutsideSubset:
            raise _NotPointwise()
        return v.path if isinstance(v, NpV) else None

    def go(self, node, inside):
        if isinstance(node, ast.Constant) and isinstance(node.value, (int, float)) and not isinstance(node.value, bool):
            return node
        if isinstance(node, ast.Name):
            v = self.st.env.get(node.id)
            if isinstance(v, (Ref, Arr)):
                arr = self.E.deref(v, self.st)
                if arr.rank != self.rank or arr.elem == "complex" or (self.sel_mode and not inside):
                    raise _NotPointwise()
                self.leaves.append(arr)
                return ast.Subscript(value=ast.Name(id=node.id, ctx=ast.Load()), slice=self.idx(), ctx=ast.Load())
            if (is_z3(v) or isinstance(v, int) or hasattr(v, "numerator")) and not isinstance(v, bool):
                return node
            raise _NotPointwise()
        if isinstance(node, ast.Attribute):
            if node.attr == "pi" and self.path(node.value) == "np":
                return node
            if node.attr in ("real", "imag") and isinstance(node.value, ast.Name):
                # real / imaginary part of a complex array leaf: creal(X[k]) / cimag(X[k]) of the DSL
                v = self.st.env.get(node.value.id)
                if isinstance(v, (Ref, Arr)):
                    arr = self.E.deref(v, self.st)
                    if arr.elem == "complex" and arr.rank == self.rank and not (self.sel_mode and not inside):
                        self.leaves.append(arr)
                        el = ast.Subscript(value=ast.Name(id=node.value.id, ctx=ast.Load()), slice=self.idx(), ctx=ast.Load())
                        return ast.Call(func=ast.Name(id="creal" if node.attr == "real" else "cimag", ctx=ast.Load()), args=[el], keywords=[])
            raise _NotPointwise()
        if isinstance(node, ast.BinOp) and isinstance(node.op, (ast.Add, ast.Sub, ast.Mult, ast.Div, ast.Pow)):
            l, r = self.go(node.left, inside), self.go(node.right, inside)
            if isinstance(node.op, ast.Div):
                self.dens.append(r)
            return ast.BinOp(left=l, op=node.op, right=r)
        if isinstance(node, ast.UnaryOp) and isinstance(node.op, (ast.USub, ast.UAdd)):
            return ast.UnaryOp(op=node.op, operand=self.go(node.operand, inside))
        if isinstance(node, ast.Compare) and len(node.ops) == 1:
            return ast.Compare(left=self.go(node.left, inside), ops=list(node.ops), comparators=[self.go(node.comparators[0], inside)])
        if isinstance(node, ast.Call) and not node.keywords:
            p = self.path(node.func)
            if p in ("np.asarray", "np.array") and len(node.args) == 1:
                return self.go(node.args[0], inside)
            if p in _UF2 and len(node.args) == 2:
                l, r = self.go(node.args[0], inside), self.go(node.args[1], inside)
                if _UF2[p] is ast.Div:
                    self.dens.append(r)
                return ast.BinOp(left=l, op=_UF2[p](), right=r)
            if p in _UF1 and len(node.args) == 1:
                return ast.Call(func=node.func, args=[self.go(node.args[0], inside)], keywords=[])
            raise _NotPointwise()
        if isinstance(node, ast.Subscript) and self.sel_mode and not inside:
            # boolean selection X[s]: s must itself be an element-wise boolean expression over arrays of this rank
            sub = _PW(self.E, self.st, self.rank)
            s = sub.go(node.slice, True)
            if not sub.leaves:
                raise _NotPointwise()
            if self.sel is None:
                self.sel, self.sel_leaves = s, sub.leaves
            elif ast.dump(s) != ast.dump(self.sel):
                raise _NotPointwise()
            return self.go(node.value, True)
        raise _NotPointwise()


def _bind_idx(E, st, rank):
    vs = [E.fresh(n.split("_")[0], I) for n in _IDX[:rank]]
    sub = State(dict(st.env), st.heap, st.pc)
    for n, v in zip(_IDX, vs):
        sub.env[n] = v
    return vs, sub


def _ev_spec(E, node, sub):
    node = ast.fix_missing_locations(ast.Expression(body=node)).body
    E.spec_mode += 1
    try:
        return E.ev(node, sub)
    finally:
        E.spec_mode -= 1


def _in_range(vs, shape):
    return z3.And([z3.And(v >= 0, v < toz(s)) for v, s in zip(vs, shape)])


def _shape_eq(E, st, arrs, shape, what):
    for a in arrs:
        for s, t in zip(a.shape, shape):
            if not toz(s).eq(toz(t)):
                E.emit("shape-eq:%s@%s" % (what, E.cur_line), st, toz(s) == toz(t), "shape")


def _derived(E, st, rank, shape, body_ast):
    """the ghost array arrK(shape, lambda idx: body) of the DSL (canonical: shared with a contract that writes the same)"""
    dims = ["d%d__c08" % k for k in range(rank)]
    sub = State(dict(st.env), st.heap, st.pc)
    for n, s in zip(dims, shape):
        sub.env[n] = s
    lam = ast.Lambda(args=ast.arguments(posonlyargs=[], args=[ast.arg(arg=n) for n in _IDX[:rank]], kwonlyargs=[],
                                        kw_defaults=[], defaults=[]), body=body_ast)
    call = ast.Call(func=ast.Name(id="arr%d" % rank, ctx=ast.Load()),
                    args=[ast.Name(id=n, ctx=ast.Load()) for n in dims] + [lam], keywords=[])
    call = ast.fix_missing_locations(ast.Expression(body=call)).body
    E.spec_mode += 1
    try:
        return calls.derived_array(E, "arr%d" % rank, call, sub)
    finally:
        E.spec_mode -= 1


# ------------------------------------------------------------------------------------------- (P1) (P2)
def _zeros_like(E, node, st):
    if len(node.args) != 1 or node.keywords:
        raise OutsideSubset("np.zeros_like form")
    a = E.deref(E.ev(node.args[0], st), st)
    if a.elem != "real":
        raise OutsideSubset("np.zeros_like of a non-real array")
    return calls.alloc(E, st, tuple(a.shape), "real", 0)


def _log(E, node, st):
    v = E.ev(node.args[0], st)
    E.math_used.add("log")
    if not isinstance(v, (Ref, Arr)):
        return UF_MATH["log"](to_real(v))
    a = E.deref(v, st)
    if a.elem not in ("real", "int"):
        raise OutsideSubset("np.log of a %s array" % a.elem)
    idx = [E.fresh("i", I) for _ in a.shape]
    out = Arr(E.fresh("log", arr_sort("real", a.rank)), a.shape, "real")
    sel = E.select(out, idx)
    st.pc.append(z3.ForAll(idx, z3.Implies(_in_range(idx, a.shape), sel == UF_MATH["log"](to_real(E.select(a, idx)))), patterns=[sel]))
    rid = next(E.ids)
    st.heap[rid] = out
    return Ref(rid)


# ------------------------------------------------------------------------------------------- (P3)
def _ufunc2(path):
    op = _UF2[path]

    def handler(E, node, st):
        kws = {k.arg: k.value for k in node.keywords}
        if len(node.args) != 2 or set(kws) - {"out", "where"}:
            raise OutsideSubset("%s form" % path)
        a = E.ev(node.args[0], st)
        b = E.ev(node.args[1], st)
        if "out" not in kws:
            if "where" in kws:
                raise OutsideSubset("%s with where= but without out=" % path)
            return E.binop(op(), a, b, st, node)
        out = E.ev(kws["out"], st)
        if not isinstance(out, Ref):
            raise OutsideSubset("out= is not a heap array")
        O = st.heap[out.id]
        if O.elem != "real":
            raise OutsideSubset("out= of element type " + O.elem)
        ops = [E.deref(x, st) if isinstance(x, (Ref, Arr)) else None for x in (a, b)]
        for x in ops:
            if x is not None and (x.rank != O.rank or x.elem == "complex"):
                raise OutsideSubset("%s: broadcasting / complex operands" % path)
        _shape_eq(E, st, [x for x in ops if x is not None], O.shape, path[3:])
        vs, sub = _bind_idx(E, st, O.rank)
        w = z3.BoolVal(True)
        if "where" in kws:
            try:
                pw = _PW(E, st, O.rank)
                wast = pw.go(kws["where"], True)
            except _NotPointwise:
                raise OutsideSubset("where= is not an element-wise boolean expression")
            _shape_eq(E, st, pw.leaves, O.shape, "where")
            w = toz(E.truth(_ev_spec(E, wast, sub)))
            if w.sort() != z3.BoolSort():
                raise OutsideSubset("where= is not boolean")
        ea = E.select(ops[0], vs) if ops[0] is not None else a
        eb = E.select(ops[1], vs) if ops[1] is not None else b
        rng = _in_range(vs, O.shape)
        E.spec_mode += 1
        try:
            e = to_real(E.binop(op(), ea, eb, st))
        finally:
            E.spec_mode -= 1
        if op is ast.Div:
            E.emit("div@%s" % E.cur_line, st, z3.ForAll(vs, z3.Implies(z3.And(rng, w), toz(to_real(eb)) != 0)), "div")
        new = Arr(E.fresh("uf", arr_sort("real", O.rank)), O.shape, "real")
        sel = E.select(new, vs)
        st.pc.append(z3.ForAll(vs, z3.Implies(rng, sel == z3.If(w, e, E.select(O, vs))), patterns=[sel]))
        st.heap[out.id] = new
        return out
    return handler


# ------------------------------------------------------------------------------------------- (P4) (D1)
def _fuse(E, defs, arr):
    """the defining facts of element-wise temporaries (`forall v: [guard(v) ->] t[v] == rhs(v)`, one per operator) composed
    into ONE fact about `arr`:  forall v: guards(v) -> arr[v] == rhs(v) with every temporary t[v] replaced by its own
    right-hand side.  A purely syntactic consequence of `defs` (substitution of equals under the same bound variable,
    under the conjunction of the guards of the facts used); it spares z3 the non-linear step  x == n*n |- 2*pi*x == 2*pi*n*n."""
    v = E.fresh("v", I)
    table = []
    for q in defs:
        if not (z3.is_quantifier(q) and q.is_forall() and q.num_vars() == 1):
            continue
        body, guard = z3.substitute_vars(q.body(), v), None
        if z3.is_implies(body):
            guard, body = body.arg(0), body.arg(1)
        if not z3.is_eq(body):
            continue
        lhs, rhs = body.arg(0), body.arg(1)
        if z3.is_select(lhs) and lhs.arg(1).eq(v) and z3.is_const(lhs.arg(0)):
            table.append((lhs, guard, rhs))
    mine = [t for t in table if t[0].arg(0).eq(arr.data)]
    if not mine:
        return None
    lhs, guard, rhs = mine[0]
    guards = [guard] if guard is not None else []
    for _ in range(len(table) + 1):
        changed = False
        for (l2, g2, r2) in table:
            if l2.eq(lhs):
                continue
            new = z3.substitute(rhs, (l2, r2))
            if not new.eq(rhs):
                rhs, changed = new, True
                if g2 is not None:
                    guards.append(g2)
        if not changed:
            break
    return z3.ForAll([v], z3.Implies(z3.And(guards) if guards else z3.BoolVal(True), lhs == rhs), patterns=[lhs])


def _np_sum(E, node, st, only_selection=False):
    """returns None when the call is not one of the recognised forms (the caller then dispatches as usual)"""
    from pyvc.contract import SPECS
    if "c08_sum1" not in SPECS or "c08_sum2" not in SPECS:
        return None
    a0 = node.args[0]
    # ---- (P4) sum over a boolean selection of rank-2 arrays
    try:
        pw = _PW(E, st, 2, sel_mode=True)
        body = pw.go(a0, False)
        if pw.sel is None:
            raise _NotPointwise()
    except _NotPointwise:
        pw = None
    if pw is not None:
        shape = pw.sel_leaves[0].shape
        _shape_eq(E, st, pw.sel_leaves[1:] + pw.leaves, shape, "selection")
        vs, sub = _bind_idx(E, st, 2)
        s = toz(E.truth(_ev_spec(E, pw.sel, sub)))
        if s.sort() != z3.BoolSort():
            raise OutsideSubset("selector is not boolean")
        rng = _in_range(vs, shape)
        for d in pw.dens:
            dz = to_real(_ev_spec(E, d, sub))
            E.emit("div@%s" % E.cur_line, st, z3.ForAll(vs, z3.Implies(z3.And(rng, s), toz(dz) != 0)), "div")
        D = _derived(E, st, 2, shape, ast.IfExp(test=pw.sel, body=body, orelse=ast.Constant(value=0)))
        if D.elem != "real":
            raise OutsideSubset("selected sum of a non-real expression")
        return E.spec_apply("c08_sum2", [D, shape[0], 0], st)
    if only_selection:
        return None
    # ---- (D1) rank-1 element-wise expression: engine reading + proved link to c08_sum1
    try:
        pw = _PW(E, st, 1)
        body = pw.go(a0, True)
        if not pw.leaves:
            raise _NotPointwise()
    except _NotPointwise:
        return None
    n0 = len(st.pc)
    arr = E.deref(E.ev(a0, st), st)
    defs = list(st.pc[n0:])
    res = calls.np_sum(E, arr, st)                # the engine's reading, unchanged
    key = ("npsum", arr.data.get_id())
    if arr.rank != 1 or arr.elem != "real" or key not in E.spec_inst:
        return res
    D = arr if isinstance(a0, ast.Name) else _derived(E, st, 1, arr.shape, body)
    if D.elem != "real":
        return res
    fused = _fuse(E, defs, arr)
    if fused is not None:
        defs = defs + [fused]
    asum = E.sum_inst[key][0]
    n = E.fresh("n", I)
    ln = toz(arr.shape[0])
    P = lambda m: asum(m) == E.spec_apply("c08_sum1", [D, m], st)
    name = "c08.npsum@%s" % E.cur_line
    if not any(l["name"] == name for l in E.spec_inst[key]["lemmas"]):
        E.spec_inst[key]["lemmas"].append({
            "name": name,
            "parts": [("base", defs, P(z3.IntVal(0))), ("step", defs + [n >= 0, n < ln, P(n)], P(n + 1))],
            "stmt": z3.ForAll([n], z3.Implies(z3.And(n >= 0, n <= ln), P(n)), patterns=[asum(n)]),
            "hints": [], "export": True, "spec": "asum"})
    return res


calls.NP_EXT["np.zeros_like"] = _zeros_like
calls.NP_EXT["np.log"] = _log

# np.subtract / np.add / np.sum are also registered by other extension modules (loaded later, so their entries win in
# NP_EXT).  The forms below are recognised in front of the NP_EXT dispatch instead:
#   * a binary ufunc called with out= / where=   (any contract: every other handler ignores or rejects these keywords)
#   * np.sum over a boolean selection (P4)        (any contract: no other handler reads a boolean selection)
#   * np.sum of a rank-1 element-wise expression (D1): only for the functions of autoarray.fit.fit_util
SUM1_PREFIX = "autoarray.fit.fit_util:"

if not getattr(calls, "_c08_np_call", False):
    _orig_np_call = calls.np_call
    _uf_handlers = {p: _ufunc2(p) for p in _UF2}

    def _np_call(E, path, node, st):
        if path in _uf_handlers and any(k.arg in ("out", "where") for k in node.keywords):
            return _uf_handlers[path](E, node, st)
        if path == "np.sum" and len(node.args) == 1 and not node.keywords:
            r = _np_sum(E, node, st, only_selection=not E.c.key.startswith(SUM1_PREFIX))
            if r is not None:
                return r
        return _orig_np_call(E, path, node, st)

    calls.np_call = _np_call
    calls._c08_np_call = True
