"""Engine extension used by contracts/c01_c02_more1d.py (opt-in per contract key: `c01b.ENABLED.add(key)`).

np.full(shape, c) / np.full(fill_value=c, shape=shape)  with a LITERAL boolean fill c and a shape of rank 1 or 2.

The engine's own reading (pyvc/calls.py) is: a fresh array whose contents are the constant array K(c).  For the enabled
contracts this module reads the same call as

    a fresh array object `out` of the given shape (obligation `alloc@line`: every dimension >= 0, as in the engine) whose
    contents are the ghost array of the contract DSL   arr1(n, lambda a: c)   /   arr2(h, w, lambda a, b: c),

i.e. with the single ASSUMED fact (the defining axiom of that ghost array, pyvc/calls.py:derived_array)

    (F1)   for all indices inside the shape:   out[idx] == c            (nothing is said about positions outside the shape)

F1 is implied by the engine's reading (K(c) satisfies it; R5: np.full returns a fresh array filled with its fill value), so
nothing new is trusted.  What the re-reading buys: the mask built by `np.full(fill_value=False, shape=...)` inside a
one-line function is now the SAME array symbol as `arr2(H, W, lambda a, b: False)` written in the contract, so ghost lemmas
about it (`ghost_at`, proved by induction as ordinary obligations: rank of pixel (y, x) in an all-unmasked mask is y*W + x)
and the callee's postconditions speak about one and the same rank function instance.  Every other form of np.full, and
every contract that has not opted in, is dispatched to the engine's own handler unchanged.
"""
from __future__ import annotations
import ast

from pyvc import calls
from pyvc.engine import Ref, Arr, State, to_int_strict, num_of_bool

ENABLED = set()          # contract keys (top-level function under verification) for which the re-reading is active


def _builtin(E, node, st):
    saved = calls.NP_EXT.pop("np.full")
    try:
        return calls.np_call(E, "np.full", node, st)
    finally:
        calls.NP_EXT["np.full"] = saved


def _np_full(E, node, st, prev):
    core = prev if prev is not None else _builtin
    fill = calls.get_arg(node, 1, "fill_value")
    shp = calls.get_arg(node, 0, "shape")
    if (getattr(E.c, "key", None) not in ENABLED or shp is None or not isinstance(fill, ast.Constant)
            or not isinstance(fill.value, bool)):
        return core(E, node, st)
    shape = E.ev(shp, st)
    if not isinstance(shape, tuple):
        shape = (shape,)
    if len(shape) not in (1, 2):
        return core(E, node, st)
    dims = []
    for s in shape:
        s = to_int_strict(num_of_bool(s))
        E.emit("alloc@%s" % E.cur_line, st, s >= 0, "alloc")
        dims.append(s)
    env = {"d__c01b%d" % i: d for i, d in enumerate(dims)}
    src = "arr%d(%s, lambda %s: %s)" % (len(dims), ", ".join(sorted(env)), ", ".join(["a", "b"][:len(dims)]), fill.value)
    E.spec_mode += 1
    try:
        ghost = E.ev(ast.parse(src, mode="eval").body, State(env, st.heap, st.pc))
    finally:
        E.spec_mode -= 1
    rid = next(E.ids)
    st.heap[rid] = Arr(ghost.data, dims, "bool")
    return Ref(rid)


def install():
    """(re)install the np.full handler on top of whatever is registered now (forms it does not recognise, and contracts that
    have not opted in, go to the previously registered handler or the engine's own).  Idempotent; contracts/c01_c02_more1d.py
    calls it after every extension module has been imported."""
    prev = calls.NP_EXT.get("np.full")
    if getattr(prev, "_c01b", False):
        return

    def h(E, node, st):
        return _np_full(E, node, st, prev)
    h._c01b = True
    calls.NP_EXT["np.full"] = h


install()
