"""Engine extension used by contracts/c01_more.py (part of the trusted base -- keep minimal).

np.stack((p_0, ..., p_{n-1}), axis=-1)   with n >= 1 statically known parts of the same rank r (1 or 2) and the same
element type.  numpy raises unless all parts have the same shape: obligation `stack-shape@line` (one per part > 0 and
dimension).  The result is a FRESH array `out` of rank r + 1 and shape  p_0.shape + (n,)  with the single defining fact

        for every c < n:    forall idx (r integers):   out[idx..., c] == p_c[idx...]

(nothing else is said about `out`).  Any other axis is refused (OutsideSubset).
"""
from __future__ import annotations
import ast
import z3

from pyvc import calls
from pyvc.engine import Ref, Arr, OutsideSubset, I, toz, arr_sort


def _np_stack(E, node, st):
    seq = calls.get_arg(node, 0, "arrays")
    if not isinstance(seq, (ast.Tuple, ast.List)) or not seq.elts:
        raise OutsideSubset("np.stack of a non-literal sequence")
    ax = calls.get_arg(node, 1, "axis")
    parts = []
    for e in seq.elts:
        v = E.ev(e, st)
        if not isinstance(v, (Ref, Arr)):
            raise OutsideSubset("np.stack of non-arrays")
        a = E.deref(v, st)
        parts.append(Arr(a.data, a.shape, a.elem))
    r = parts[0].rank
    axis = E.ev(ax, st) if ax is not None else 0
    if not (isinstance(axis, int) and not isinstance(axis, bool) and axis in (-1, r)):
        raise OutsideSubset("np.stack: only axis=-1 is supported")
    if r not in (1, 2) or any(p.rank != r or p.elem != parts[0].elem for p in parts):
        raise OutsideSubset("np.stack: parts must share rank (1 or 2) and element type")
    for c, p in enumerate(parts[1:], 1):
        for d in range(r):
            E.emit("stack-shape:%d.%d@%s" % (c, d, E.cur_line), st, toz(p.shape[d]) == toz(parts[0].shape[d]), "shape")
    elem = parts[0].elem
    out = Arr(E.fresh("stack", arr_sort(elem, r + 1)), list(parts[0].shape) + [z3.IntVal(len(parts))], elem)
    for c, p in enumerate(parts):
        idx = [E.fresh("i", I) for _ in range(r)]
        o, s = E.select(out, idx + [z3.IntVal(c)]), E.select(p, idx)
        st.pc.append(z3.ForAll(idx, o == s, patterns=[o, s]))
    rid = next(E.ids)
    st.heap[rid] = out
    return Ref(rid)


calls.NP_EXT["np.stack"] = _np_stack
