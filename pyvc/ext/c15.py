"""Engine extensions used by contracts/c15_preloads.py (part of the trusted base -- every fact below is ASSUMED).

Active ONLY while a contract whose key is in ENABLED is executed (`install()` is called by the contract module; every
patched entry point chains to the function that was registered before and behaves identically for all other contracts).

The methods under contract are (cached) properties of the Inversion classes.  `self` is modelled by the attributes the
method reads: a contract declares them as parameters `self.<attr>` (dotted paths allowed: `self.preloads.curvature_matrix`,
`self.settings.no_regularization_add_to_curvature_diag_value`).  What the proof ASSUMES about them is exactly what the
contract's `requires` say; at run time (engine C) the real Inversion object is built through the public API and every ghost
attribute value is compared with the real object's attribute BEFORE the method is evaluated (RT[key]["facts"]; a mismatch is
reported as a failed `attrs:` clause, like the `attrs` facts of contracts/c01_convert.py).

Engine A (symbolic reading)
 S1  decorators `cached_property`, `profile_func`, `property` are dropped: the method body is read as a function of `self`.
     (autoconf's cached_property stores the first result on the instance; profile_func only times the call when a
     run_time_dict is set.)  Consequence used by the contracts: a method is evaluated ONCE per Inversion object.
 S2  `self.a.b` with declared parameter `self.a.b`: the declared value (record lookup, no fact).
 S3  `self.has(cls=K)`: the declared boolean parameter `self.has_K`; `self.total(cls=K)`: the declared integer parameter
     `self.total_K` (ghost attributes; run time: compared with the real `inv.has(cls=K)` / `inv.total(cls=K)`).
 S4  `copy.copy(a)`, a an array: a NEW array with the contents of `a` (what ndarray.__copy__ does) -- same reading as the
     engine's own `a.copy()` / `np.array(a)`.
 S5  a SettingsInversion object is read as C04's contract of curvature_matrix_via_mapping_matrix_from reads it: the declared
     parameter `self.settings` is the one-element real array of the only field used; run time: settings[0] is compared with
     the real `inv.settings.no_regularization_add_to_curvature_diag_value`.
 S6  `block_diag(A)` (scipy.linalg) of ONE square real matrix A: a new array equal to A.  (block_diag of a single 2-D block
     returns a copy of the block.)  Only the literal call `block_diag(*[linear_obj.regularization_matrix for linear_obj in
     self.linear_obj_list])` is read: obligation `self.linear_obj_count == 1`; the block is the declared ghost attribute
     `self.regularization_matrix_list_0` (run time: len(inv.linear_obj_list) and inv.linear_obj_list[0].regularization_matrix).  -- only used by the `#afresh_one_object` variant of regularization_matrix.
 S10 `np.hstack(self.L)`, L a list-valued attribute: a NEW array with the contents of the declared ghost attribute
     `self.hstack_L` (run time: compared with np.hstack(inv.L) of the real object).
 S7  `a += b` for two real arrays of rank 2 (in place): obligation shape-eq; afterwards a[i, j] == old a[i, j] + b[i, j],
     same array object (the engine's own augmented assignment covers scalars and indexed elements only).
 S8  `del self.__dict__[<literal>]`: no effect on any array (it drops the cached value of a property from the instance;
     the arrays themselves stay alive through the local names).
 S9  `np.add(a, b)` for two real arrays of rank 2: a NEW array, obligation shape-eq, r[i, j] == a[i, j] + b[i, j].

Engine C (run-time reading)
 R1  rtc.real_function of a contract of this module (all are properties / cached properties) returns
     `lambda self: getattr(self, name)`: the method is evaluated the way client code evaluates it (through the descriptor, on a
     newly built Inversion object).
 R2  rtc.run_contract adds `self` (a namespace built from the `self.*` entries of the generated input) to the environment
     the DSL strings are evaluated in; the generated input itself (what replay files record) is unchanged.
"""
from __future__ import annotations
import ast
import z3

from pyvc import calls, engine, source, rtc
from pyvc.engine import Engine, Ref, Arr, I, OutsideSubset, arr_sort, toz
from pyvc.contract import CONTRACTS

ENABLED = set()
RT = {}                  # contract key -> {"build": callable(ns, case) -> real object, "facts": [(label, getter(obj), getter(ns))]}

if "cached_property" not in source.DROPPED_DECORATORS:
    source.DROPPED_DECORATORS = tuple(source.DROPPED_DECORATORS) + ("cached_property",)      # S1


def _on(E):
    return getattr(getattr(E, "c", None), "key", None) in ENABLED


def _is_arr(v):
    return isinstance(v, (Ref, Arr))


def _rooted_at_self(node):
    while isinstance(node, ast.Attribute):
        node = node.value
    return isinstance(node, ast.Name) and node.id == "self"


def _copy_of(E, st, v):
    a = E.deref(v, st)
    rid = next(E.ids)
    st.heap[rid] = Arr(a.data, a.shape, a.elem)
    return Ref(rid)


def _shape_eq(E, st, A, Bv):
    for s, t in zip(A.shape, Bv.shape):
        E.emit("shape-eq@%s" % E.cur_line, st, toz(s) == toz(t), "shape")


def _sum2(E, st, A, Bv):
    """fresh rank-2 array r with r[i, j] == A[i, j] + B[i, j]"""
    idx = [E.fresh("i", I), E.fresh("j", I)]
    out = Arr(E.fresh("add", arr_sort("real", 2)), tuple(A.shape), "real")
    st.pc.append(z3.ForAll(idx, E.select(out, idx) == E.select(A, idx) + E.select(Bv, idx), patterns=[E.select(out, idx)]))
    return out


# the only argument list of block_diag that is read (S6)
_BLOCKS = ast.parse("f(*[linear_obj.regularization_matrix for linear_obj in self.linear_obj_list])", mode="eval").body.args[0]


class NS:
    """run-time namespace: `self.a.b` of the DSL -> the generated value of key "self.a.b" """

    def __init__(self):
        pass

    @staticmethod
    def from_flat(kwargs):
        root = NS()
        for k, v in kwargs.items():
            if not k.startswith("self."):
                continue
            parts = k.split(".")[1:]
            cur = root
            for p in parts[:-1]:
                if not hasattr(cur, p):
                    setattr(cur, p, NS())
                cur = getattr(cur, p)
            setattr(cur, parts[-1], v)
        return root


class FactFalse(Exception):
    def __init__(self, label, got):
        Exception.__init__(self, label)
        self.label, self.got = label, got


_INSTALLED = False


def install():
    global _INSTALLED
    if _INSTALLED:
        return
    _INSTALLED = True

    # ------------------------------------------------------------------ engine A
    orig_attr = Engine.ev_Attribute

    def ev_Attribute(self, node, st):
        if _on(self) and _rooted_at_self(node):
            base = self.ev(node.value, st)
            at = node.attr
            if isinstance(base, dict) and at not in base:                                   # S2
                sub = {k[len(at) + 1:]: v for k, v in base.items() if k.startswith(at + ".")}
                if sub:
                    return sub
                raise OutsideSubset("attribute self...%s is not declared by the contract (line %s)" % (at, getattr(node, "lineno", "?")))
        return orig_attr(self, node, st)
    Engine.ev_Attribute = ev_Attribute

    orig_do_call = calls.do_call

    def do_call(E, node, st):
        if _on(E) and not E.spec_mode:
            f = node.func
            if isinstance(f, ast.Attribute) and isinstance(f.value, ast.Name):
                if f.value.id == "copy" and f.attr == "copy" and "copy" not in st.env and E.mi.resolve("copy") == "copy" \
                        and len(node.args) == 1 and not node.keywords:                      # S4
                    v = E.ev(node.args[0], st)
                    if _is_arr(v):
                        return _copy_of(E, st, v)
                    raise OutsideSubset("copy.copy of a non-array")
                if f.value.id == "self" and f.attr in ("has", "total") and not node.args and len(node.keywords) == 1 \
                        and node.keywords[0].arg == "cls" and isinstance(node.keywords[0].value, ast.Name):   # S3
                    rec = st.env.get("self")
                    nm = f.attr + "_" + node.keywords[0].value.id
                    if isinstance(rec, dict) and nm in rec:
                        return rec[nm]
                    raise OutsideSubset("self.%s(cls=%s) is not declared by the contract" % (f.attr, node.keywords[0].value.id))
                if f.value.id == "np" and f.attr == "hstack" and len(node.args) == 1 and not node.keywords \
                        and isinstance(node.args[0], ast.Attribute) and isinstance(node.args[0].value, ast.Name) \
                        and node.args[0].value.id == "self":                                # S10
                    rec = st.env.get("self")
                    nm = "hstack_" + node.args[0].attr
                    if isinstance(rec, dict) and nm in rec:
                        return _copy_of(E, st, rec[nm])
                    raise OutsideSubset("np.hstack(self.%s) is not declared by the contract" % node.args[0].attr)
                if f.value.id == "np" and f.attr == "add" and len(node.args) == 2 and not node.keywords:     # S9
                    a, b = E.ev(node.args[0], st), E.ev(node.args[1], st)
                    if _is_arr(a) and _is_arr(b):
                        A, Bv = E.deref(a, st), E.deref(b, st)
                        if A.rank == 2 and Bv.rank == 2 and A.elem == "real" and Bv.elem == "real":
                            _shape_eq(E, st, A, Bv)
                            rid = next(E.ids)
                            st.heap[rid] = _sum2(E, st, A, Bv)
                            return Ref(rid)
                    raise OutsideSubset("np.add of other than two real matrices")
            if isinstance(f, ast.Name) and f.id == "block_diag" and f.id not in st.env \
                    and E.mi.resolve("block_diag") == "scipy.linalg.block_diag":            # S6
                if len(node.args) == 1 and not node.keywords and ast.dump(node.args[0]) == ast.dump(_BLOCKS):
                    rec = st.env.get("self")
                    if isinstance(rec, dict) and "regularization_matrix_list_0" in rec and "linear_obj_count" in rec:
                        E.emit("block-diag:one-block@%s" % E.cur_line, st, toz(rec["linear_obj_count"]) == 1, "index")
                        return _copy_of(E, st, rec["regularization_matrix_list_0"])
                raise OutsideSubset("block_diag of a list of blocks")
        return orig_do_call(E, node, st)
    calls.do_call = do_call

    orig_apply = calls.apply_contract

    def apply_contract(E, c, bound, st, tag):
        if c.key in ENABLED and "self" not in bound and any(p.startswith("self.") for p in bound):
            # a contract of THIS module applied in a corollary: its let / requires / ensures read `self.a.b` (S2)
            bound = dict(bound)
            bound["self"] = {p[5:]: v for p, v in bound.items() if p.startswith("self.")}
        return orig_apply(E, c, bound, st, tag)
    calls.apply_contract = apply_contract

    orig_aug = Engine.st_AugAssign

    def st_AugAssign(self, s, st):
        if _on(self) and isinstance(s.op, ast.Add) and isinstance(s.target, ast.Name) and _is_arr(st.env.get(s.target.id)):   # S7
            a = st.env[s.target.id]
            b = self.ev(s.value, st)
            if isinstance(a, Ref) and _is_arr(b):
                A, Bv = self.deref(a, st), self.deref(b, st)
                if A.rank == 2 and Bv.rank == 2 and A.elem == "real" and Bv.elem == "real":
                    _shape_eq(self, st, A, Bv)
                    st.heap[a.id] = _sum2(self, st, A, Bv)
                    return st
            raise OutsideSubset("array += of other than two real matrices")
        return orig_aug(self, s, st)
    Engine.st_AugAssign = st_AugAssign

    def st_Delete(self, s, st):
        if _on(self) and len(s.targets) == 1:                                               # S8
            t = s.targets[0]
            if isinstance(t, ast.Subscript) and isinstance(t.value, ast.Attribute) and t.value.attr == "__dict__" \
                    and isinstance(t.value.value, ast.Name) and t.value.value.id == "self" \
                    and isinstance(t.slice, ast.Constant) and isinstance(t.slice.value, str):
                return st
        raise OutsideSubset("statement Delete at line %s" % s.lineno)
    if not hasattr(Engine, "st_Delete"):
        Engine.st_Delete = st_Delete

    # ------------------------------------------------------------------ engine C
    orig_real = rtc.real_function

    def real_function(key):
        if key in RT:                                                                       # R1
            rtc.import_repo()
            mod, qn = key.split("#")[0].split(":")
            cls_name, name = qn.split(".")
            import importlib
            cls = getattr(importlib.import_module(mod), cls_name)
            if not hasattr(cls, name):
                raise AttributeError("%s has no attribute %s" % (cls_name, name))
            return lambda self: getattr(self, name)
        return orig_real(key)
    rtc.real_function = real_function

    orig_run = rtc.run_contract

    def run_contract(c, kwargs):
        if c.key not in RT:
            return orig_run(c, kwargs)
        kw = dict(kwargs)
        kw["self"] = NS.from_flat(kwargs)                                                   # R2
        try:
            return orig_run(c, kw)
        except FactFalse as e:
            return rtc.Outcome("fail", "attrs:%s" % e.label, "assumed fact about the object is false", observed=repr(e.got)[:600])
    rtc.run_contract = run_contract


def rt_wrap_for(key):
    """the contract's rt_wrap: builds the real object from the generated case, checks every assumed fact on it"""
    def wrap(call_kwargs):
        spec = RT[key]
        ns = call_kwargs["self"]
        obj = spec["build"](ns, call_kwargs.get("case"))
        for label, real, ghost in spec["facts"]:
            try:
                got, want = real(obj), ghost(ns)
            except Exception as ex:
                raise FactFalse(label, "exception %r" % (ex,))
            if not rtc._eq(got, want):
                raise FactFalse(label, got)
        return {"self": obj}
    return wrap
