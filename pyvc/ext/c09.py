"""Engine extensions used by contracts/c09_oversampling.py.

(1) np.sum(<element-wise expression over 1-D arrays>), e.g. `np.sum(sub_size ** 2)`.
    The engine's own reading is kept unchanged (result = asum(len), asum the partial-sum function of the temporary
    array `ew` that `arr_binop` defines by `forall i: ew[i] == e(i)`).  In addition this handler states the LEMMA
        forall n >= 0:  asum(n) == sumto(n, lambda k: e(k))
    where the summand e(k) is obtained by rewriting the argument expression point-wise (`X` -> `X[k]` for every 1-D
    array name X).  The lemma is NOT trusted: its base and step are emitted as proof obligations
    (`lemma:npsum.pointwise@line/base|step`, hypotheses = exactly the defining facts of the temporaries) and it is made
    available to the client proof only after both are discharged -- the same mechanism the engine uses for its
    counting lemma on boolean arrays.  It lets a contract speak about `sumto(N, lambda k: sub_size[k] ** 2)`.

(2) block store of a scalar into a 2-D slice:  `a[y0:y1, x0:x1] = <scalar>`  (used by `oversample_mask_2d_from`).
    Semantics assumed (part of the trusted base): for slices lying inside the array (obligation `slice:` -- numpy
    would clamp, we require in-range like the engine does for slice reads) the new contents are
        a'[i, j] == (v if y0 <= i < y1 and x0 <= j < x1 else a[i, j])      for all i, j.
"""
from __future__ import annotations
import ast, copy
import z3

from pyvc import calls
from pyvc.engine import Engine, Ref, Arr, OutsideSubset, I, toz, to_int_strict, arr_sort, Maybe

# ------------------------------------------------------------------------------------------- (1) np.sum(elementwise)
_prev_np_sum = calls.NP_EXT.get("np.sum")


class _NotPointwise(Exception):
    pass


def _pointwise(E, node, st, kname):
    """AST of the k-th element of an element-wise expression built from 1-D array names, scalars and + - * / **"""
    if isinstance(node, ast.Constant) and isinstance(node.value, (int, float)) and not isinstance(node.value, bool):
        return node
    if isinstance(node, ast.Name):
        v = st.env.get(node.id)
        if isinstance(v, Maybe):
            raise _NotPointwise()
        if isinstance(v, Ref):
            if E.deref(v, st).rank != 1:
                raise _NotPointwise()
            return ast.Subscript(value=ast.Name(id=node.id, ctx=ast.Load()), slice=ast.Name(id=kname, ctx=ast.Load()), ctx=ast.Load())
        if z3.is_expr(v) or isinstance(v, (int,)) and not isinstance(v, bool):
            return node
        raise _NotPointwise()
    if isinstance(node, ast.BinOp) and isinstance(node.op, (ast.Add, ast.Sub, ast.Mult, ast.Div, ast.Pow)):
        return ast.BinOp(left=_pointwise(E, node.left, st, kname), op=node.op, right=_pointwise(E, node.right, st, kname))
    if isinstance(node, ast.UnaryOp) and isinstance(node.op, (ast.USub, ast.UAdd)):
        return ast.UnaryOp(op=node.op, operand=_pointwise(E, node.operand, st, kname))
    raise _NotPointwise()


def _np_sum(E, node, st):
    a0 = node.args[0] if node.args else None
    if not isinstance(a0, (ast.BinOp, ast.UnaryOp)) or len(node.args) != 1 or node.keywords:
        if _prev_np_sum is not None:
            return _prev_np_sum(E, node, st)
        return calls.np_sum(E, E.deref(E.ev(node.args[0], st), st), st)
    n0 = len(st.pc)
    v = E.ev(a0, st)
    arr = E.deref(v, st)
    defs = list(st.pc[n0:])                       # defining facts of the element-wise temporaries
    res = calls.np_sum(E, arr, st)                # the engine's reading, unchanged
    key = ("npsum", arr.data.get_id())
    if arr.rank != 1 or arr.elem not in ("int", "real") or key not in E.spec_inst:
        return res
    try:
        kname = "k__c09"
        body = ast.fix_missing_locations(ast.Expression(_pointwise(E, a0, st, kname))).body
    except _NotPointwise:
        return res
    lam = ast.Lambda(args=ast.arguments(posonlyargs=[], args=[ast.arg(arg=kname)], kwonlyargs=[], kw_defaults=[], defaults=[]),
                     body=body)
    ast.fix_missing_locations(lam)
    asum = E.sum_inst[key][0]
    E.spec_mode += 1
    try:
        S = lambda m: E.sumto(m, lam, st)
        n = E.fresh("n", I)
        P = lambda m: asum(m) == S(m)
        if S(n).sort() != asum(n).sort():
            return res
        lemma = {"name": "npsum.pointwise@%s" % E.cur_line,
                 "parts": [("base", defs, P(z3.IntVal(0))), ("step", defs + [n >= 0, P(n)], P(n + 1))],
                 "stmt": z3.ForAll([n], z3.Implies(n >= 0, P(n)), patterns=[asum(n)]),
                 "hints": [], "export": True, "spec": "asum"}
    except OutsideSubset:
        return res
    finally:
        E.spec_mode -= 1
    if not any(l["name"] == lemma["name"] for l in E.spec_inst[key]["lemmas"]):
        E.spec_inst[key]["lemmas"].append(lemma)
    return res


calls.NP_EXT["np.sum"] = _np_sum


# ------------------------------------------------------------------------------------------- (2) a[y0:y1, x0:x1] = scalar
_orig_assign = Engine.assign


def _block_store(E, t, v, st):
    if not (isinstance(t, ast.Subscript) and isinstance(t.slice, ast.Tuple) and len(t.slice.elts) == 2
            and all(isinstance(e, ast.Slice) for e in t.slice.elts) and isinstance(t.value, ast.Name)):
        return False
    if isinstance(v, (Ref, Arr, tuple)) or v is None:
        return False
    base = st.env.get(t.value.id)
    if not isinstance(base, Ref):
        return False
    arr = st.heap[base.id]
    if arr.rank != 2:
        return False
    bounds = []
    for d, sl in enumerate(t.slice.elts):
        if sl.step is not None or sl.lower is None or sl.upper is None:
            return False
        lo = to_int_strict(E.ev(sl.lower, st))
        hi = to_int_strict(E.ev(sl.upper, st))
        E.emit("slice:%s@%s" % (t.value.id, E.cur_line), st, z3.And(lo >= 0, hi <= toz(arr.shape[d])), "index")
        bounds.append((lo, hi))
    val = E.elem_coerce(v, arr.elem)
    i, j = E.fresh("i", I), E.fresh("j", I)
    new = Arr(E.fresh("blk", arr_sort(arr.elem, 2)), arr.shape, arr.elem)
    inside = z3.And(bounds[0][0] <= i, i < bounds[0][1], bounds[1][0] <= j, j < bounds[1][1])
    st.pc.append(z3.ForAll([i, j], E.select(new, [i, j]) == z3.If(inside, val, E.select(arr, [i, j])),
                           patterns=[E.select(new, [i, j])]))
    st.heap[base.id] = new
    return True


def _assign(self, t, v, st, checked=False):
    if isinstance(t, ast.Subscript) and _block_store(self, t, v, st):
        return
    return _orig_assign(self, t, v, st, checked)


if not getattr(Engine, "_c09_block_store", False):
    Engine.assign = _assign
    Engine._c09_block_store = True
