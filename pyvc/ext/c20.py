"""Engine extensions used by contracts/c20_triangles.py (part of the trusted base -- every fact below is ASSUMED).

Active ONLY while a contract whose key is in ENABLED is executed (`install()` is called by the contract module; every
handler chains to the handler that was registered before for all other contracts / argument kinds).

Vectorised numpy readings.  Each returns a FRESH array; the array is not an uninterpreted constant constrained by a
quantified definition but the z3 lambda term  idx -> e(idx)  (same meaning; technique and helpers `_lam`, `_lamify_last`,
`_peek` of pyvc/ext/cframes.py).  Arithmetic is the engine's scalar reading, floats are reals (R1).

 W1  A[s0, s1, ..] where every s is either the full slice `:` or an integer (at least one `:` before an integer, e.g.
     `t[:, 0]`, `t[:, 0, 1]`)                    obligation index: each integer within its axis;  r has the sliced axes (and the
                                                 unindexed trailing axes) of A in order,  r[free idx] == A[idx with the integers put in]
                                                 (numpy returns a VIEW; read as a snapshot -- exact here: no contract under ENABLED writes an array)
 W2  A (op) B, A (op) scalar, scalar (op) A      the engine's own element-wise reading (same rank, equal shapes as obligations,
                                                 element-wise `/`: obligation every divisor != 0), re-read as a lambda
 W3  np.abs(A), A a real/int array               r same shape,  r[idx] == |A[idx]|
 W4  A.sum(), A real of rank 1                   == sumto(len(A), lambda k: A[k])   (the engine's partial-sum function of the DSL,
                                                 S(0) == 0, S(k+1) == S(k) + A[k];  the summand is the beta-reduced element term, so it
                                                 shares the partial-sum function of a syntactically equal DSL summand)
 W5  x (cmp) A, A (cmp) x, A (cmp) B             cmp in < <= > >= == !=; x scalar; A, B real/int arrays of equal rank (equal shapes as
                                                 obligations):  r: bool array of the same shape,  r[idx] == (x cmp A[idx]) ...
 W6  A & B, A | B, A and B bool arrays           equal rank, equal shapes as obligations;  r[idx] == (A[idx] and B[idx]) / (A[idx] or B[idx])
 W7  np.stack([A_0 .. A_{m-1}], axis=1)          all A_j of the same rank r in {1, 2} and the same element type, equal shapes as obligations;
                                                 result of rank r+1 and shape (s0, m, s1..):  r[i, j, ..] == A_j[i, ..]
 W8  np.concatenate([A_0 .. A_{m-1}], axis=0)    all A_j of the same rank and element type, equal TRAILING shapes as obligations;
                                                 result shape (sum of lengths, trailing..):  r[i, ..] == A_j[i - (len A_0 + .. + len A_{j-1}), ..]
                                                 for the j whose block contains i  (blocks in list order)
 W9  o.attr, o a parameter read as a TUPLE       the value of the contract's `attrs["o.attr"]` (a DSL expression over the parameters,
                                                 e.g. "self.x": "self[0]"); ASSUMED here, re-checked on the real object by engine C
                                                 (pyvc/rtc.py compares getattr(real object, attr) with the expression at every run)
 W10 super().m(args) inside a method             the contract registered in SUPER[(contract key, "m")] = (callee key, view) applied to the
                                                 object `view` (a DSL expression over `self`: the fields of `self` the base class reads, e.g.
                                                 the Point (x, y) of a Square); the callee is the base-class method by Python's MRO for the
                                                 single-inheritance chain Circle/Square/Triangle -> Point; verified against that CONTRACT
                                                 (its precondition is an obligation), never the body
 W11 f(args), f a loop-free repo helper named in INLINE[contract key]
                                                 the helper's body is executed symbolically in place (the engine's own inlining, which it
                                                 applies to helpers without a contract) although the helper has a contract of its own: the caller
                                                 is then verified against the helper's CODE (at least as strong as against its contract), and
                                                 the helper's vectorised results stay lambda terms
 W12 ~A, A a bool array                          r same shape,  r[idx] == not A[idx]
 W13 v (op) M, M (op) v, op in + - *             v of rank 1 and length m, M of rank 2 and shape (n, m) (obligation shape-eq):
                                                 r[i, j] == v[j] (op) M[i, j]  resp.  M[i, j] (op) v[j]   (numpy broadcasting of a row vector);
     C (op) v, C of shape (n, 1)                 r of shape (n, len v),  r[i, j] == C[i, 0] (op) v[j]      (broadcasting of a column)
 W14 np.array([s_0 .. s_{m-1}]) of scalars       r: real[1] of length m,  r[i] == s_i   (integers are read as reals: exact, R1)
 W15 A[B] = s, A of rank 1, B bool of rank 1     obligation shape-eq (equal lengths);  afterwards A[i] == (s if B[i] else old A[i])
 W16 A[:, np.newaxis], A of rank 1               r of shape (len A, 1),  r[i, 0] == A[i]   (a view, read as a snapshot: A is not written afterwards)
 W17 a name bound to two different fresh arrays A / B of the same element type and (syntactically) the same shape on the two arms of
     an `if c:`                                   after the join it denotes the array  (A if c else B)  (the engine's own heap merge, applied to names)
 W18 NAME imported by `from m import NAME`, NAME a module-level constant of repo module m
                                                 the value of its defining expression in m (the engine's own reading of same-module constants)
 W19 self.m(args), self read as a tuple, (contract key, "m") in SELF_METHODS
                                                 the contract registered there (a method of the same class, same tuple reading of `self`) applied
                                                 to `self`; verified against that CONTRACT (its precondition is an obligation)
 W20 sumto / W4 inside ENABLED contracts          the summand is brought to z3's sum-of-monomials normal form (z3.simplify(som=True), equivalence
                                                 preserving) before the partial-sum function is looked up, so that summands equal as polynomials
                                                 (reordered / expanded by a refactoring) share one partial-sum function; no fact is added
Nothing else is assumed; in particular nothing about floating-point rounding (R1).
"""
from __future__ import annotations
import ast
import z3

from pyvc import calls, engine, source
from pyvc.engine import Engine, Ref, Arr, I, OutsideSubset, State, to_real, toz, to_int_strict
from pyvc.ext.cframes import _lam, _lamify_last, _peek

ENABLED = set()
SUPER = {}          # (contract key, method name) -> (contract key of the base-class method, DSL expression: `self` as the base class reads it)
SELF_METHODS = {}   # (contract key, method name) -> contract key of that method of the same class (W19)
INLINE = {}         # contract key -> names of loop-free repo helpers whose BODY is executed in place (W11)


def _on(E):
    return getattr(getattr(E, "c", None), "key", None) in ENABLED


def _is_arr(v):
    return isinstance(v, (Ref, Arr))


def _shape_eq(E, st, s, t):
    if isinstance(s, int) and isinstance(t, int):
        if s == t:
            return
    E.emit("shape-eq@%s" % E.cur_line, st, toz(s) == toz(t), "shape")


def _chain(path, mine):
    prev = calls.NP_EXT.get(path)

    def h(E, node, st):
        if _on(E):
            r = mine(E, node, st)
            if r is not NotImplemented:
                return r
        if prev is not None:
            return prev(E, node, st)
        calls.NP_EXT.pop(path)
        try:
            return calls.np_call(E, path, node, st)
        finally:
            calls.NP_EXT[path] = h
    calls.NP_EXT[path] = h


def _full(n):
    return isinstance(n, ast.Slice) and n.lower is None and n.upper is None and n.step is None


# W1
def _is_newaxis(n):
    return isinstance(n, ast.Attribute) and n.attr == "newaxis" and isinstance(n.value, ast.Name) and n.value.id == "np"


def _subscript(E, node, st):
    idx_nodes = E.index_list(node.slice)
    if len(idx_nodes) == 2 and _full(idx_nodes[0]) and _is_newaxis(idx_nodes[1]):                # W16
        base, undo = _peek(E, node.value, st)
        if _is_arr(base) and E.deref(base, st).rank == 1:
            a = E.deref(base, st)
            return _lam(E, st, (a.shape[0], 1), a.elem, lambda idx: E.select(a, [idx[0]]))
        undo()
        return NotImplemented
    if not any(_full(n) for n in idx_nodes) or not all(_full(n) or not isinstance(n, ast.Slice) for n in idx_nodes):
        return NotImplemented
    seen_slice, mixed = False, False
    for n in idx_nodes:
        if _full(n):
            seen_slice = True
        elif seen_slice:
            mixed = True
    if not mixed:
        return NotImplemented                      # leading integers then full slices: the engine's own row read
    base, undo = _peek(E, node.value, st)
    if not _is_arr(base):
        undo()
        return NotImplemented
    arr = E.deref(base, st)
    if len(idx_nodes) > arr.rank:
        raise OutsideSubset("too many indices")
    plan = []
    for k, n in enumerate(idx_nodes):
        if _full(n):
            plan.append(None)
        else:
            v = E.ev(n, st)
            if _is_arr(v) or isinstance(v, tuple):
                raise OutsideSubset("fancy index")
            plan.append(E.norm_index(v, arr.shape[k], st, engine._nm(node.value)))
    plan += [None] * (arr.rank - len(plan))
    shape = [arr.shape[k] for k, p in enumerate(plan) if p is None]

    def el(idx):
        it = iter(idx)
        return E.select(arr, [next(it) if p is None else p for p in plan])
    return _lam(E, st, shape, arr.elem, el)


# W3
def _np_abs(E, node, st):
    if len(node.args) != 1 or node.keywords:
        return NotImplemented
    v, undo = _peek(E, node.args[0], st)
    if not _is_arr(v):
        undo()
        return NotImplemented
    a = E.deref(v, st)
    if a.elem not in ("real", "int"):
        raise OutsideSubset("np.abs of a %s array" % a.elem)

    def el(idx):
        e = E.select(a, idx)
        return z3.If(e >= 0, e, -e)
    return _lam(E, st, a.shape, a.elem, el)


# W4
def _arr_sum(E, arr, st):
    if arr.rank != 1 or arr.elem != "real":
        raise OutsideSubset(".sum() of a rank-%d %s array" % (arr.rank, arr.elem))
    lam = ast.parse("lambda k__c20: a__c20[k__c20]", mode="eval").body
    sub = State(dict(st.env), st.heap, st.pc)
    sub.env["a__c20"] = arr
    E.spec_mode += 1
    try:
        return E.sumto(arr.shape[0], lam, sub)
    finally:
        E.spec_mode -= 1


# W5
_CMP = {ast.Lt: lambda a, b: a < b, ast.LtE: lambda a, b: a <= b, ast.Gt: lambda a, b: a > b, ast.GtE: lambda a, b: a >= b,
        ast.Eq: lambda a, b: a == b, ast.NotEq: lambda a, b: a != b}


def _arr_compare(E, st, op, a, b):
    if type(op) not in _CMP:
        raise OutsideSubset("array comparison %s" % type(op).__name__)
    A = E.deref(a, st) if _is_arr(a) else None
    Bv = E.deref(b, st) if _is_arr(b) else None
    for x in (A, Bv):
        if x is not None and x.elem not in ("real", "int"):
            raise OutsideSubset("comparison of a %s array" % x.elem)
    if A is not None and Bv is not None:
        if A.rank != Bv.rank:
            raise OutsideSubset("broadcasting between ranks")
        for s, t in zip(A.shape, Bv.shape):
            _shape_eq(E, st, s, t)
    shape = (A or Bv).shape

    def el(idx):
        ea = E.select(A, idx) if A is not None else engine.num_of_bool(a)
        eb = E.select(Bv, idx) if Bv is not None else engine.num_of_bool(b)
        return _CMP[type(op)](to_real(toz(ea)), to_real(toz(eb)))
    return _lam(E, st, shape, "bool", el)


# W14
def _np_array(E, node, st):
    if len(node.args) != 1 or node.keywords or not isinstance(node.args[0], (ast.List, ast.Tuple)):
        return NotImplemented
    v, undo = _peek(E, node.args[0], st)
    if not (isinstance(v, tuple) and v and all(engine.sort_kind(engine.num_of_bool(x)) in ("int", "real") for x in v)):
        undo()
        return NotImplemented
    data = z3.K(I, z3.RealVal(0))
    for i, x in enumerate(v):
        data = z3.Store(data, z3.IntVal(i), to_real(toz(engine.num_of_bool(x))))
    rid = next(E.ids)
    st.heap[rid] = Arr(data, (len(v),), "real")
    return Ref(rid)


# W7
def _np_stack(E, node, st):
    ax = calls.get_arg(node, 1, "axis")
    if not (len(node.args) >= 1 and isinstance(ax, ast.Constant) and ax.value == 1):
        return NotImplemented
    v = E.ev(node.args[0], st)
    if not (isinstance(v, tuple) and v and all(_is_arr(x) for x in v)):
        raise OutsideSubset("np.stack argument")
    arrs = [E.deref(x, st) for x in v]
    a0 = arrs[0]
    if a0.rank not in (1, 2) or any(a.rank != a0.rank or a.elem != a0.elem for a in arrs):
        raise OutsideSubset("np.stack of arrays of different rank / element type")
    for a in arrs[1:]:
        for s, t in zip(a0.shape, a.shape):
            _shape_eq(E, st, s, t)

    def el(idx):
        rest = [idx[0]] + list(idx[2:])
        e = E.select(arrs[-1], rest)
        for j in range(len(arrs) - 2, -1, -1):
            e = z3.If(idx[1] == j, E.select(arrs[j], rest), e)
        return e
    return _lam(E, st, (a0.shape[0], len(arrs)) + tuple(a0.shape[1:]), a0.elem, el)


# W8
def _np_concatenate(E, node, st):
    ax = calls.get_arg(node, 1, "axis")
    if not (len(node.args) >= 1 and (ax is None or (isinstance(ax, ast.Constant) and ax.value == 0))):
        return NotImplemented
    v = E.ev(node.args[0], st)
    if not (isinstance(v, tuple) and v and all(_is_arr(x) for x in v)):
        raise OutsideSubset("np.concatenate argument")
    arrs = [E.deref(x, st) for x in v]
    a0 = arrs[0]
    if any(a.rank != a0.rank or a.elem != a0.elem for a in arrs):
        raise OutsideSubset("np.concatenate of arrays of different rank / element type")
    for a in arrs[1:]:
        for s, t in zip(a0.shape[1:], a.shape[1:]):
            _shape_eq(E, st, s, t)
    offs = [z3.IntVal(0)]
    for a in arrs:
        offs.append(z3.simplify(offs[-1] + toz(a.shape[0])))

    def el(idx):
        e = E.select(arrs[-1], [idx[0] - offs[-2]] + list(idx[1:]))
        for j in range(len(arrs) - 2, -1, -1):
            e = z3.If(idx[0] < offs[j + 1], E.select(arrs[j], [idx[0] - offs[j]] + list(idx[1:])), e)
        return e
    return _lam(E, st, (offs[-1],) + tuple(a0.shape[1:]), a0.elem, el)


_INSTALLED = False


def install():
    global _INSTALLED
    if _INSTALLED:
        return
    _INSTALLED = True
    _chain("np.abs", _np_abs)
    _chain("np.array", _np_array)
    _chain("np.stack", _np_stack)
    _chain("np.concatenate", _np_concatenate)

    orig_sub = Engine.ev_Subscript

    def ev_Subscript(self, node, st):
        if _on(self):
            r = _subscript(self, node, st)
            if r is not NotImplemented:
                return r
        return orig_sub(self, node, st)
    Engine.ev_Subscript = ev_Subscript

    orig_arr_binop = Engine.arr_binop

    def arr_binop(self, op, a, b, st):
        if _on(self):
            if isinstance(op, (ast.BitAnd, ast.BitOr)):                                   # W6
                if not (_is_arr(a) and _is_arr(b)):
                    raise OutsideSubset("& / | of an array and a scalar")
                A, Bv = self.deref(a, st), self.deref(b, st)
                if A.elem != "bool" or Bv.elem != "bool" or A.rank != Bv.rank:
                    raise OutsideSubset("& / | of non-boolean arrays")
                for s, t in zip(A.shape, Bv.shape):
                    _shape_eq(self, st, s, t)
                f = z3.And if isinstance(op, ast.BitAnd) else z3.Or
                return _lam(self, st, A.shape, "bool", lambda idx: f(self.select(A, idx), self.select(Bv, idx)))
            if _is_arr(a) and _is_arr(b) and isinstance(op, (ast.Add, ast.Sub, ast.Mult)):     # W13
                A, Bv = self.deref(a, st), self.deref(b, st)
                if {A.rank, Bv.rank} == {1, 2}:
                    M, v, flip = (A, Bv, False) if A.rank == 2 else (Bv, A, True)
                    col = (isinstance(M.shape[1], int) and M.shape[1] == 1) or (z3.is_int_value(M.shape[1]) and M.shape[1].as_long() == 1)
                    if not col:
                        _shape_eq(self, st, M.shape[1], v.shape[0])

                    def el(idx):
                        em = self.select(M, [idx[0], z3.IntVal(0)] if col else idx)
                        ev_ = self.select(v, [idx[1]])
                        return toz(self.binop(op, ev_, em, st) if flip else self.binop(op, em, ev_, st))
                    elem = "real" if "real" in (M.elem, v.elem) else M.elem
                    return _lam(self, st, (M.shape[0], v.shape[0]), elem, el)
            r = orig_arr_binop(self, op, a, b, st)                                        # W2
            return _lamify_last(self, st, r) if isinstance(r, Ref) else r
        return orig_arr_binop(self, op, a, b, st)
    Engine.arr_binop = arr_binop

    orig_cmp = Engine.ev_Compare

    def ev_Compare(self, node, st):
        if _on(self) and len(node.ops) == 1:
            left, undo = _peek(self, node.left, st)
            right = self.ev(node.comparators[0], st)
            if _is_arr(left) or _is_arr(right):
                return _arr_compare(self, st, node.ops[0], left, right)                   # W5
            return self.compare(node.ops[0], left, right)
        return orig_cmp(self, node, st)
    Engine.ev_Compare = ev_Compare

    orig_call = Engine.ev_Call

    def ev_Call(self, node, st):
        if _on(self) and not self.spec_mode and isinstance(node.func, ast.Name) and node.func.id in INLINE.get(self.c.key, ()):   # W11
            fv = self.ev(node.func, st)
            if isinstance(fv, engine.FuncV):
                key = source.resolve_export(fv.key)
                mi, fn = source.function(key)
                return calls.inline_call(self, key, mi, fn, node, st)
        if _on(self) and not self.spec_mode and isinstance(node.func, ast.Attribute):
            f = node.func
            if f.attr == "sum" and not node.args and not node.keywords:                   # W4
                v, undo = _peek(self, f.value, st)
                if _is_arr(v):
                    return _arr_sum(self, self.deref(v, st), st)
                undo()
            if isinstance(f.value, ast.Name) and f.value.id == "self" and (self.c.key, f.attr) in SELF_METHODS \
                    and isinstance(st.env.get("self"), tuple):                            # W19
                return calls.repo_call(self, SELF_METHODS[(self.c.key, f.attr)], node, st, self_value=st.env["self"])
            if (isinstance(f.value, ast.Call) and isinstance(f.value.func, ast.Name) and f.value.func.id == "super"
                    and not f.value.args and (self.c.key, f.attr) in SUPER):             # W10
                callee, view = SUPER[(self.c.key, f.attr)]
                ent = self.entry if self.entry is not None else st
                return calls.repo_call(self, callee, node, st, self_value=self.evs(view, State(dict(ent.env), ent.heap, [])))
        return orig_call(self, node, st)
    Engine.ev_Call = ev_Call

    orig_unary = Engine.ev_UnaryOp

    def ev_UnaryOp(self, node, st):
        if _on(self) and isinstance(node.op, ast.Invert):                                 # W12
            v = self.ev(node.operand, st)
            if _is_arr(v) and self.deref(v, st).elem == "bool":
                A = self.deref(v, st)
                return _lam(self, st, A.shape, "bool", lambda idx: z3.Not(self.select(A, idx)))
            raise OutsideSubset("~ of a non-boolean-array value")
        return orig_unary(self, node, st)
    Engine.ev_UnaryOp = ev_UnaryOp

    orig_assign = Engine.assign

    def assign(self, t, v, st, checked=False):
        if _on(self) and isinstance(t, ast.Subscript) and not isinstance(t.slice, (ast.Tuple, ast.Slice)):
            ix, undo = _peek(self, t.slice, st)
            if _is_arr(ix) and self.deref(ix, st).elem == "bool":                          # W15
                Bm = self.deref(ix, st)
                base = self.ev(t.value, st)
                if not isinstance(base, Ref):
                    raise OutsideSubset("masked store into a non-heap array")
                A = self.deref(base, st)
                if A.rank != 1 or Bm.rank != 1 or _is_arr(v) or isinstance(v, tuple):
                    raise OutsideSubset("masked store: only rank-1 array, rank-1 mask, scalar value")
                _shape_eq(self, st, A.shape[0], Bm.shape[0])
                val = self.elem_coerce(v, A.elem)
                i = self.fresh("i", I)
                st.heap[base.id] = Arr(z3.Lambda([i], z3.If(z3.Select(Bm.data, i), toz(val), z3.Select(A.data, i))), A.shape, A.elem)
                return None
            undo()
        return orig_assign(self, t, v, st, checked)
    Engine.assign = assign

    orig_sumto = Engine.sumto

    def sumto(self, n, lam, st):
        if not _on(self):
            return orig_sumto(self, n, lam, st)
        plain = z3.simplify                                                               # W20
        z3.simplify = lambda t, *a, **k: plain(plain(t, som=True, **k))
        try:
            return orig_sumto(self, n, lam, st)
        finally:
            z3.simplify = plain
    Engine.sumto = sumto

    orig_name = Engine.ev_Name

    def ev_Name(self, node, st):
        if _on(self) and node.id not in st.env:                                           # W18
            tgt = self.mi.resolve(node.id)
            if tgt is not None and tgt != "numpy":
                mod, _, attr = tgt.rpartition(".")
                if mod and source.is_module(mod) and not source.is_module(tgt):
                    mi2 = source.module(mod)
                    if attr in mi2.constants:
                        return self.ev(mi2.constants[attr], State({}, {}, []))
        return orig_name(self, node, st)
    Engine.ev_Name = ev_Name

    orig_merge = Engine.merge

    def merge(self, c, r1, r2, base_len):
        if _on(self):                                                                     # W17
            for nm in set(r1.env) & set(r2.env):
                a, b = r1.env[nm], r2.env[nm]
                if isinstance(a, Ref) and isinstance(b, Ref) and a.id != b.id and a.id in r1.heap and b.id in r2.heap:
                    A, Bv = r1.heap[a.id], r2.heap[b.id]
                    same = A.elem == Bv.elem and A.rank == Bv.rank and all(
                        (s == t) if (isinstance(s, int) and isinstance(t, int)) else toz(s).eq(toz(t)) for s, t in zip(A.shape, Bv.shape))
                    if same:
                        rid = next(self.ids)
                        r1.heap[rid] = r2.heap[rid] = Arr(z3.If(c, A.data, Bv.data), A.shape, A.elem)
                        r1.env[nm] = r2.env[nm] = Ref(rid)
        return orig_merge(self, c, r1, r2, base_len)
    Engine.merge = merge

    orig_attr = Engine.ev_Attribute

    def ev_Attribute(self, node, st):
        if _on(self) and isinstance(node.value, ast.Name):                                # W9
            key = "%s.%s" % (node.value.id, node.attr)
            attrs = getattr(self.c, "attrs", None) or {}
            if key in attrs and isinstance(st.env.get(node.value.id), tuple):
                ent = self.entry if self.entry is not None else st
                return self.evs(attrs[key], State(dict(ent.env), ent.heap, []))
        return orig_attr(self, node, st)
    Engine.ev_Attribute = ev_Attribute
