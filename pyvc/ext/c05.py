"""Engine extensions used by contracts/c05_cholesky.py (part of the trusted base -- every fact marked ASSUMED is assumed).

A. Primitives of `autoarray/util/cholesky_funcs.py` the base engine does not read.

(A1) `a.size` of a rank-1 ndarray              == a.shape[0]                                   (ASSUMED: numpy's definition of
                                               ndarray.size as the product of the dimensions; rank 1 only, other ranks are
                                               left to the base engine, i.e. rejected).
(A2) `math.sqrt(v)` of a real / int scalar     obligation `sqrt-domain@line`:  v >= 0   (math.sqrt raises ValueError on a
                                               negative argument), value: the engine's own uninterpreted sqrt(v)
                                               (ASSUMED: math.sqrt and np.sqrt denote the same real function; the engine
                                               already reads np.sqrt / `** 0.5` that way).
                                               Only when the name `math` is the module-level `import math` of the function's
                                               module and is not shadowed by a local.

(A3) `np.insert(a, k, v, axis=0 | 1)`, a a 2-D real array, k an int scalar, v a real / int scalar, axis a literal:
                                               obligation `insert-index@line`:  0 <= k <= a.shape[axis]  (numpy raises
                                               IndexError beyond; a negative k, which numpy counts from the end, is rejected, R3)
                                               result: FRESH array r with a.shape[axis] + 1 entries along `axis` and (ASSUMED)
                                                   r[.., t, ..] == a[.., t, ..]      for t < k
                                                   r[.., k, ..] == v
                                                   r[.., t, ..] == a[.., t - 1, ..]  for t > k         (numpy.insert, scalar obj)
(A4) `linalg.solve_triangular(A, b, trans=1, lower=False[, overwrite_b=..])` (scipy.linalg; exactly this keyword form),
                                               A a 2-D real array, b a 1-D real array:
                                               obligations `solve-shape@line`:  A.shape[0] == A.shape[1] == len(b)
                                                           `solve-nonsingular@line`:  forall i: A[i, i] != 0
                                               (scipy raises ValueError / LinAlgError("singular matrix") otherwise)
                                               result: FRESH 1-D array y of the same length with (ASSUMED)
                                                   forall i:  sum_{r <= i} A[r, i] * y[r]  ==  b[i]
                                               i.e. y solves triu(A)^T y = b  (`lower=False`: only the upper triangle of A is
                                               read; `trans=1`: the transposed system).  Nothing else is assumed about y.
                                               When A is written as a leading block `M[:m, :m]` and / or b as a prefix `v[:m]`
                                               of an array variable, the fact is stated with M[r, i] / v[i] in place of
                                               A[r, i] / b[i] (the engine's own reading of a basic slice with offset 0; M, v
                                               as they are at the time of the call) so that a contract can name the terms.
                                               `overwrite_b=True`: scipy may overwrite the memory of b.  When the argument is
                                               written as a slice `x[lo:hi]` of a 1-D array variable (a numpy VIEW) the entries
                                               lo..hi-1 of x are havoced (arbitrary afterwards), a bare array name is havoced
                                               entirely, a freshly computed argument needs nothing; other forms are rejected.
(A5) `a.dot(b)`, a and b 1-D real arrays      obligation `dot-len@line`: len(a) == len(b);  value (ASSUMED: definition of the
                                               inner product)  sumto(len(a), lambda k: a[k] * b[k]).

B. Opaque real arithmetic, ONLY inside the contracts listed in OPAQUE = {contract key: "p" | "m" | ""} (performance device).
(3) Inside those contracts a product x * y of two non-constant reals is read as pmul05(x, y) and a quotient x / y with a
    non-constant divisor as pdiv05(x, y)  (program text and specification text alike, element-wise for arrays; the `div`
    obligation  y != 0  is emitted as usual).  `x ** 2` is x * x in the base engine and therefore pmul05(x, x).
    Meaning of the two symbols (definitions, the only facts about them):
        D1  pmul05(x, y) == x * y            D2  pdiv05(a, b) == a / b
        D3  sqrt(a) >= 0                     D4  a >= 0  ->  sqrt(a) * sqrt(a) == a        (D3, D4: the engine's own sqrt axiom)
    D1..D4 are NEVER handed to the solver as quantified axioms.  They are used only inside the proofs of the lemmas (5).
(4) The contract module declares the opaque macros of one plane rotation step, for the sign  op = + ("p", update) and
    op = - ("m", downdate)   [a = U[k, k], b = x[k], u = U[k, j], x = x[j]]:
        gr05?(a, b)       = sqrt(a * a op b * b)                    new diagonal entry r
        gc05?(a, b)       = gr05?(a, b) / a                         c
        gs05?(a, b)       = b / a                                   s
        gu05?(a, b, u, x) = (u op gs05?(a, b) * x) / gc05?(a, b)    new U[k, j]
        gx05?(a, b, u, x) = gc05?(a, b) * x - gs05?(a, b) * gu05?(a, b, u, x)      new x[j]
    Their DEFINITIONS are handed to the solver as axioms, each triggered ONLY on a marker term d<name>(args) that the
    contract writes next to the place where it needs the definition unfolded (marker macros: `True` at run time):
        forall args {dg(args)}:  dg(args)  and  g(args) == <the macro's body text evaluated by the engine under the reading (3)>
    The right-hand side is obtained mechanically from the macro's `body` string -- the very text engine C executes -- so
    nothing is stated twice.  Every such axiom is linear over the opaque symbols: the program's expression
    `(U[k, j] + s * x[j]) / c` and the specification's gu05p(..) meet by congruence + linear arithmetic.
    (Why markers: triggered on g(args) itself, every term of the ghost sequence c05_x?(k, j), c05_x?(k - 1, j), ... that
    e-matching reaches unfolds five definitions; measured: seconds and seed-dependent instead of 10 ms.)
(5) LEMMAS about one rotation step, PROVED on every run (obligations `lemma:c05.<name>/direct`).  Proof: the instances
    of D1..D4 and of the definitions (4) at the lemma's own terms (closed under sub-terms) are the hypotheses; every
    application of an uninterpreted symbol is then replaced by a fresh constant -- a more general, quantifier-free,
    purely real-arithmetic statement that z3 decides with nlsat (6).   With  D(a, b) = a * a op b * b  and
    good(a, b) :=  a != 0  (update)   /   a != 0 and D(a, b) > 0  (downdate):
        nonneg   gr(a, b) >= 0
        pos      good(a, b)  ->  gr(a, b) > 0  and  gc(a, b) != 0
        diag     D(a, b) >= 0  ->  gr(a, b) * gr(a, b) == D(a, b)            (update: without the hypothesis)
        row      good(a, b)  ->  gr(a, b) * gu(a, b, u, x) == a * u  op  b * x
        givens   good(a, b)  ->  gu(a,b,u1,x1) * gu(a,b,u2,x2)  op  gx(a,b,u1,x1) * gx(a,b,u2,x2)  ==  u1 * u2  op  x1 * x2
    (products written with pmul05; each lemma is a quantified fact triggered on the product / symbol on its left-hand side).
    Generic lemmas, proved the same way from D1..D4 alone (all contracts of OPAQUE):
        sq       a * a >= 0                                  {pmul05(a, a)}
        sqrtnn   sqrt(v) >= 0                                {sqrt(v)}
        sqrtsq   v >= 0  ->  sqrt(v) * sqrt(v) == v          {pmul05(sqrt(v), sqrt(v))}
        cancel   d != 0 and d * a == d * c  ->  a == c       {pmul05(d, a), pmul05(d, c)}     (only for OPAQUE[key] == "")

(6) (drops hypotheses, adds none) the obligations of (5) -- and only those, recognised by the identity of their goal
    term -- are first sent to a plain z3 solver WITHOUT the quantified axioms of the run (spec-function axioms, sum
    recurrences): they are quantifier-free real arithmetic, and with quantifiers present z3 does not select nlsat.
    Anything but `unsat` falls back to the engine's own portfolio.

(7) (drops hypotheses, adds none) the definitions (4) are withheld from the proofs of the LEMMAS OF THE SPEC FUNCTIONS
    c05_* (they need the lemmas (5) only): every definition instance introduces half a dozen real-valued arguments of
    uninterpreted symbols, and z3's theory combination (interface equalities between them) then dominates the run time.

(8) (changes TRIGGERS only) in the obligations of the PROGRAM (not in the lemma proofs) the recurrence axiom of the ghost
    sequence,  forall k, j {c05_x?(k + 1, j)}: c05_x?(k + 1, j) == ...,  gets the multi-pattern {c05_x?(k + 1, j), stp05?(k)}:
    it fires only for the step k at which the contract placed the marker stp05?(k) (`True` at run time; axiom
    forall k {stp05?(k)}: stp05?(k)).  z3 matches the trigger c05_x?(k + 1, j) against ANY term c05_x?(T, j) by solving
    k = T - 1, and the instance mentions c05_x?(T - 1, .): an endless descending chain that made single obligations
    seed-dependent (10 ms .. 10 s).  The quantifier body is unchanged, so nothing is added or removed logically.

C. Nothing else: slices, slice stores, element-wise array arithmetic and loops are the base engine's.
"""
from __future__ import annotations
import ast
import time
import z3

from pyvc import calls, verify
from pyvc.engine import (Engine, State, Ref, Arr, OutsideSubset, I, R, B, toz, to_real, to_int_strict, sort_kind, is_z3,
                         arr_sort, F_SQRT)
from pyvc.contract import MACROS

OPAQUE = {}          # contract key -> "p" (update, +) | "m" (downdate, -) | "" (no rotation macros: cholinsertlast)
F_PMUL = z3.Function("macro.pmul05", R, R, R)
F_PDIV = z3.Function("macro.pdiv05", R, R, R)
GNAMES = ("gr05", "gc05", "gs05", "gu05", "gx05")


# ------------------------------------------------------------------------------------------- A (1) a.size
if not getattr(Engine, "_c05_size", False):
    _orig_attr = Engine.ev_Attribute

    def _ev_Attribute(self, node, st):
        if node.attr == "size":
            key = None
            if isinstance(node.value, ast.Name):
                key = "%s.size" % node.value.id
            if key is None or key not in (getattr(self.c, "attrs", None) or {}):
                base = self.ev(node.value, st)
                if isinstance(base, (Ref, Arr)):
                    arr = self.deref(base, st)
                    if arr.rank == 1:
                        return arr.shape[0]
                    raise OutsideSubset(".size of a rank-%d array" % arr.rank)
        return _orig_attr(self, node, st)

    Engine.ev_Attribute = _ev_Attribute
    Engine._c05_size = True


# ------------------------------------------------------------------------------------------- A (2) math.sqrt
def _is_math_sqrt(E, node, st):
    f = node.func
    return (isinstance(f, ast.Attribute) and f.attr == "sqrt" and isinstance(f.value, ast.Name)
            and f.value.id not in st.env and E.mi.resolve(f.value.id) == "math"
            and len(node.args) == 1 and not node.keywords)


def _is_scipy_linalg(E, node, st, name):
    f = node.func
    return (isinstance(f, ast.Attribute) and f.attr == name and isinstance(f.value, ast.Name)
            and f.value.id not in st.env and E.mi.resolve(f.value.id) == "scipy.linalg")


def _fresh_array(E, st, name, shape, elem="real"):
    rid = next(E.ids)
    st.heap[rid] = Arr(E.fresh(name, arr_sort(elem, len(shape))), list(shape), elem)
    return Ref(rid), st.heap[rid]


def _solve_triangular(E, node, st):
    line = getattr(node, "lineno", E.cur_line)
    kw = {k.arg: k.value for k in node.keywords}
    if len(node.args) != 2 or None in kw or set(kw) - {"trans", "lower", "overwrite_b"}:
        raise OutsideSubset("linalg.solve_triangular: only (A, b, trans=1, lower=False, overwrite_b=...) is read (line %s)" % line)
    trans = E.ev(kw["trans"], st) if "trans" in kw else 0
    lower = E.ev(kw["lower"], st) if "lower" in kw else False
    if isinstance(trans, bool) or trans != 1 or lower is not False:
        raise OutsideSubset("linalg.solve_triangular: only trans=1, lower=False is read (line %s)" % line)
    A = E.deref(E.ev(node.args[0], st), st)
    b = E.deref(E.ev(node.args[1], st), st)
    if A.rank != 2 or b.rank != 1 or A.elem != "real" or b.elem != "real":
        raise OutsideSubset("linalg.solve_triangular: real 2-D matrix and real 1-D right-hand side only (line %s)" % line)
    A, b = Arr(A.data, A.shape, A.elem), Arr(b.data, b.shape, b.elem)           # snapshots at the time of the call
    m = toz(A.shape[0])
    A_f, b_f = _through(E, node.args[0], st, A), _through(E, node.args[1], st, b)
    if not E.spec_mode:
        i = E.fresh("i", I)
        E.emit("solve-shape@%s" % line, st, z3.And(toz(A.shape[1]) == m, toz(b.shape[0]) == m), "shape")
        E.emit("solve-nonsingular@%s" % line, st,
               z3.ForAll([i], z3.Implies(z3.And(i >= 0, i < m), E.select(A, [i, i]) != 0)), "div")
    ref, y = _fresh_array(E, st, "tri", [m])
    st.pc.append(toz(E.evs("forall(0, m, lambda i: sumto(i + 1, lambda r: A[r, i] * y[r]) == b[i], pat=(y[i], b[i]))", st,
                           {"A": A_f, "b": b_f, "y": Arr(y.data, y.shape, y.elem), "m": m})))
    over = E.ev(kw["overwrite_b"], st) if "overwrite_b" in kw else False
    if over is not False:
        if over is not True:
            raise OutsideSubset("linalg.solve_triangular: overwrite_b must be a literal (line %s)" % line)
        _havoc_view(E, node.args[1], st, line)
    return ref


def _through(E, anode, st, evaluated):
    """`M[:m, :m]` / `v[:m]` of an array variable: the variable's current contents (indices coincide: offset 0)"""
    if isinstance(anode, ast.Subscript) and isinstance(anode.value, ast.Name) and isinstance(st.env.get(anode.value.id), Ref):
        sl = anode.slice.elts if isinstance(anode.slice, ast.Tuple) else [anode.slice]
        base = st.heap[st.env[anode.value.id].id]
        if (len(sl) == base.rank == evaluated.rank and base.elem == evaluated.elem
                and all(isinstance(q, ast.Slice) and q.lower is None and q.step is None for q in sl)):
            return Arr(base.data, base.shape, base.elem)
    return evaluated


def _havoc_view(E, bnode, st, line):
    """overwrite_b=True: the memory of the right-hand side is arbitrary after the call"""
    name, sl = None, None
    if isinstance(bnode, ast.Name):
        name = bnode.id
    elif isinstance(bnode, ast.Subscript) and isinstance(bnode.value, ast.Name) and isinstance(bnode.slice, ast.Slice):
        name, sl = bnode.value.id, bnode.slice
    v = st.env.get(name) if name is not None else None
    if not isinstance(v, Ref):
        if isinstance(bnode, (ast.Call, ast.BinOp)):
            return                                         # a freshly computed array: no variable can observe the overwrite
        raise OutsideSubset("overwrite_b=True on an argument whose memory cannot be tracked (line %s)" % line)
    base = st.heap[v.id]
    if base.rank != 1 or (sl is not None and sl.step is not None):
        raise OutsideSubset("overwrite_b=True on a view of a rank-%d array (line %s)" % (base.rank, line))
    new = Arr(E.fresh(name + "~", arr_sort(base.elem, 1)), base.shape, base.elem)
    if sl is not None:
        lo = toz(E.ev(sl.lower, st)) if sl.lower is not None else z3.IntVal(0)
        hi = toz(E.ev(sl.upper, st)) if sl.upper is not None else toz(base.shape[0])
        j = E.fresh("j", I)
        st.pc.append(z3.ForAll([j], z3.Implies(z3.Or(j < lo, j >= hi), z3.Select(new.data, j) == z3.Select(base.data, j)),
                               patterns=[z3.Select(new.data, j)]))
    st.heap[v.id] = new


if not getattr(calls, "_c05_do_call", False):
    _orig_do_call = calls.do_call

    def _do_call(E, node, st):
        if _is_scipy_linalg(E, node, st, "solve_triangular"):
            return _solve_triangular(E, node, st)
        if _is_math_sqrt(E, node, st):
            v = E.ev(node.args[0], st)
            if isinstance(v, (Ref, Arr, tuple)) or sort_kind(v) not in ("real", "int"):
                raise OutsideSubset("math.sqrt of a non-scalar (line %s)" % getattr(node, "lineno", "?"))
            rv = to_real(v)
            if not E.spec_mode:
                E.emit("sqrt-domain@%s" % getattr(node, "lineno", E.cur_line), st, rv >= 0, "div")
            E.math_used.add("sqrt")
            return F_SQRT(rv)
        return _orig_do_call(E, node, st)

    calls.do_call = _do_call
    calls._c05_do_call = True


# ------------------------------------------------------------------------------------------- (A3) np.insert  (A5) a.dot(b)
def _np_insert(E, node, st):
    line = getattr(node, "lineno", E.cur_line)
    kw = {k.arg: k.value for k in node.keywords}
    if len(node.args) != 3 or set(kw) != {"axis"}:
        raise OutsideSubset("np.insert: only np.insert(a, k, v, axis=0|1) is read (line %s)" % line)
    a = E.deref(E.ev(node.args[0], st), st)
    k = E.ev(node.args[1], st)
    v = E.ev(node.args[2], st)
    axis = E.ev(kw["axis"], st)
    if (a.rank != 2 or a.elem != "real" or isinstance(k, (Ref, Arr, tuple)) or sort_kind(k) != "int"
            or isinstance(v, (Ref, Arr, tuple)) or sort_kind(v) not in ("int", "real") or isinstance(axis, bool) or axis not in (0, 1)):
        raise OutsideSubset("np.insert: 2-D real array, scalar int index, scalar value, literal axis only (line %s)" % line)
    k = to_int_strict(k)
    if not E.spec_mode:
        E.emit("insert-index@%s" % line, st, z3.And(k >= 0, k <= toz(a.shape[axis])), "index")
    shape = [toz(d) for d in a.shape]
    shape[axis] = z3.simplify(shape[axis] + 1)
    ref, out = _fresh_array(E, st, "ins", shape)
    idx = [E.fresh("i", I), E.fresh("j", I)]
    t = idx[axis]
    prev = list(idx)
    prev[axis] = t - 1
    st.pc.append(z3.ForAll(idx, z3.Implies(z3.And([z3.And(q >= 0, q < d) for q, d in zip(idx, shape)]),
                                           E.select(out, idx) == z3.If(t < k, E.select(a, idx),
                                                                       z3.If(t == k, to_real(v), E.select(a, prev)))),
                           patterns=[E.select(out, idx)]))
    return ref


calls.NP_EXT["np.insert"] = _np_insert


def _dot(E, base, arr, node, st):
    line = getattr(node, "lineno", E.cur_line)
    if len(node.args) != 1 or node.keywords:
        raise OutsideSubset("a.dot: one argument (line %s)" % line)
    other = E.deref(E.ev(node.args[0], st), st)
    if arr.rank != 1 or other.rank != 1 or arr.elem != "real" or other.elem != "real":
        raise OutsideSubset("a.dot(b): 1-D real arrays only (line %s)" % line)
    if not E.spec_mode:
        E.emit("dot-len@%s" % line, st, toz(arr.shape[0]) == toz(other.shape[0]), "shape")
    return E.evs("sumto(m, lambda k: a[k] * b[k])", st,
                 {"a": Arr(arr.data, arr.shape, arr.elem), "b": Arr(other.data, other.shape, other.elem), "m": arr.shape[0]})


calls.METHOD_EXT["dot"] = _dot


# ------------------------------------------------------------------------------------------- B (3) opaque * and /
def _symbolic_real(v):
    return is_z3(v) and v.sort() == R and not z3.is_rational_value(v) and not z3.is_algebraic_value(v)


if not getattr(Engine, "_c05_opaque_binop", False):
    _orig_binop = Engine.binop

    def _binop(self, op, a, b, st, node=None):
        if (getattr(self.c, "key", None) in OPAQUE and isinstance(op, (ast.Mult, ast.Div))
                and not isinstance(a, (Ref, Arr, tuple)) and not isinstance(b, (Ref, Arr, tuple))
                and not type(a).__name__ == "Cplx" and not type(b).__name__ == "Cplx"):
            ka, kb = sort_kind(a), sort_kind(b)
            if ka in ("real", "int") and kb in ("real", "int") and "real" in (ka, kb):
                ra = to_real(a) if is_z3(a) else a
                rb = to_real(b) if is_z3(b) else b
                if isinstance(op, ast.Mult) and _symbolic_real(ra) and _symbolic_real(rb):
                    _lemmas(self)
                    return F_PMUL(ra, rb)
                if isinstance(op, ast.Div) and _symbolic_real(rb):
                    if not self.spec_mode:
                        self.need_nonzero(rb, st, node)
                    _lemmas(self)
                    return F_PDIV(to_real(a), rb)
        return _orig_binop(self, op, a, b, st, node)

    Engine.binop = _binop
    Engine._c05_opaque_binop = True


if not getattr(Engine, "_c05_spec_apply", False):
    _orig_spec_apply = Engine.spec_apply

    def _spec_apply(self, name, args, st):
        # the rotation lemmas are registered (hence proved) BEFORE the spec functions whose inductive lemmas use them
        if name.startswith("c05_") and getattr(self.c, "key", None) in OPAQUE:
            _lemmas(self)
        return _orig_spec_apply(self, name, args, st)

    Engine.spec_apply = _spec_apply
    Engine._c05_spec_apply = True


# ------------------------------------------------------------------------------------------- B (4) definitions
def _gfun(name):
    m = MACROS[name]
    return z3.Function("macro." + name, *([R] * (len(m.params) + 1)))


def _definition(E, name):
    """(vars, g(vars), body) -- the macro's body text evaluated by the engine under the opaque reading"""
    m = MACROS[name]
    vs = [z3.Real("%s!%s" % (p, name)) for p in m.params]
    E.spec_mode += 1
    try:
        body = E.ev(ast.parse(m.body, mode="eval").body, State(dict(zip(m.params, vs)), {}, []))
    finally:
        E.spec_mode -= 1
    return vs, _gfun(name)(*vs), to_real(body)


def _closure(defs, formulas):
    """instances of D1..D4 and of the definitions at every application occurring in `formulas` (closed under the
    sub-terms the instances introduce)"""
    hyps, seen, work = [], set(), list(formulas)
    while work:
        t = work.pop()
        if t.get_id() in seen or not z3.is_app(t):
            continue
        seen.add(t.get_id())
        work.extend(t.children())
        d = t.decl()
        if d.kind() != z3.Z3_OP_UNINTERPRETED or t.num_args() == 0:
            continue
        nm = d.name()
        if nm == "macro.pmul05":
            h = [t == t.arg(0) * t.arg(1)]
        elif nm == "macro.pdiv05":
            h = [t == t.arg(0) / t.arg(1)]
        elif nm == "sqrt":
            h = [t >= 0, z3.Implies(t.arg(0) >= 0, t * t == t.arg(0))]
        elif nm in defs:
            vs, lhs, rhs = defs[nm]
            h = [t == z3.substitute(rhs, *zip(vs, t.children()))]
        else:
            h = []
        hyps.extend(h)
        work.extend(h)
    return hyps


def _abstract(formulas):
    """replace every application of an uninterpreted function by a fresh constant (same symbol on syntactically equal
    abstracted arguments -> same constant).  The abstracted problem is MORE general (it forgets congruence), so a proof
    of it is a proof of the original; it is pure real arithmetic."""
    cache, memo = {}, {}

    def go(t):
        i = t.get_id()
        if i in memo:
            return memo[i]
        r = t
        if z3.is_app(t) and t.num_args() > 0:
            args = [go(ch) for ch in t.children()]
            d = t.decl()
            if d.kind() == z3.Z3_OP_UNINTERPRETED:
                key = (d.name(), tuple(u.get_id() for u in args))
                if key not in cache:
                    cache[key] = (z3.FreshConst(t.sort(), "abs"), args)   # keep args alive: ids stay unique
                r = cache[key][0]
            else:
                r = d(*args)
        memo[i] = r
        return r
    return [go(f) for f in formulas]


# ------------------------------------------------------------------------------------------- B (5) lemmas
def _lemma_bodies(sg, a, b, u1, x1, u2, x2):
    gr, gc, gs, gu, gx = [_gfun(n + sg) for n in GNAMES]
    plus = (lambda p, q: p + q) if sg == "p" else (lambda p, q: p - q)
    D = plus(F_PMUL(a, a), F_PMUL(b, b))
    good = (a != 0) if sg == "p" else z3.And(a != 0, D > 0)
    r = gr(a, b)
    U1, U2, X1, X2 = gu(a, b, u1, x1), gu(a, b, u2, x2), gx(a, b, u1, x1), gx(a, b, u2, x2)
    return [
        ("nonneg", [a, b], r >= 0, r),
        ("pos", [a, b], z3.Implies(good, z3.And(r > 0, gc(a, b) != 0)), gc(a, b)),
        ("diag", [a, b], (F_PMUL(r, r) == D) if sg == "p" else z3.Implies(D >= 0, F_PMUL(r, r) == D), F_PMUL(r, r)),
        ("row", [a, b, u1, x1], z3.Implies(good, F_PMUL(r, U1) == plus(F_PMUL(a, u1), F_PMUL(b, x1))), F_PMUL(r, U1)),
        ("givens", [a, b, u1, x1, u2, x2],
         z3.Implies(good, plus(F_PMUL(U1, U2), F_PMUL(X1, X2)) == plus(F_PMUL(u1, u2), F_PMUL(x1, x2))), F_PMUL(U1, U2)),
    ]


def _generic_bodies(sg, a, c, d, v):
    out = [("sq", [a], F_PMUL(a, a) >= 0, F_PMUL(a, a)),
           ("sqrtnn", [v], F_SQRT(v) >= 0, F_SQRT(v)),
           ("sqrtsq", [v], z3.Implies(v >= 0, F_PMUL(F_SQRT(v), F_SQRT(v)) == v), F_PMUL(F_SQRT(v), F_SQRT(v)))]
    if sg == "":
        out.append(("cancel", [d, a, c], z3.Implies(z3.And(d != 0, F_PMUL(d, a) == F_PMUL(d, c)), a == c),
                    z3.MultiPattern(F_PMUL(d, a), F_PMUL(d, c))))
    return out


def _lemmas(E):
    """register the definitions (axioms) and the rotation lemmas (proved first) with this engine run"""
    key = ("c05.lemmas",)
    if key in E.spec_inst:
        return
    sg = OPAQUE[E.c.key]
    E.spec_inst[key] = inst = {"f": None, "name": "c05", "axioms": [], "env": {}, "lemmas": []}   # (re-entrancy: set first)
    defs = {}
    gsk = [E.fresh(n, R) for n in ("a", "c", "d", "v")]
    gqv = [z3.Real(n + "!g05") for n in ("a", "c", "d", "v")]
    for (name, _, body, _), (_, vs, qbody, pat) in zip(_generic_bodies(sg, *gsk), _generic_bodies(sg, *gqv)):
        ab = _abstract(_closure(defs, [body]) + [body])
        _QF_GOALS[ab[-1].get_id()] = ab[-1]
        inst["lemmas"].append({"name": "c05." + name, "parts": [("direct", ab[:-1], ab[-1])],
                               "stmt": z3.ForAll(vs, qbody, patterns=[pat]), "hints": [], "export": True, "spec": "c05"})
    if sg == "":
        E._c05_defs = set()
        return
    for n in GNAMES:
        vs, lhs, rhs = _definition(E, n + sg)
        defs["macro." + n + sg] = (vs, lhs, rhs)
        mark = z3.Function("macro.d" + n + sg, *([R] * len(vs) + [B]))(*vs)
        inst["axioms"].append(z3.ForAll(vs, z3.And(mark, lhs == rhs), patterns=[mark]))
    E._c05_defs = {a.get_id() for a in inst["axioms"]}
    kq = z3.Int("k!m05")
    stp = z3.Function("macro.stp05" + sg, I, B)(kq)
    inst["axioms"].append(z3.ForAll([kq], stp, patterns=[stp]))          # marker of (8): always true
    sk = [E.fresh(n, R) for n in ("a", "b", "u1", "x1", "u2", "x2")]
    qv = [z3.Real(n + "!c05") for n in ("a", "b", "u1", "x1", "u2", "x2")]
    for (name, _, body, _), (_, vs, qbody, pat) in zip(_lemma_bodies(sg, *sk), _lemma_bodies(sg, *qv)):
        hyps = _closure(defs, [body])
        ab = _abstract(hyps + [body])
        _QF_GOALS[ab[-1].get_id()] = ab[-1]
        # nonneg / pos are used by the program obligations; diag / row / givens only by the lemmas of c05_u? (not exported)
        public = name in ("nonneg", "pos")
        inst["lemmas"].append({"name": "c05." + name, "parts": [("direct", ab[:-1], ab[-1])],
                               "stmt": z3.ForAll(vs, qbody, patterns=[pat]), "hints": [], "export": public,
                               "spec": "c05" if public else "c05_u" + sg})


# ------------------------------------------------------------------------------------------- B (6) nlsat for (5)
_QF_GOALS = {}       # id -> goal term (kept alive so that ids stay unique)

if not getattr(verify, "_c05_check", False):
    _orig_check = verify.check

    def _check(hyps, goal, timeout_ms, want_model=False, axioms=()):
        g = _QF_GOALS.get(goal.get_id())
        if g is not None and g.eq(goal):
            t0 = time.time()
            s = z3.Solver()
            s.set("timeout", min(int(timeout_ms), 10000))
            for h in hyps:
                s.add(h)
            s.add(z3.Not(goal))
            if s.check() == z3.unsat:
                _check.last_how = "qf-nlsat"
                return "unsat", int((time.time() - t0) * 1000), s, None
        return _orig_check(hyps, goal, timeout_ms, want_model=want_model, axioms=axioms)   # (sets verify.check.last_how itself)

    verify.check = _check
    verify._c05_check = True


# ------------------------------------------------------------------------------------------- B (8) step marker
def _with_step_marker(E, q):
    """forall k, j {c05_x?(k + 1, j)}: body   ->   forall k, j {c05_x?(k + 1, j), stp05?(k)}: body"""
    cache = E.__dict__.setdefault("_c05_marked", {})
    qid = q.get_id()
    if qid in cache:
        return cache[qid][1]
    out = q
    sg = OPAQUE.get(getattr(E.c, "key", None))
    fx = None
    for k_, inst in E.spec_inst.items():
        if inst.get("name") == "c05_x" + sg:
            fx = inst["f"]
    if (fx is not None and z3.is_quantifier(q) and q.is_forall() and q.num_vars() == 2 and q.num_patterns() == 1
            and q.pattern(0).num_args() == 1):
        vs = [z3.Int("k!stp05"), z3.Int("j!stp05")]
        pat = z3.substitute_vars(q.pattern(0).arg(0), *reversed(vs))
        if (z3.is_app(pat) and pat.decl().eq(fx) and z3.is_add(pat.arg(0))
                and any(c.eq(vs[0]) for c in pat.arg(0).children()) and pat.arg(1).eq(vs[1])):
            mark = z3.Function("macro.stp05" + sg, I, B)(vs[0])
            out = z3.ForAll(vs, z3.substitute_vars(q.body(), *reversed(vs)), patterns=[z3.MultiPattern(pat, mark)])
    cache[qid] = (q, out)
    return out


# ------------------------------------------------------------------------------------------- B (7) definitions withheld
if not getattr(verify, "_c05_all_axioms", False):
    _prev_all_axioms = verify.all_axioms

    def _all_axioms(E, proven_lemmas, internal_for=None):
        ax = _prev_all_axioms(E, proven_lemmas, internal_for=internal_for)
        defs = getattr(E, "_c05_defs", None)
        if defs and internal_for and str(internal_for).startswith("c05_"):
            ax = [a for a in ax if a.get_id() not in defs]
        if internal_for is None and getattr(E.c, "key", None) in OPAQUE and OPAQUE[E.c.key]:
            ax = [_with_step_marker(E, a) for a in ax]
        return ax

    verify.all_axioms = _all_axioms
    verify._c05_all_axioms = True
