"""pyvc -- a small deductive verifier for numba-style Python kernels.

Reads the REAL source of a function from /repo on every run (ast.parse), executes it
symbolically against a sidecar contract (requires / ensures / modifies / raises / loop
invariants), and emits one named verification condition per proof obligation.  The VCs are
discharged by z3 (python API) and, optionally, re-checked by /usr/bin/cvc5 on the SMT-LIB dump.
"""
