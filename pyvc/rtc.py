"""Engine C: the same sidecar contracts read concretely, on the REAL functions in /repo.

Used for (i) replaying counterexamples, (ii) searching for a failing input when an obligation is not
discharged, (iii) the bounded stand-in for code outside engine A.  Nothing here is counted as proved.
"""
from __future__ import annotations
import ast, copy, importlib, json, os, sys, traceback, hashlib, itertools, random
import numpy as np

from .contract import CONTRACTS, SPECS, MACROS, Contract, load_all
from . import source

TOL = 1e-9


def _eq(a, b):
    """equality of the DSL: exact for ints/bools, tolerance for floats (R1: specs are over the reals)"""
    if isinstance(a, (tuple, list)) or isinstance(b, (tuple, list)):
        a, b = tuple(a), tuple(b)
        return len(a) == len(b) and all(_eq(x, y) for x, y in zip(a, b))
    if isinstance(a, np.ndarray) or isinstance(b, np.ndarray):
        a, b = np.asarray(a), np.asarray(b)
        return a.shape == b.shape and bool(np.allclose(a, b, rtol=1e-9, atol=1e-9, equal_nan=False))
    if isinstance(a, (bool, np.bool_)) and isinstance(b, (bool, np.bool_)):
        return bool(a) == bool(b)
    if a is None or b is None:
        return a is b
    try:
        fa, fb = float(a), float(b)
    except (TypeError, ValueError):
        return a == b
    if fa == fb:
        return True
    return abs(fa - fb) <= TOL * max(1.0, abs(fa), abs(fb))


def _eq0(a, b):
    """comparison with the literal 0: exact"""
    if isinstance(a, (tuple, list, np.ndarray)) or isinstance(b, (tuple, list, np.ndarray)):
        a, b = np.asarray(a), np.asarray(b)
        return bool(np.all(a == b))
    if a is None or b is None:
        return a is b
    try:
        return float(a) == float(b)
    except (TypeError, ValueError):
        return a == b


class _EqRewriter(ast.NodeTransformer):
    """a == b  ->  _eq(a, b);  a != b -> not _eq(a, b)   (chains are split)"""

    def visit_Compare(self, node):
        self.generic_visit(node)
        if not any(isinstance(o, (ast.Eq, ast.NotEq)) for o in node.ops):
            return node
        parts = []
        left = node.left
        for op, right in zip(node.ops, node.comparators):
            # a comparison with the literal 0 is a sign test, not an approximate equality: `x != 0` in the code under contract is
            # exact, and a tolerance of 1e-9 would call an overlap of 2^-34 "zero" (the spec would disagree with correct code)
            zero = any(isinstance(z, ast.Constant) and type(z.value) in (int, float) and z.value == 0 for z in (left, right))
            fn = "_eq0" if zero else "_eq"
            if isinstance(op, ast.Eq):
                parts.append(ast.Call(ast.Name(fn, ast.Load()), [left, right], []))
            elif isinstance(op, ast.NotEq):
                parts.append(ast.UnaryOp(ast.Not(), ast.Call(ast.Name(fn, ast.Load()), [left, right], [])))
            else:
                parts.append(ast.Compare(left, [op], [right]))
            left = right
        out = parts[0] if len(parts) == 1 else ast.BoolOp(ast.And(), parts)
        return ast.copy_location(out, node)

    def visit_Call(self, node):
        # drop pat= keywords (patterns are solver hints only)
        self.generic_visit(node)
        node.keywords = [k for k in node.keywords if k.arg != "pat"]
        if isinstance(node.func, ast.Name) and node.func.id == "implies" and len(node.args) == 2:
            # lazy: the consequent is evaluated only when the antecedent holds
            return ast.copy_location(ast.BoolOp(ast.Or(), [ast.UnaryOp(ast.Not(), node.args[0]), node.args[1]]), node)
        return node


_code_cache = {}


def compile_dsl(expr: str):
    if expr not in _code_cache:
        tree = ast.parse(expr, mode="eval")
        tree = ast.fix_missing_locations(_EqRewriter().visit(tree))
        _code_cache[expr] = compile(tree, "<dsl>", "eval")
    return _code_cache[expr]


def _forall(lo, hi, f):
    return all(f(i) for i in range(int(lo), int(hi)))


def _exists(lo, hi, f):
    return any(f(i) for i in range(int(lo), int(hi)))


def _sumto(n, f):
    tot = 0
    for k in range(int(n)):
        tot = tot + f(k)
    return tot


def base_namespace():
    load_all()
    ns = {
        "_eq": _eq, "_eq0": _eq0, "forall": _forall, "exists": _exists, "implies": lambda a, b: (not a) or bool(b),
        "iff": lambda a, b: bool(a) == bool(b), "sumto": _sumto, "toreal": float,
        "toint": lambda v: int(v), "floor": lambda v: int(np.floor(v)), "isint": lambda v: float(v).is_integer(), "abs": abs, "min": min, "max": max, "len": len, "int": int, "float": float,
        "sqrt": np.sqrt, "sin": np.sin, "cos": np.cos, "exp": np.exp, "log": np.log, "arctan2": np.arctan2,
        "radians": np.radians, "np": np, "True": True, "False": False, "pi": float(np.pi),
        "creal": lambda v: float(np.real(v)), "cimag": lambda v: float(np.imag(v)),
        "arr1": lambda n, f: np.array([f(i) for i in range(int(n))]),
        "arr2": lambda h, w, f: np.array([[f(a, b) for b in range(int(w))] for a in range(int(h))]).reshape(int(h), int(w)),
    }
    for name, sp in SPECS.items():
        ns[name] = sp.py
    for name, m in MACROS.items():
        if m.py is not None:
            ns[name] = m.py
        else:
            ns[name] = _macro_fn(m, ns)
    return ns


def _macro_fn(m, ns):
    code = compile_dsl(m.body)

    def f(*args):
        loc = dict(ns)
        loc.update(zip(m.params, args))
        return eval(code, loc)
    return f


def evaluate(expr: str, env: dict):
    ns = base_namespace()
    ns.update(env)
    return eval(compile_dsl(expr), ns)


# --------------------------------------------------------------------------- real functions

def import_repo():
    if source.REPO not in sys.path:
        sys.path.insert(0, source.REPO)
    if "autoarray" not in sys.modules:
        import warnings, io, contextlib, logging
        warnings.filterwarnings("ignore")
        logging.disable(logging.WARNING)          # the import logs a numba banner
        try:
            with contextlib.redirect_stdout(io.StringIO()), contextlib.redirect_stderr(io.StringIO()):
                import autoarray  # noqa
        finally:
            logging.disable(logging.NOTSET)


def real_function(key: str):
    import_repo()
    mod, qn = key.split("#")[0].split(":")
    m = importlib.import_module(mod)
    obj = m
    for part in qn.split("."):
        obj = getattr(obj, part)
    if isinstance(obj, property):                # a contract on a property (`mod:Class.prop`): the function under contract is its getter
        obj = obj.fget
    elif not callable(obj) and callable(getattr(obj, "func", None)):      # functools.cached_property / autoconf CachedProperty
        obj = obj.func
    return obj


def to_jsonable(v):
    if isinstance(v, np.ndarray):
        return {"__nd__": v.tolist(), "dtype": str(v.dtype), "shape": list(v.shape)}     # the shape: an empty (0, 2) array is not an empty (0,) one
    # numpy scalars keep their type through a replay file (`x is y`, `type(x) is float`, integer division and overflow behave
    # differently for numpy scalars and Python numbers)
    if isinstance(v, (np.integer,)):
        return {"__np__": int(v), "dtype": str(v.dtype)}
    if isinstance(v, (np.floating,)):
        return {"__np__": float(v), "dtype": str(v.dtype)}
    if isinstance(v, (np.bool_,)):
        return {"__np__": bool(v), "dtype": "bool"}
    if isinstance(v, tuple):
        return {"__tuple__": [to_jsonable(x) for x in v]}
    if isinstance(v, list):
        return [to_jsonable(x) for x in v]
    if isinstance(v, dict):
        return {k: to_jsonable(x) for k, x in v.items()}
    if isinstance(v, complex):
        return {"__complex__": [v.real, v.imag]}
    return v


def from_jsonable(v):
    if isinstance(v, dict):
        if "__nd__" in v:
            a = np.array(v["__nd__"], dtype=v.get("dtype", "float64"))
            return a.reshape(v["shape"]) if "shape" in v and a.size == 0 else a
        if "__np__" in v:
            return np.dtype(v.get("dtype", "float64")).type(v["__np__"])
        if "__tuple__" in v:
            return tuple(from_jsonable(x) for x in v["__tuple__"])
        if "__complex__" in v:
            return complex(*v["__complex__"])
        return {k: from_jsonable(x) for k, x in v.items()}
    if isinstance(v, list):
        return [from_jsonable(x) for x in v]
    return v


class Outcome:
    def __init__(self, status, clause=None, detail=None, observed=None):
        self.status, self.clause, self.detail, self.observed = status, clause, detail, observed
        # status: "ok" | "pre-false" | "fail"

    def __repr__(self):
        return "Outcome(%s, %s, %s)" % (self.status, self.clause, self.detail)


def run_contract(c: Contract, kwargs: dict) -> Outcome:
    """evaluate requires on concrete inputs, call the REAL function, evaluate ensures / raises / frame"""
    fn = real_function(c.key)
    env = dict(kwargs)
    try:
        for k, e in c.let.items():
            env[k] = evaluate(e, env)
        for r in c.requires:
            if not evaluate(r, env):
                return Outcome("pre-false", r)
    except Exception as e:
        return Outcome("pre-false", "exception in requires: %r" % (e,))
    snap = {k: copy.deepcopy(v) for k, v in kwargs.items()}
    raise_conds = {}
    for exn, cond in c.raises.items():
        raise_conds[exn] = bool(evaluate(cond, env))
    call_kwargs = {k: v for k, v in kwargs.items() if not k.startswith("self.")}
    qn = c.key.split("#")[0].split(":")[1]
    if qn.endswith(".__init__"):
        fn = real_function(c.key.split("#")[0][: -len(".__init__")])          # constructing = calling the class
    elif getattr(c, "objects", None) and isinstance(call_kwargs.get("self"), tuple):
        cls = c.objects.get(len(call_kwargs["self"]))
        if cls:
            call_kwargs["self"] = real_function(cls)(call_kwargs["self"])     # tuple-modelled object -> the real object
    if getattr(c, "rt_wrap", None):
        call_kwargs = c.rt_wrap(dict(call_kwargs))
        for key, expr in (getattr(c, "attrs", None) or {}).items():      # the assumed object facts, checked on the real object
            pn, an = key.split(".")
            try:
                got = getattr(call_kwargs[pn], an)
                if not _eq(got, evaluate(expr, env)):
                    return Outcome("fail", "attrs:%s" % key, "assumed fact about the object is false", observed=repr(got))
            except Exception as e:
                return Outcome("fail", "attrs:%s" % key, "exception: %r" % (e,))
    try:
        result = fn(**call_kwargs)
    except Exception as e:
        name = type(e).__name__
        if name in raise_conds:
            if raise_conds[name]:
                return Outcome("ok")
            return Outcome("fail", "raises:%s only-if %s" % (name, c.raises[name]), "raised although the condition is false",
                           observed=repr(e))
        return Outcome("fail", "no-exception", "unexpected %s: %s" % (name, e), observed=traceback.format_exc()[-600:])
    for exn, want in raise_conds.items():
        if want:
            return Outcome("fail", "raises:%s iff %s" % (exn, c.raises[exn]), "returned instead of raising", observed=_short(result))
    env2 = dict(env)
    env2["result"] = result
    olds = {id(v): snap[k] for k, v in kwargs.items()}
    env2["old"] = lambda x: olds.get(id(x), x)
    for i, e in enumerate(c.ensures):
        try:
            ok = evaluate(e, env2)
        except Exception as ex:
            return Outcome("fail", "post:%d %s" % (i, e), "exception while evaluating the clause: %r" % (ex,), observed=_short(result))
        if not ok:
            return Outcome("fail", "post:%d %s" % (i, e), "clause is false", observed=_short(result))
    for k, v in kwargs.items():
        if k in c.modifies:
            continue
        if isinstance(v, np.ndarray) and not _same_bits(v, snap[k]):
            return Outcome("fail", "frame:%s" % k, "argument modified in place", observed=_short(v))
    if c.result_alias is None and isinstance(result, np.ndarray):
        for k, v in kwargs.items():
            if isinstance(v, np.ndarray) and np.shares_memory(result, v):
                return Outcome("fail", "fresh:result", "result shares memory with argument %s" % k)
    return Outcome("ok")


def _same_bits(a, b):
    return a.shape == b.shape and a.dtype == b.dtype and a.tobytes() == b.tobytes()


def _short(v):
    s = repr(v)
    return s if len(s) < 800 else s[:800] + "..."


# --------------------------------------------------------------------------- replay files

REPLAY_DIR = os.environ.get("VERIF_REPLAY_DIR", os.path.join(os.path.dirname(os.path.dirname(os.path.abspath(__file__))), "replays"))


def write_replay(prop, kind, where, inputs, outcome: Outcome = None, obligation=None, solver=None, extra=None):
    os.makedirs(REPLAY_DIR, exist_ok=True)
    body = {
        "property": prop, "kind": kind, "where": where, "inputs": to_jsonable(inputs),
        "clause": outcome.clause if outcome else None, "detail": outcome.detail if outcome else None,
        "observed": outcome.observed if outcome else None,
        "obligation": obligation, "solver": solver, "extra": extra,
        "how_to_replay": "./vf replay <this file>",
    }
    h = hashlib.sha256(json.dumps(body, sort_keys=True, default=str).encode()).hexdigest()[:10]
    path = os.path.join(REPLAY_DIR, "%s-%s-%s.json" % (prop, _slug(where), h))
    with open(path, "w") as f:
        json.dump(body, f, indent=1, default=str)
    return path


def _slug(s):
    return "".join(ch if ch.isalnum() else "_" for ch in s)[-60:]


def replay_isolated(path) -> Outcome:
    """replay in a fresh interpreter (no module- or object-level state left over from earlier evaluations in this process):
    what `./vf replay <file>` will do when somebody re-runs the file"""
    import subprocess
    code = "import sys, json\nfrom pyvc import rtc\no = rtc.replay(sys.argv[1])\nprint('@@' + json.dumps([o.status, o.clause, o.detail, o.observed], default=str))"
    try:
        r = subprocess.run([sys.executable, "-c", code, path], capture_output=True, text=True, timeout=900, env=dict(os.environ))
        line = [l for l in r.stdout.splitlines() if l.startswith("@@")]
        if not line:
            return Outcome("ok", detail="replay subprocess gave no outcome: " + (r.stderr or "")[-300:])
        st, cl, de, ob = json.loads(line[-1][2:])
        return Outcome(st, cl, de, ob)
    except subprocess.TimeoutExpired:
        return Outcome("ok", detail="replay subprocess timed out")


def replay(path) -> Outcome:
    body = json.load(open(path))
    inputs = from_jsonable(body["inputs"])
    hist = (body.get("extra") or {}).get("history") or []
    if hist:
        # history-dependent failure: re-run the recorded preceding inputs (outcomes ignored), then the failing input
        for h in hist:
            _replay_one(body, from_jsonable(h))
        o = _replay_one(body, inputs)
        if o.status == "fail":
            o.detail = "after the %d preceding call(s) recorded in extra.history: %s" % (len(hist), o.detail)
        return o
    return _replay_one(body, inputs)


def _replay_one(body, inputs) -> Outcome:
    if (body.get("extra") or {}).get("layout") == "F":
        # the failure was observed with the array arguments in Fortran (column-major) order: JSON does not carry the layout
        inputs = {k: (np.asfortranarray(v) if isinstance(v, np.ndarray) and v.ndim >= 2 else v) for k, v in inputs.items()}
    if (body.get("extra") or {}).get("layout") == "BE":
        inputs = {k: (v.astype(v.dtype.newbyteorder(">")) if isinstance(v, np.ndarray) and v.dtype.kind in "fi" and v.dtype.itemsize > 1 else v)
                  for k, v in inputs.items()}
    if body["kind"] == "contract":
        load_all()
        return run_contract(CONTRACTS[body["where"]], inputs)
    if body["kind"] == "bounded":
        from . import bounded
        bounded.load_all()
        import_repo()
        chk = bounded.CHECKS[body["where"]]
        import contextlib
        ctx = bounded.derived_constructors() if (body.get("extra") or {}).get("layout") == "DERIVED" else contextlib.nullcontext()
        try:
            with ctx:
                msg = chk.run(inputs)
        except Exception:
            msg = "exception: " + traceback.format_exc()[-800:]
        return Outcome("ok") if msg is None else Outcome("fail", chk.name, msg)
    return Outcome("ok", detail="nothing to execute: proof-obligation record")
