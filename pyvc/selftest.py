"""vf selftest: guards against unsound success.
 (1) every spec-function axiom and lemma is evaluated against the executable definition on small random instances
     (an inconsistent or wrong axiom would make proofs vacuous);
 (2) the committed seeded mutants (/verif/seeded/*/patch.diff) must each be reported as a violation of their property,
     and the unchanged tree must be quiet (run with --full; slow)."""
from __future__ import annotations
import json, os, random, subprocess, sys, tempfile, shutil
import numpy as np

ROOT = os.path.dirname(os.path.dirname(os.path.abspath(__file__)))


def _instance(rng, sp):
    from .engine import parse_type
    env = {}
    for pn, pt in sp.params:
        if pt.startswith("$"):
            env[pn] = rng.randint(0, 2)
            continue
        ty = parse_type(pt)
        if ty[0] != "arr":
            continue
        shape = tuple(rng.randint(0, 4) for _ in range(ty[2]))
        if ty[1] == "bool":
            env[pn] = np.array([rng.random() < 0.5 for _ in range(int(np.prod(shape)))], dtype=bool).reshape(shape)
        elif ty[1] == "int":
            env[pn] = np.array([rng.randint(-2, 3) for _ in range(int(np.prod(shape)))], dtype=int).reshape(shape)
        else:
            env[pn] = np.array([rng.uniform(-2, 2) for _ in range(int(np.prod(shape)))], dtype=float).reshape(shape)
    return env


def check_specs(trials=40, seed=0):
    from .contract import SPECS, load_all
    from . import rtc
    load_all()
    rng = random.Random(seed)
    bad, n = [], 0
    skipped = {}
    done = {}
    for name, sp in SPECS.items():
        done[name] = 0
        for _ in range(trials):
            env = _instance(rng, sp)
            try:
                for k, e in sp.let.items():
                    env[k] = rtc.evaluate(e, env)
                stmts = [("axiom", a) for a in sp.axioms]
                for lm in sp.lemmas:
                    if lm.get("noinduct"):
                        stmts.append(("lemma " + lm["name"], lm["stmt"]))
                    else:
                        stmts.append(("lemma " + lm["name"], "forall(%s, (%s) + 1, lambda %s: %s)" % (lm.get("lo", 0), lm["hi"], lm["induct"], lm["stmt"])))
                for kind, s in stmts:
                    n += 1
                    if not rtc.evaluate(s, env):
                        bad.append((name, kind, s[:120], {k: (v.tolist() if hasattr(v, "tolist") else v) for k, v in env.items()}))
                done[name] += 1
            except Exception as ex:
                # the random instance violates an implicit shape relation of the spec function (its arrays are generated
                # independently): not an inconsistency, but it must not happen for EVERY instance
                skipped[name] = skipped.get(name, 0) + 1
    for name, k in done.items():
        if k == 0:
            bad.append((name, "never-evaluated", "all %d random instances raised" % skipped.get(name, 0), {}))
    check_specs.skipped = skipped
    return n, bad


def main(quick=True):
    n, bad = check_specs()
    print("spec axioms/lemmas evaluated against executable definitions: %d evaluations, %d failures (instances skipped because "
          "of shape mismatches: %s)" % (n, len(bad), getattr(check_specs, "skipped", {})))
    for b in bad[:10]:
        print("  SPEC-ERROR", b)
    rc = 3 if bad else 0
    if not quick:
        rc = max(rc, seeded())
    return rc


def _benign_props(notes):
    return None


BENIGN_PROPS = {"A-1": ["C01"], "A-2": ["C10"], "A-3": ["C10", "C18"], "A-4": ["C10", "C03", "C14"], "A-5": ["C01", "C10", "C18"],
                "A-6": ["C01", "C10", "C09"], "B-1": ["C09"], "B-2": ["C19"], "B-3": ["C09", "C12"], "B-4": ["C02", "C12"],
                "B-5": ["C02", "C12", "C01"], "B-6": ["C19"], "C-1": ["C07"], "C-2": ["C06"], "C-3": ["C04"], "C-4": ["C13"],
                "C-5": ["C04"], "C-6": ["C03", "C05"]}


def seeded(update_meta=True):
    """each /verif/seeded/<id>/patch.diff must be reported as a VIOLATION of the property it breaks; each
    /verif/benign/<id>/patch.diff (behaviour-preserving refactor) must NOT be (exit 0, or 2 = undecided, never 1)"""
    sd = os.path.join(ROOT, "seeded")
    rc = 0
    if os.environ.get("VERIF_SELFTEST_NO_UPDATE"):          # a robustness run under another VERIF_SEED: report only
        update_meta = False
    from concurrent.futures import ThreadPoolExecutor
    workers = int(os.environ.get("VERIF_SELFTEST_WORKERS", "3"))
    only = os.environ.get("VERIF_SELFTEST_ONLY")          # regex on the seed name, e.g. 'C0[12]-'

    def one_seed(name):
        meta_p = os.path.join(sd, name, "meta.json")
        meta = json.load(open(meta_p))
        r = subprocess.run([sys.executable, os.path.join(ROOT, "tools", "mutcheck.py"), meta["property"], "--patch",
                            os.path.join(sd, name, "patch.diff")], capture_output=True, text=True)
        caught = "VIOLATION property=%s" % meta["property"] in r.stdout
        lines = [l for l in r.stdout.splitlines() if l.startswith(("VIOLATION", "UNDECIDED", "CHECKER-ERROR", "  function", meta["property"] + " "))]
        return name, meta_p, meta, caught, lines

    import re as _re
    names = [n for n in (sorted(os.listdir(sd)) if os.path.isdir(sd) else []) if os.path.exists(os.path.join(sd, n, "meta.json"))
             and (not only or _re.search(only, n))]
    with ThreadPoolExecutor(max_workers=workers) as ex:
        for name, meta_p, meta, caught, lines in ex.map(one_seed, names):
            print("seeded %-12s %s %s" % (name, meta["property"], "caught" if caught else "MISSED  " + " | ".join(lines[:2])[:200]), flush=True)
            if update_meta:
                meta["caught_by_vf_check"] = caught
                meta["vf_check_lines"] = [l[:400] for l in lines[:8]]
                json.dump(meta, open(meta_p, "w"), indent=1)
            if not caught:
                rc = 1
    if only:
        return rc
    bd = os.path.join(ROOT, "benign")
    res = {}
    for name in sorted(os.listdir(bd)) if os.path.isdir(bd) else []:
        pf = os.path.join(bd, name, "patch.diff")
        if not os.path.exists(pf):
            continue
        props = BENIGN_PROPS.get(name, [])
        pt = os.path.join(bd, name, "props.txt")
        if not props and os.path.exists(pt):
            props = open(pt).read().split()
        for pid in props:
            r = subprocess.run([sys.executable, os.path.join(ROOT, "tools", "mutcheck.py"), pid, "--patch", pf], capture_output=True, text=True)
            ex = [l for l in r.stdout.splitlines() if l.startswith("exit ")][-1:]
            alarm = "VIOLATION property=" in r.stdout
            res["%s/%s" % (name, pid)] = (ex[0] if ex else "?") + (" FALSE-ALARM" if alarm else "")
            print("benign %-6s %s %s%s" % (name, pid, ex[0] if ex else "?", "  FALSE ALARM" if alarm else ""), flush=True)
            if alarm:
                rc = 1
    if update_meta and res:
        json.dump(res, open(os.path.join(bd, "results.json"), "w"), indent=1)
    return rc
