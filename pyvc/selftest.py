"""vf selftest: guards against unsound success.
 (1) every spec-function axiom and lemma is evaluated against the executable definition on small random instances
     (an inconsistent or wrong axiom would make proofs vacuous);
 (2) the committed seeded mutants (/verif/seeded/*/patch.diff) must each be reported as a violation of their property,
     and the unchanged tree must be quiet (run with --full; slow)."""
from __future__ import annotations
import json, os, random, subprocess, sys, tempfile, shutil
import numpy as np

ROOT = os.path.dirname(os.path.dirname(os.path.abspath(__file__)))


def _instance(rng, sp):
    from .engine import parse_type
    env = {}
    for pn, pt in sp.params:
        if pt.startswith("$"):
            env[pn] = rng.randint(0, 2)
            continue
        ty = parse_type(pt)
        if ty[0] != "arr":
            continue
        shape = tuple(rng.randint(0, 4) for _ in range(ty[2]))
        if ty[1] == "bool":
            env[pn] = np.array([rng.random() < 0.5 for _ in range(int(np.prod(shape)))], dtype=bool).reshape(shape)
        elif ty[1] == "int":
            env[pn] = np.array([rng.randint(-2, 3) for _ in range(int(np.prod(shape)))], dtype=int).reshape(shape)
        else:
            env[pn] = np.array([rng.uniform(-2, 2) for _ in range(int(np.prod(shape)))], dtype=float).reshape(shape)
    return env


def check_specs(trials=40, seed=0):
    from .contract import SPECS, load_all
    from . import rtc
    load_all()
    rng = random.Random(seed)
    bad, n = [], 0
    for name, sp in SPECS.items():
        for _ in range(trials):
            env = _instance(rng, sp)
            try:
                for k, e in sp.let.items():
                    env[k] = rtc.evaluate(e, env)
                stmts = [("axiom", a) for a in sp.axioms]
                for lm in sp.lemmas:
                    if lm.get("noinduct"):
                        stmts.append(("lemma " + lm["name"], lm["stmt"]))
                    else:
                        stmts.append(("lemma " + lm["name"], "forall(%s, (%s) + 1, lambda %s: %s)" % (lm.get("lo", 0), lm["hi"], lm["induct"], lm["stmt"])))
                for kind, s in stmts:
                    n += 1
                    if not rtc.evaluate(s, env):
                        bad.append((name, kind, s[:120], {k: (v.tolist() if hasattr(v, "tolist") else v) for k, v in env.items()}))
            except Exception as ex:
                bad.append((name, "exception", repr(ex), {}))
    return n, bad


def main(quick=True):
    n, bad = check_specs()
    print("spec axioms/lemmas evaluated against executable definitions: %d evaluations, %d failures" % (n, len(bad)))
    for b in bad[:10]:
        print("  SPEC-ERROR", b)
    rc = 3 if bad else 0
    if not quick:
        rc = max(rc, seeded())
    return rc


def seeded():
    """each /verif/seeded/<id>/patch.diff must be detected by the check of the property it breaks"""
    sd = os.path.join(ROOT, "seeded")
    rc = 0
    if not os.path.isdir(sd):
        return 0
    for name in sorted(os.listdir(sd)):
        meta_p = os.path.join(sd, name, "meta.json")
        if not os.path.exists(meta_p):
            continue
        meta = json.load(open(meta_p))
        r = subprocess.run([sys.executable, os.path.join(ROOT, "tools", "mutcheck.py"), meta["property"], "--patch",
                            os.path.join(sd, name, "patch.diff")], capture_output=True, text=True)
        caught = "VIOLATION property=%s" % meta["property"] in r.stdout
        print("seeded %-28s %s %s" % (name, meta["property"], "caught" if caught else "MISSED"))
        if not caught:
            rc = 1
    return rc
