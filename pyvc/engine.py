"""Engine A: forward symbolic execution of one real function against its sidecar contract.

Produces named proof obligations (hyps => goal) as z3 formulas.  See DESIGN.md §3 for the
language subset and the assumed Python/numpy semantics (R1..R7).
"""
from __future__ import annotations
import ast, itertools, re
from fractions import Fraction
from typing import Any, Dict, List, Optional, Tuple
import z3

from . import source
from .contract import Contract, CONTRACTS, SPECS, MACROS

I = z3.IntSort()
R = z3.RealSort()
B = z3.BoolSort()


class OutsideSubset(Exception):
    pass


class ContractStale(Exception):
    pass


# ------------------------------------------------------------------ values

class Ref:
    """reference to a mutable heap object (ndarray)"""
    __slots__ = ("id",)

    def __init__(self, id):
        self.id = id

    def __repr__(self):
        return "Ref(%s)" % self.id


class Arr:
    __slots__ = ("data", "shape", "elem")

    def __init__(self, data, shape, elem):
        self.data, self.shape, self.elem = data, list(shape), elem

    @property
    def rank(self):
        return len(self.shape)


class Maybe:
    """possibly-unbound local: bound exactly when `cond` holds"""
    __slots__ = ("cond", "value")

    def __init__(self, cond, value):
        self.cond, self.value = cond, value


class Poison:
    def __init__(self, why):
        self.why = why


class Cplx:
    """complex scalar as a pair of reals"""
    __slots__ = ("re", "im")

    def __init__(self, re, im):
        self.re, self.im = re, im


class StrV:
    def __init__(self, s):
        self.s = s


class ModuleV:
    def __init__(self, dotted):
        self.dotted = dotted


class FuncV:
    def __init__(self, key):
        self.key = key


class NpV:
    """numpy namespace or member"""

    def __init__(self, path):
        self.path = path


class ExcV:
    def __init__(self, name):
        self.name = name


class TypeOf:
    """result of type(x): only its name is modelled ("ndarray", "tuple", "int", "float", "bool", "NoneType")"""

    def __init__(self, name):
        self.name = name


# complex numbers: scalars are Cplx(re, im) pairs; array ELEMENTS are values of a z3 record sort
_Cpx = z3.Datatype("Cpx")
_Cpx.declare("cpx", ("re", R), ("im", R))
CPX = _Cpx.create()
ELEM_SORT = {"real": R, "int": I, "bool": B, "complex": CPX}


def cpx_pack(v):
    if isinstance(v, Cplx):
        return CPX.cpx(to_real(v.re), to_real(v.im))
    return CPX.cpx(to_real(v), z3.RealVal(0))


def cpx_unpack(t):
    return Cplx(z3.simplify(CPX.re(t)), z3.simplify(CPX.im(t)))


def arr_sort(elem, rank):
    s = ELEM_SORT[elem]
    for _ in range(rank):
        s = z3.ArraySort(I, s)
    return s


def parse_type(t: str):
    t = t.strip()
    m = re.fullmatch(r"(real|int|bool|complex)\[(\d)\]", t)
    if m:
        return ("arr", m.group(1), int(m.group(2)))
    if t.startswith("(") and t.endswith(")"):
        inner = t[1:-1]
        parts, depth, cur = [], 0, ""
        for ch in inner:
            if ch == "(":
                depth += 1
            if ch == ")":
                depth -= 1
            if ch == "," and depth == 0:
                parts.append(cur)
                cur = ""
            else:
                cur += ch
        if cur.strip():
            parts.append(cur)
        return ("tuple", [parse_type(p) for p in parts])
    if t in ("int", "real", "bool", "str", "none", "complex"):
        return (t,)
    raise ValueError("bad type " + t)


def is_z3(v):
    return isinstance(v, z3.ExprRef)


def is_num(v):
    return isinstance(v, (int, Fraction)) and not isinstance(v, bool)


def toz(v):
    if is_z3(v):
        return v
    if isinstance(v, bool):
        return z3.BoolVal(v)
    if isinstance(v, int):
        return z3.IntVal(v)
    if isinstance(v, Fraction):
        if v.denominator == 1:
            return z3.RealVal(v.numerator)
        return z3.RealVal(str(v.numerator) + "/" + str(v.denominator))
    if isinstance(v, float):
        return toz(Fraction(v))
    raise OutsideSubset("cannot convert %r to a term" % (v,))


def sort_kind(v):
    if isinstance(v, bool):
        return "bool"
    if isinstance(v, int):
        return "int"
    if isinstance(v, Fraction):
        return "real"
    if is_z3(v):
        s = v.sort()
        if s == I:
            return "int"
        if s == R:
            return "real"
        if s == B:
            return "bool"
    return None


def to_real(v):
    if isinstance(v, bool):
        return z3.RealVal(1 if v else 0)
    if isinstance(v, int):
        return z3.RealVal(v)
    v = toz(v)
    if v.sort() == R:
        return v
    if v.sort() == I:
        if z3.is_int_value(v):
            return z3.RealVal(v.as_long())
        return z3.ToReal(v)
    if v.sort() == B:
        return z3.If(v, z3.RealVal(1), z3.RealVal(0))
    raise OutsideSubset("to_real")


def to_int_strict(v):
    """v must already be integer-sorted (python semantics: floats are not indices)"""
    if isinstance(v, bool):
        return z3.IntVal(int(v))
    if isinstance(v, int):
        return z3.IntVal(v)
    if is_z3(v) and v.sort() == I:
        return v
    if is_z3(v) and v.sort() == B:
        return z3.If(v, z3.IntVal(1), z3.IntVal(0))
    raise OutsideSubset("non-integer used where an integer is required: %r" % (v,))


def num_of_bool(v):
    if isinstance(v, bool):
        return int(v)
    if is_z3(v) and v.sort() == B:
        return z3.If(v, z3.IntVal(1), z3.IntVal(0))
    return v


def trunc(v):
    """python int(): truncation toward zero"""
    if isinstance(v, bool):
        return int(v)
    if isinstance(v, int):
        return v
    if isinstance(v, Fraction):
        return int(v)
    v = toz(v)
    if v.sort() == I:
        return v
    if v.sort() == B:
        return z3.If(v, z3.IntVal(1), z3.IntVal(0))
    if z3.is_app_of(v, z3.Z3_OP_TO_REAL):
        return v.arg(0)
    # an uninterpreted symbol with two axioms (trunc_axioms): its characterisation by cases, and trunc(to_real(i)) == i.
    # The second one lets e-matching conclude directly for integer-valued floats (index tables held in float arrays),
    # where z3's to_int reasoning under quantifiers is incomplete.
    return F_TRUNC(v)


F_TRUNC = z3.Function("trunc", R, I)


def trunc_axioms():
    x = z3.Real("x!t")
    i = z3.Int("i!t")
    tr = z3.ToReal(F_TRUNC(x))
    # truncation toward zero, characterised by linear arithmetic only (z3's to_int under quantifiers answers `unknown`)
    return [z3.ForAll([x], z3.And(z3.Implies(x >= 0, z3.And(tr <= x, x < tr + 1)),
                                  z3.Implies(x < 0, z3.And(tr - 1 < x, x <= tr))), patterns=[F_TRUNC(x)]),
            z3.ForAll([i], F_TRUNC(z3.ToReal(i)) == i, patterns=[F_TRUNC(z3.ToReal(i))])]


def floor_div_int(a, b):
    if isinstance(a, int) and isinstance(b, int):
        return a // b
    a, b = toz(a), toz(b)
    if z3.is_int_value(b) and b.as_long() > 0:
        return a / b          # z3 int div == floor for positive divisor
    return z3.If(b > 0, a / b, (-a) / (-b))


# uninterpreted maths
F_SQRT = z3.Function("sqrt", R, R)
F_EXP = z3.Function("exp", R, R)
F_LOG = z3.Function("log", R, R)
F_COS = z3.Function("cos", R, R)
F_SIN = z3.Function("sin", R, R)
F_ATAN2 = z3.Function("arctan2", R, R, R)
F_POW = z3.Function("pow", R, R, R)
F_RADIANS = z3.Function("radians", R, R)
UF_MATH = {"sqrt": F_SQRT, "exp": F_EXP, "log": F_LOG, "cos": F_COS, "sin": F_SIN,
           "arctan2": F_ATAN2, "radians": F_RADIANS}


def math_axioms():
    a = z3.Real("a!m")
    return {
        "sqrt": [z3.ForAll([a], z3.And(F_SQRT(a) >= 0, z3.Implies(a >= 0, F_SQRT(a) * F_SQRT(a) == a)),
                           patterns=[F_SQRT(a)])],
        "exp": [z3.ForAll([a], F_EXP(a) > 0, patterns=[F_EXP(a)])],
    }


# ------------------------------------------------------------------ state

class State:
    def __init__(self, env=None, heap=None, pc=None):
        self.env: Dict[str, Any] = env if env is not None else {}
        self.heap: Dict[int, Arr] = heap if heap is not None else {}
        self.pc: List[Any] = pc if pc is not None else []

    def copy(self):
        return State(dict(self.env), dict(self.heap), list(self.pc))


class Obligation:
    def __init__(self, name, hyps, goal, line=None, kind="", extra=None):
        self.name, self.hyps, self.goal, self.line, self.kind = name, hyps, goal, line, kind
        self.extra = extra or {}


class Exit:
    def __init__(self, kind, st, value=None, exc=None, line=None):
        self.kind, self.st, self.value, self.exc, self.line = kind, st, value, exc, line


class LoopCtl:
    def __init__(self):
        self.breaks: List[State] = []
        self.continues: List[State] = []


# ------------------------------------------------------------------ engine

class Engine:
    def __init__(self, contract: Contract):
        self.c = contract
        self.mi, self.fn = source.function(contract.key)
        self.obl: List[Obligation] = []
        self.exits: List[Exit] = []
        self.ids = itertools.count(1)
        self.fresh_n = itertools.count(1)
        self.spec_inst: Dict[Any, Any] = {}       # (spec name, key) -> (FuncDecl, axioms, lemmas)
        self.global_axioms: List[Tuple[str, Any]] = []   # (tag, formula)
        self.lemma_obls: List[Obligation] = []
        self.loops = source.loops_preorder(self.fn)
        self.loop_stack: List[LoopCtl] = []
        self.spec_mode = 0
        self.heap_override: List[Dict[int, Arr]] = []
        self.bound_vars: List[Any] = []
        self.entry: Optional[State] = None
        self.trusted_used: List[str] = []
        self.callees: List[str] = []
        self.math_used = set()
        self.warnings: List[str] = []
        self.cur_line = None
        self.sum_inst: Dict[Any, Any] = {}
        self.inline_depth = 0
        self.canaries: List[Tuple[str, list]] = []
        self.param_names: List[str] = []

    # ---- helpers
    def fresh(self, base, sort):
        return z3.Const("%s!%d" % (base, next(self.fresh_n)), sort)

    def fresh_of_type(self, ty, name, st: State):
        k = ty[0]
        if k == "int":
            return self.fresh(name, I)
        if k == "real":
            return self.fresh(name, R)
        if k == "bool":
            return self.fresh(name, B)
        if k == "complex":
            return Cplx(self.fresh(name + ".re", R), self.fresh(name + ".im", R))
        if k == "none":
            return None
        if k == "str":
            return StrV(None)
        if k == "tuple":
            return tuple(self.fresh_of_type(t, "%s.%d" % (name, i), st) for i, t in enumerate(ty[1]))
        if k == "arr":
            elem, rank = ty[1], ty[2]
            shape = [self.fresh("%s.shape%d" % (name, i), I) for i in range(rank)]
            for s in shape:
                st.pc.append(s >= 0)
            rid = next(self.ids)
            st.heap[rid] = Arr(self.fresh(name, arr_sort(elem, rank)), shape, elem)
            return Ref(rid)
        raise OutsideSubset("type " + str(ty))

    def emit(self, name, st: State, goal, kind=""):
        goal = toz(goal)
        if z3.is_true(goal):
            # still an obligation, trivially discharged; keep for counting
            pass
        self.obl.append(Obligation(name, list(st.pc), goal, self.cur_line, kind))

    def heap_of(self, st):
        return self.heap_override[-1] if self.heap_override else st.heap

    def deref(self, v, st) -> Arr:
        if isinstance(v, Ref):
            return self.heap_of(st)[v.id]
        if isinstance(v, Arr):
            return v
        raise OutsideSubset("not an array: %r" % (v,))

    # ---- spec functions
    def spec_apply(self, name, args, st):
        sp = SPECS[name]
        inst_key, inst_env, call_args = [name], {}, []
        for (pn, pt), a in zip(sp.params, args):
            if pt.startswith("$"):            # scalar instance parameter (fixed per instance, e.g. a half-width)
                z = toz(num_of_bool(a))
                inst_key.append(z.get_id())
                inst_env[pn] = a
                continue
            ty = parse_type(pt)
            if ty[0] == "arr":
                arr = self.deref(a, st)
                inst_key.append(arr.data.get_id())
                inst_key.extend(toz(s).get_id() for s in arr.shape)
                inst_env[pn] = Arr(arr.data, arr.shape, arr.elem)
            else:
                call_args.append((pn, ty, a))
        # scalar "instance" params (declared with a leading '$') are part of the instance key
        key = tuple(inst_key)
        if key not in self.spec_inst:
            sorts = []
            for pn, ty, a in call_args:
                sorts.append({"int": I, "real": R, "bool": B}[ty[0]])
            rs = {"int": I, "real": R, "bool": B}[sp.ret]
            f = z3.Function("%s!%d" % (name, next(self.fresh_n)), *(sorts + [rs]))
            self.spec_inst[key] = {"f": f, "name": name, "axioms": [], "lemmas": [], "env": inst_env}
            self._instantiate_spec(sp, self.spec_inst[key], st)
        f = self.spec_inst[key]["f"]
        zargs = []
        for pn, ty, a in call_args:
            if ty[0] == "int":
                zargs.append(to_int_strict(a))
            elif ty[0] == "real":
                zargs.append(to_real(a))
            else:
                zargs.append(toz(a))
        return f(*zargs)

    def _instantiate_spec(self, sp, inst, st):
        """evaluate the axiom and lemma strings for one instance (arrays fixed)."""
        env = dict(inst["env"])
        sub = State(env, {}, [])
        self.spec_mode += 1
        self.heap_override.append({})
        try:
            for k, e in sp.let.items():
                env[k] = self.ev(ast.parse(e, mode="eval").body, sub)
            for v in inst["env"].values():
                if isinstance(v, Arr):
                    for d in v.shape:
                        inst["axioms"].append(toz(d) >= 0)      # every ndarray dimension is non-negative
            for ax in sp.axioms:
                inst["axioms"].append(toz(self.ev(ast.parse(ax, mode="eval").body, sub)))
            for lm in sp.lemmas:
                inst["lemmas"].append(self._lemma(sp, lm, env))
        finally:
            self.heap_override.pop()
            self.spec_mode -= 1

    def _lemma(self, sp, lm, env):
        """a lemma: either proved by induction on `induct` over [lo, hi] (obligations base/step) or, with
        noinduct, directly from the axioms and the lemmas before it (one obligation)."""
        if lm.get("noinduct"):
            sub = State(dict(env), {}, [])
            stmt = toz(self.ev(ast.parse(lm["stmt"], mode="eval").body, sub))
            hints = [self.ev(ast.parse(h, mode="eval").body, sub) for h in lm.get("hints", [])]
            return {"name": sp.name + "." + lm["name"], "parts": [("direct", [], stmt)], "stmt": stmt, "hints": hints,
                    "export": lm.get("export", True), "spec": sp.name}
        n = self.fresh(lm["induct"], I)
        e2 = dict(env)
        e2[lm["induct"]] = n
        sub = State(e2, {}, [])
        P = lambda at: toz(self.ev(ast.parse(lm["stmt"], mode="eval").body, State({**e2, lm["induct"]: at}, {}, [])))
        lo = toz(self.ev(ast.parse(str(lm.get("lo", 0)), mode="eval").body, sub))
        hi = self.ev(ast.parse(str(lm["hi"]), mode="eval").body, sub) if "hi" in lm else None
        hints = [self.ev(ast.parse(h, mode="eval").body, sub) for h in lm.get("hints", [])]
        rng = [n >= lo] + ([n < toz(hi)] if hi is not None else [])
        if hi is None:
            raise OutsideSubset("inductive lemma needs hi")
        # the usable statement: forall n in [lo, hi]: P(n), flattened with P's own quantifiers/patterns
        wrapped = "forall(%s, (%s) + 1, lambda %s: %s)" % (lm.get("lo", 0), lm["hi"], lm["induct"], lm["stmt"])
        stmt_all = toz(self.ev(ast.parse(wrapped, mode="eval").body, State(dict(env), {}, [])))
        return {"name": sp.name + "." + lm["name"], "parts": [("base", [], P(lo)), ("step", rng + [P(n)], P(n + 1))],
                "stmt": stmt_all, "hints": hints, "export": lm.get("export", True), "spec": sp.name}

    def sumto(self, n, lam: ast.Lambda, st):
        """sum_{k<n} body(k): an uninterpreted partial-sum function of k and of the enclosing bound variables,
        defined by S(.,0)=0 and S(.,k+1)=S(.,k)+body(k) (k>=0).  The recurrence is triggered on S(.,k+1) only
        (goal-directed; triggering on S(.,k) would be a matching loop)."""
        if len(lam.args.args) != 1:
            raise OutsideSubset("sumto lambda arity")
        k = self.fresh(lam.args.args[0].arg, I)
        sub = State(dict(st.env), st.heap, st.pc)
        sub.env[lam.args.args[0].arg] = k
        self.bound_vars.append(k)
        try:
            body = z3.simplify(toz(num_of_bool(self.ev(lam.body, sub))))
        finally:
            self.bound_vars.pop()
        # parameters of the summand: every free scalar constant in it (enclosing bound variables and scalar
        # program variables alike), in order of first occurrence -- so alpha-equivalent summands, and summands that
        # differ only in WHICH scalar they mention, share one partial-sum function
        bvs = _free_scalars(body, k)
        canon = [(v, z3.Const("cv!%d" % i, v.sort())) for i, v in enumerate([k] + bvs)]
        key = ("sum", z3.substitute(body, *canon).sexpr(), tuple(str(v.sort()) for v, _ in canon))
        if key not in self.sum_inst:
            rs = body.sort()
            f = z3.Function("sum!%d" % next(self.fresh_n), *([b.sort() for b in bvs] + [I, rs]))
            zero = z3.IntVal(0) if rs == I else z3.RealVal(0)
            ax = []
            if bvs:
                ax.append(z3.ForAll(bvs, f(*(bvs + [z3.IntVal(0)])) == zero, patterns=[f(*(bvs + [z3.IntVal(0)]))]))
            else:
                ax.append(f(z3.IntVal(0)) == zero)
            ax.append(z3.ForAll(bvs + [k], z3.Implies(k >= 0, f(*(bvs + [k + 1])) == f(*(bvs + [k])) + body),
                                patterns=[f(*(bvs + [k + 1]))]))
            self.sum_inst[key] = (f, ax)
        f, ax = self.sum_inst[key]
        return f(*(bvs + [to_int_strict(n)]))

    # ---- expression evaluation
    def ev(self, node, st: State):
        m = getattr(self, "ev_" + type(node).__name__, None)
        if m is None:
            raise OutsideSubset("expression %s at line %s" % (type(node).__name__, getattr(node, "lineno", "?")))
        return m(node, st)

    def ev_Constant(self, node, st):
        v = node.value
        if isinstance(v, bool) or v is None:
            return v
        if isinstance(v, int):
            return v
        if isinstance(v, float):
            return Fraction(v) if v == v and abs(v) != float("inf") else self._bad("nan/inf literal")
        if isinstance(v, str):
            return StrV(v)
        if isinstance(v, complex):
            return Cplx(toz(Fraction(v.real)), toz(Fraction(v.imag)))
        raise OutsideSubset("constant %r" % (v,))

    def _bad(self, why):
        raise OutsideSubset(why)

    def ev_Name(self, node, st):
        nm = node.id
        if nm in st.env:
            v = st.env[nm]
            if isinstance(v, Maybe):
                if not self.spec_mode:
                    self.emit("bound:%s@%s" % (nm, node.lineno), st, v.cond, "bound")
                return v.value
            if isinstance(v, Poison):
                raise OutsideSubset("use of %s: %s" % (nm, v.why))
            return v
        if self.spec_mode and nm in ("True", "False"):
            return nm == "True"
        if self.spec_mode and nm == "pi":
            from .calls import PI
            return PI
        if nm == "np":
            return NpV("np")
        tgt = self.mi.resolve(nm)
        if tgt is not None:
            if tgt == "numpy":
                return NpV("np")
            if source.is_module(tgt):
                return ModuleV(tgt)
            mod, _, attr = tgt.rpartition(".")
            if source.is_module(mod):
                return FuncV(mod + ":" + attr)
            return ModuleV(tgt)
        if nm in self.mi.functions or nm in self.mi.classes:
            return FuncV(self.mi.dotted + ":" + nm)
        if nm in self.mi.constants:
            return self.ev(self.mi.constants[nm], State({}, {}, []))
        if nm in ("int", "float", "abs", "len", "min", "max", "range", "enumerate", "bool", "zip", "round", "complex", "type", "list", "tuple"):
            return NpV("builtin." + nm)
        if nm in ("UnboundLocalError", "ZeroDivisionError", "ValueError", "IndexError", "Exception"):
            return ExcV(nm)
        raise OutsideSubset("unknown name %s at line %s" % (nm, getattr(node, "lineno", "?")))

    def ev_Tuple(self, node, st):
        return tuple(self.ev(e, st) for e in node.elts)

    def ev_List(self, node, st):
        return tuple(self.ev(e, st) for e in node.elts)

    def ev_UnaryOp(self, node, st):
        v = self.ev(node.operand, st)
        if isinstance(node.op, ast.USub):
            if isinstance(v, Cplx):
                return Cplx(-v.re, -v.im)
            v = num_of_bool(v)
            return -v
        if isinstance(node.op, ast.UAdd):
            return num_of_bool(v)
        if isinstance(node.op, ast.Not):
            t = self.truth(v)
            return (not t) if isinstance(t, bool) else z3.Not(t)
        raise OutsideSubset("unary op")

    def truth(self, v):
        if isinstance(v, bool):
            return v
        if is_num(v):
            return v != 0
        if v is None:
            return False
        if is_z3(v):
            if v.sort() == B:
                return v
            return v != 0
        if isinstance(v, tuple):
            return len(v) > 0
        raise OutsideSubset("truth value of %r" % (v,))

    def ev_BoolOp(self, node, st):
        is_and = isinstance(node.op, ast.And)
        if self.spec_mode:
            vals = [self.truth(self.ev(e, st)) for e in node.values]
            vals = [toz(v) for v in vals]
            return z3.And(vals) if is_and else z3.Or(vals)
        # short-circuit: operand i is evaluated under the assumption that the previous ones did not decide
        sub = st.copy()
        vals, guards = [], []
        for e in node.values:
            n0 = len(sub.pc)
            v = self.ev(e, sub)
            # facts recorded while evaluating this operand (definitions of fresh slices / temporaries, callee
            # postconditions, new heap objects) hold whenever the operand is evaluated at all: keep them under its guard
            for fact in sub.pc[n0:]:
                st.pc.append(z3.Implies(z3.And(guards), fact) if guards else fact)
            for hid, obj in sub.heap.items():
                if hid not in st.heap:
                    st.heap[hid] = obj
            t = self.truth(v)
            vals.append(t)
            g = toz(t) if is_and else z3.Not(toz(t))
            guards.append(g)
            sub.pc.append(g)
        vals = [toz(v) for v in vals]
        return z3.And(vals) if is_and else z3.Or(vals)

    def ev_IfExp(self, node, st):
        c = self.truth(self.ev(node.test, st))
        if isinstance(c, bool):
            return self.ev(node.body if c else node.orelse, st)
        s1 = st.copy(); s1.pc.append(c)
        s2 = st.copy(); s2.pc.append(z3.Not(c))
        n1, n2 = len(s1.pc), len(s2.pc)
        a = self.ev(node.body, s1)
        b = self.ev(node.orelse, s2)
        for fact in s1.pc[n1:]:
            st.pc.append(z3.Implies(c, fact))
        for fact in s2.pc[n2:]:
            st.pc.append(z3.Implies(z3.Not(c), fact))
        for sx in (s1, s2):
            for hid, obj in sx.heap.items():
                if hid not in st.heap:
                    st.heap[hid] = obj
        return self.ite(c, a, b)

    def ite(self, c, a, b):
        if isinstance(a, tuple) and isinstance(b, tuple) and len(a) == len(b):
            return tuple(self.ite(c, x, y) for x, y in zip(a, b))
        if isinstance(a, Ref) and isinstance(b, Ref) and a.id == b.id:
            return a
        if a is b:
            return a
        if isinstance(a, Cplx) or isinstance(b, Cplx):
            a, b = self.to_cplx(a), self.to_cplx(b)
            return Cplx(z3.If(c, a.re, b.re), z3.If(c, a.im, b.im))
        ka, kb = sort_kind(a), sort_kind(b)
        if ka is None or kb is None:
            raise OutsideSubset("cannot merge %r / %r" % (a, b))
        if not is_z3(a) and not is_z3(b) and a == b and ka == kb:
            return a
        if ka == kb:
            return z3.If(c, toz(a), toz(b))
        if "real" in (ka, kb):
            return z3.If(c, to_real(a), to_real(b))
        return z3.If(c, toz(num_of_bool(a)), toz(num_of_bool(b)))

    def to_cplx(self, v):
        if isinstance(v, Cplx):
            return v
        return Cplx(to_real(v), z3.RealVal(0))

    def ev_BinOp(self, node, st):
        a = self.ev(node.left, st)
        b = self.ev(node.right, st)
        return self.binop(node.op, a, b, st, node)

    def binop(self, op, a, b, st, node=None):
        if isinstance(a, tuple) and isinstance(b, tuple) and isinstance(op, ast.Add):
            return a + b
        if isinstance(a, (Ref, Arr)) or isinstance(b, (Ref, Arr)):
            return self.arr_binop(op, a, b, st)
        if isinstance(a, Cplx) or isinstance(b, Cplx):
            return self.cplx_binop(op, self.to_cplx(a), self.to_cplx(b), st)
        a, b = num_of_bool(a), num_of_bool(b)
        ka, kb = sort_kind(a), sort_kind(b)
        if ka is None or kb is None:
            raise OutsideSubset("binop on %r, %r" % (a, b))
        concrete = not is_z3(a) and not is_z3(b)
        if isinstance(op, (ast.Add, ast.Sub, ast.Mult)):
            if concrete:
                return {ast.Add: a + b, ast.Sub: a - b, ast.Mult: a * b}[type(op)]
            if ka != kb:
                a, b = to_real(a), to_real(b)
            else:
                a, b = toz(a), toz(b)
            return {ast.Add: a + b, ast.Sub: a - b, ast.Mult: a * b}[type(op)]
        if isinstance(op, ast.Div):
            if not self.spec_mode:
                self.need_nonzero(b, st, node)
            if concrete:
                if b == 0:
                    return self.fresh("divzero", R)
                return Fraction(a) / Fraction(b)
            return to_real(a) / to_real(b)
        if isinstance(op, ast.FloorDiv):
            if not self.spec_mode:
                self.need_nonzero(b, st, node)
            if ka == "int" and kb == "int":
                if concrete and b != 0:
                    return a // b
                return floor_div_int(a, b)
            q = to_real(a) / to_real(b)
            return z3.ToReal(z3.ToInt(q))
        if isinstance(op, ast.Mod):
            if not self.spec_mode:
                self.need_nonzero(b, st, node)
            if ka == "int" and kb == "int":
                if concrete and b != 0:
                    return a % b
                return toz(a) - toz(b) * floor_div_int(a, b)
            q = to_real(a) / to_real(b)
            return to_real(a) - to_real(b) * z3.ToReal(z3.ToInt(q))
        if isinstance(op, ast.Pow):
            if not is_z3(b):
                if b == 2:
                    return self.binop(ast.Mult(), a, a, st)
                if b == 1:
                    return a
                if b == 0:
                    return 1 if ka == "int" else Fraction(1)
                if b == Fraction(1, 2):
                    self.math_used.add("sqrt")
                    return F_SQRT(to_real(a))
                if isinstance(b, int) and 2 < b <= 4:
                    r = a
                    for _ in range(b - 1):
                        r = self.binop(ast.Mult(), r, a, st)
                    return r
            return F_POW(to_real(a), to_real(b))
        raise OutsideSubset("binop %s" % type(op).__name__)

    def cplx_binop(self, op, a, b, st):
        if isinstance(op, ast.Add):
            return Cplx(a.re + b.re, a.im + b.im)
        if isinstance(op, ast.Sub):
            return Cplx(a.re - b.re, a.im - b.im)
        if isinstance(op, ast.Mult):
            return Cplx(a.re * b.re - a.im * b.im, a.re * b.im + a.im * b.re)
        raise OutsideSubset("complex op")

    def arr_binop(self, op, a, b, st):
        """elementwise array (op) scalar / array, fresh result defined by a quantified axiom"""
        A = self.deref(a, st) if isinstance(a, (Ref, Arr)) else None
        Bv = self.deref(b, st) if isinstance(b, (Ref, Arr)) else None
        shape = (A or Bv).shape
        rank = len(shape)
        if A is not None and Bv is not None:
            if A.rank != Bv.rank:
                raise OutsideSubset("broadcasting between ranks")
            for s, t in zip(A.shape, Bv.shape):
                self.emit("shape-eq@%s" % self.cur_line, st, toz(s) == toz(t), "shape")
        idx = [self.fresh("i", I) for _ in range(rank)]
        ea = self.select(A, idx) if A is not None else a
        eb = self.select(Bv, idx) if Bv is not None else b
        if A is not None and A.elem == "complex":
            ea = cpx_unpack(ea)
        if Bv is not None and Bv.elem == "complex":
            eb = cpx_unpack(eb)
        save = self.spec_mode
        self.spec_mode += 1        # element-wise op: division obligations handled separately
        try:
            e = self.binop(op, ea, eb, st)
        finally:
            self.spec_mode = save
        if isinstance(op, (ast.Div, ast.FloorDiv, ast.Mod)) and not self.spec_mode:
            rng = z3.And([z3.And(i >= 0, i < toz(s)) for i, s in zip(idx, shape)])
            self.emit("div@%s" % self.cur_line, st, z3.ForAll(idx, z3.Implies(rng, toz(eb) != 0)), "div")
        if isinstance(e, Cplx):
            e, elem = cpx_pack(e), "complex"
        else:
            e = toz(e)
            elem = sort_kind(e)
        rid = next(self.ids)
        data = self.fresh("ew", arr_sort(elem, rank))
        st.heap[rid] = Arr(data, shape, elem)
        st.pc.append(z3.ForAll(idx, self.select(st.heap[rid], idx) == e))
        return Ref(rid)

    def need_nonzero(self, b, st, node):
        if not is_z3(b):
            if b == 0:
                self.emit("div@%s" % getattr(node, "lineno", self.cur_line), st, z3.BoolVal(False), "div")
            return
        self.emit("div@%s" % getattr(node, "lineno", self.cur_line), st, b != 0, "div")

    def ev_Compare(self, node, st):
        left = self.ev(node.left, st)
        res = []
        for op, rn in zip(node.ops, node.comparators):
            right = self.ev(rn, st)
            res.append(self.compare(op, left, right))
            left = right
        if len(res) == 1:
            return res[0]
        if all(isinstance(r, bool) for r in res):
            return all(res)
        return z3.And([toz(r) for r in res])

    def compare(self, op, a, b):
        if isinstance(op, (ast.Is, ast.IsNot)) and (isinstance(a, TypeOf) or isinstance(b, TypeOf)):
            ta = a.name if isinstance(a, TypeOf) else getattr(b, "name", None)
            other = b if isinstance(a, TypeOf) else a
            oname = other.path.split(".")[-1] if isinstance(other, NpV) else getattr(other, "name", None)
            if ta is None or oname is None:
                raise OutsideSubset("type comparison")
            r = (ta == oname)
            return r if isinstance(op, ast.Is) else (not r)
        if isinstance(op, (ast.Is, ast.IsNot)):
            if a is None or b is None:
                r = (a is None) and (b is None)
                return r if isinstance(op, ast.Is) else not r
            raise OutsideSubset("is on non-None")
        if isinstance(a, tuple) and isinstance(b, tuple):
            if len(a) != len(b):
                r = False
            else:
                parts = [self.compare(ast.Eq(), x, y) for x, y in zip(a, b)]
                r = all(parts) if all(isinstance(p, bool) for p in parts) else z3.And([toz(p) for p in parts])
            if isinstance(op, ast.Eq):
                return r
            if isinstance(op, ast.NotEq):
                return (not r) if isinstance(r, bool) else z3.Not(r)
            raise OutsideSubset("tuple ordering")
        if isinstance(a, StrV) and isinstance(b, StrV) and a.s is not None and b.s is not None:
            r = a.s == b.s
            return r if isinstance(op, ast.Eq) else (not r)
        if (a is None) != (b is None):
            if isinstance(op, ast.Eq):
                return False
            if isinstance(op, ast.NotEq):
                return True
        ka, kb = sort_kind(a), sort_kind(b)
        if ka is None or kb is None:
            raise OutsideSubset("compare %r %r" % (a, b))
        if ka == "bool" and kb == "bool":
            if not is_z3(a) and not is_z3(b):
                x = a == b
            else:
                x = toz(a) == toz(b)
            if isinstance(op, ast.Eq):
                return x
            if isinstance(op, ast.NotEq):
                return (not x) if isinstance(x, bool) else z3.Not(x)
        a, b = num_of_bool(a), num_of_bool(b)
        ka, kb = sort_kind(a), sort_kind(b)
        if not is_z3(a) and not is_z3(b):
            return {ast.Eq: a == b, ast.NotEq: a != b, ast.Lt: a < b, ast.LtE: a <= b, ast.Gt: a > b, ast.GtE: a >= b}[type(op)]
        if ka != kb:
            a, b = to_real(a), to_real(b)
        else:
            a, b = toz(a), toz(b)
        return {ast.Eq: a == b, ast.NotEq: a != b, ast.Lt: a < b, ast.LtE: a <= b, ast.Gt: a > b, ast.GtE: a >= b}[type(op)]

    def ev_Attribute(self, node, st):
        base = self.ev(node.value, st)
        at = node.attr
        if isinstance(base, (Ref, Arr)):
            arr = self.deref(base, st)
            if at == "shape":
                return tuple(arr.shape)
            if at == "ndim":
                return arr.rank
            if at == "T" and arr.rank == 1:
                return base
            if at == "real" or at == "imag":
                raise OutsideSubset("complex array attribute")
            key = "%s.%s" % (_nm(node.value), at)
            attrs = getattr(self.c, "attrs", None) or {}
            if key in attrs:
                # assumed fact about an array-like object parameter (trusted; checked at run time by engine C)
                ent = self.entry if self.entry is not None else st
                return self.evs(attrs[key], State(dict(ent.env), ent.heap, []))
            return ("method", base, at)
        if isinstance(base, Cplx):
            if at == "real":
                return base.re
            if at == "imag":
                return base.im
        if isinstance(base, NpV):
            if base.path == "np" and at == "pi":
                from .calls import PI
                return PI
            return NpV(base.path + "." + at)
        if isinstance(base, ModuleV):
            d = base.dotted + "." + at
            if source.is_module(d):
                return ModuleV(d)
            if base.dotted.endswith("exc") or ".exc" in base.dotted:
                return ExcV(at)
            if source.is_module(base.dotted):
                return FuncV(base.dotted + ":" + at)
            return ModuleV(d)
        if isinstance(base, dict) and at in base:      # self.* record
            return base[at]
        if isinstance(base, tuple):
            # objects modelled by a tuple (contract.objects: {arity: "module:Class"}; e.g. a Region2D IS its region tuple,
            # __getitem__ being tuple indexing).  Properties are inlined from the class source; methods are called by contract.
            cls = (getattr(self.c, "objects", None) or {}).get(len(base))
            if cls is not None:
                mod, cname = cls.split(":")
                mi2 = source.module(mod)
                fn = mi2.functions.get(cname + "." + at)
                if fn is not None:
                    is_prop = any((getattr(d, "id", None) == "property") for d in fn.decorator_list)
                    if is_prop:
                        from .calls import inline_call
                        fake = ast.Call(func=ast.Name(id=at, ctx=ast.Load()), args=[], keywords=[])
                        return inline_call(self, cls + "." + at, mi2, fn, fake, st, self_value=base)
                    return ("omethod", base, cls + "." + at)
        raise OutsideSubset("attribute .%s of %r (line %s)" % (at, base, getattr(node, "lineno", "?")))

    def select(self, arr: Arr, idx):
        d = arr.data
        for i in idx:
            d = z3.Select(d, i)
        return d

    def store(self, data, idx, v):
        if len(idx) == 1:
            return z3.Store(data, idx[0], v)
        return z3.Store(data, idx[0], self.store(z3.Select(data, idx[0]), idx[1:], v))

    def index_list(self, sl):
        if isinstance(sl, ast.Tuple):
            return list(sl.elts)
        return [sl]

    def norm_index(self, i, dim, st, what):
        """python index -> checked non-negative index term (R3: a computed negative index is an error)"""
        if isinstance(i, bool):
            i = int(i)
        if isinstance(i, int) and i < 0:
            i = toz(dim) + i            # literal negative index: python semantics
        iz = to_int_strict(i)
        if not self.spec_mode:
            self.emit("index:%s@%s" % (what, self.cur_line), st, z3.And(iz >= 0, iz < toz(dim)), "index")
        return iz

    def ev_Subscript(self, node, st):
        base = self.ev(node.value, st)
        if isinstance(base, tuple):
            if isinstance(node.slice, ast.Slice):
                lo = self.ev(node.slice.lower, st) if node.slice.lower else None
                hi = self.ev(node.slice.upper, st) if node.slice.upper else None
                if (lo is None or isinstance(lo, int)) and (hi is None or isinstance(hi, int)):
                    return base[lo:hi]
                raise OutsideSubset("symbolic tuple slice")
            i = self.ev(node.slice, st)
            if isinstance(i, int):
                if not -len(base) <= i < len(base):
                    raise OutsideSubset("tuple index out of range")
                return base[i]
            if is_z3(i) and len(base) > 0:
                # symbolic index into a small tuple
                if not self.spec_mode:
                    self.emit("index:tuple@%s" % self.cur_line, st, z3.And(i >= 0, i < len(base)), "index")
                r = base[-1]
                for k in range(len(base) - 2, -1, -1):
                    r = self.ite(i == k, base[k], r)
                return r
            raise OutsideSubset("tuple index")
        if isinstance(base, (Ref, Arr)):
            arr = self.deref(base, st)
            idx_nodes = self.index_list(node.slice)
            if len(idx_nodes) > arr.rank:
                raise OutsideSubset("too many indices")
            vals, k = [], 0
            # leading scalar indices followed (optionally) by full slices
            for n in idx_nodes:
                if isinstance(n, ast.Slice):
                    break
                v = self.ev(n, st)
                vals.append(self.norm_index(v, arr.shape[k], st, _nm(node.value)))
                k += 1
            rest = idx_nodes[k:]
            if any(not (isinstance(n, ast.Slice) and n.lower is None and n.upper is None and n.step is None) for n in rest):
                return self.slice_read(arr, idx_nodes, st, node)
            sub = self.select(arr, vals)
            if k == arr.rank:
                return cpx_unpack(sub) if arr.elem == "complex" else sub
            return Arr(sub, arr.shape[k:], arr.elem)       # row / sub-array snapshot
        if isinstance(base, dict):
            raise OutsideSubset("dict subscript")
        raise OutsideSubset("subscript of %r at line %s" % (base, getattr(node, "lineno", "?")))

    def slice_read(self, arr, idx_nodes, st, node):
        """general basic slicing a[lo:hi, j] with unit step -> snapshot array defined by a quantified axiom"""
        specs = []
        for k, n in enumerate(idx_nodes):
            if isinstance(n, ast.Slice):
                if n.step is not None:
                    stp = self.ev(n.step, st)
                    if stp == -1 and n.lower is None and n.upper is None:
                        specs.append(("r", toz(arr.shape[k])))         # a[::-1]: full reversal of this axis
                        continue
                    if stp != 1:
                        raise OutsideSubset("slice step")
                lo = self.ev(n.lower, st) if n.lower is not None else 0
                hi = self.ev(n.upper, st) if n.upper is not None else arr.shape[k]
                lo, hi = to_int_strict(lo), to_int_strict(hi)
                if not self.spec_mode:
                    # python clamps slices; we require them in range (stricter, reported as index obligation)
                    self.emit("slice:%s@%s" % (_nm(node.value), self.cur_line), st,
                              z3.And(lo >= 0, hi <= toz(arr.shape[k])), "index")
                specs.append(("s", lo, hi))
            else:
                v = self.ev(n, st)
                specs.append(("i", self.norm_index(v, arr.shape[k], st, _nm(node.value))))
        for k in range(len(idx_nodes), arr.rank):
            specs.append(("s", z3.IntVal(0), toz(arr.shape[k])))
        out_shape, src_idx, bvs = [], [], []
        for sp in specs:
            if sp[0] == "r":
                b = self.fresh("j", I)
                bvs.append(b)
                out_shape.append(sp[1])
                src_idx.append(sp[1] - 1 - b)
                continue
            if sp[0] == "s":
                b = self.fresh("j", I)
                bvs.append(b)
                n = z3.If(sp[2] - sp[1] >= 0, sp[2] - sp[1], z3.IntVal(0))
                out_shape.append(z3.simplify(n))
                src_idx.append(z3.simplify(sp[1] + b))
            else:
                src_idx.append(sp[1])
        data = self.fresh("slice", arr_sort(arr.elem, len(out_shape)))
        out = Arr(data, out_shape, arr.elem)
        osel = self.select(out, bvs)
        st.pc.append(forall_pat(bvs, osel == self.select(arr, src_idx), [osel]))
        # the same fact indexed by the SOURCE position (trigger: the source element), for reasoning from the source side
        cvs, src2, out2, rng = [], [], [], []
        for sp in specs:
            if sp[0] == "r":
                c = self.fresh("c", I)
                cvs.append(c)
                src2.append(c)
                out2.append(sp[1] - 1 - c)
                rng.append(z3.And(c >= 0, c < sp[1]))
                continue
            if sp[0] == "s":
                c = self.fresh("c", I)
                cvs.append(c)
                src2.append(c)
                out2.append(z3.simplify(c - sp[1]))
                rng.append(z3.And(c >= sp[1], c < sp[2]))
            else:
                src2.append(sp[1])
        ssel = self.select(arr, src2)
        st.pc.append(forall_pat(cvs, z3.Implies(z3.And(rng), ssel == self.select(out, out2)), [ssel]))
        return out

    def ev_Call(self, node, st):
        from .calls import do_call
        return do_call(self, node, st)

    def ev_Lambda(self, node, st):
        return ("lambda", node, st)

    def ev_JoinedStr(self, node, st):
        return StrV(None)

    # ---- statements
    def exec_block(self, stmts, states) -> List[State]:
        """execute a statement list from each of `states`; returns the normally-completing states"""
        if isinstance(states, State):
            states = [states]
        for s in stmts:
            if not states:
                return []
            m = getattr(self, "st_" + type(s).__name__, None)
            if m is None:
                raise OutsideSubset("statement %s at line %s" % (type(s).__name__, s.lineno))
            nxt = []
            for st in states:
                self.cur_line = getattr(s, "lineno", self.cur_line)
                n0 = len(self.obl)
                try:
                    r = m(s, st)
                except OutsideSubset as e:
                    entry = getattr(self, "entry", None)
                    if entry is None or len(st.pc) <= len(entry.pc) or self.loop_stack:
                        raise
                    # a conditional path (beyond the entry state) the subset cannot express: it must be unreachable
                    del self.obl[n0:]
                    self.obl.append(Obligation("unmodelled-path@%s" % getattr(s, "lineno", "?"), list(st.pc), z3.BoolVal(False),
                                               getattr(s, "lineno", None), "reach", extra={"why": str(e)}))
                    continue
                if r is None:
                    continue
                if isinstance(r, State):
                    nxt.append(r)
                else:
                    nxt.extend(r)
            states = nxt
            if len(states) > 64:
                raise OutsideSubset("path explosion (>64 live states)")
        return states

    def st_Pass(self, s, st):
        return st

    def st_Expr(self, s, st):
        if isinstance(s.value, ast.Constant):
            return st
        if isinstance(s.value, ast.Call):
            f = s.value.func
            if isinstance(f, ast.Attribute) and isinstance(f.value, ast.Name) and f.value.id in ("logger", "warnings", "logging"):
                return st
            if (isinstance(f, ast.Attribute) and f.attr == "__init__" and isinstance(f.value, ast.Call)
                    and isinstance(f.value.func, ast.Name) and f.value.func.id == "super"):
                return st       # tuple-modelled objects: the base-class constructor only stores the tuple
        self.ev(s.value, st)
        return st

    def st_Assign(self, s, st):
        v = self.ev(s.value, st)
        for t in s.targets:
            self.assign(t, v, st)
        return st

    def st_AnnAssign(self, s, st):
        if s.value is not None:
            self.assign(s.target, self.ev(s.value, st), st)
        return st

    def st_AugAssign(self, s, st):
        if isinstance(s.target, ast.Name):
            cur = self.ev(ast.Name(id=s.target.id, ctx=ast.Load(), lineno=s.lineno), st)
            if isinstance(cur, (Ref,)):
                # in-place array op: a *= b  -> heap write
                rhs = self.ev(s.value, st)
                tmp = self.arr_binop(s.op, cur, rhs, st)
                st.heap[cur.id] = Arr(st.heap[tmp.id].data, st.heap[cur.id].shape, st.heap[tmp.id].elem)
                return st
            v = self.binop(s.op, cur, self.ev(s.value, st), st, s)
            st.env[s.target.id] = v
            return st
        if isinstance(s.target, ast.Subscript):
            load = ast.Subscript(value=s.target.value, slice=s.target.slice, ctx=ast.Load(), lineno=s.lineno)
            cur = self.ev(load, st)
            v = self.binop(s.op, cur, self.ev(s.value, st), st, s)
            self.assign(s.target, v, st, checked=True)
            return st
        raise OutsideSubset("augassign target")

    def assign(self, t, v, st, checked=False):
        if isinstance(t, ast.Name):
            st.env[t.id] = v
            return
        if isinstance(t, (ast.Tuple, ast.List)):
            if isinstance(v, Arr) and v.rank == 1:
                # unpack a row snapshot of statically unknown length: require len == arity
                self.emit("unpack@%s" % self.cur_line, st, toz(v.shape[0]) == len(t.elts), "index")
                v = tuple(z3.Select(v.data, i) for i in range(len(t.elts)))
            if not isinstance(v, tuple) or len(v) != len(t.elts):
                raise OutsideSubset("unpack %r" % (v,))
            for tt, vv in zip(t.elts, v):
                self.assign(tt, vv, st)
            return
        if isinstance(t, ast.Subscript):
            base = self.ev(t.value, st)
            if not isinstance(base, Ref):
                raise OutsideSubset("store into non-heap value (line %s)" % self.cur_line)
            arr = st.heap[base.id]
            idx_nodes = self.index_list(t.slice)
            vals, k = [], 0
            for n in idx_nodes:
                if isinstance(n, ast.Slice):
                    break
                iv = self.ev(n, st)
                if checked:
                    save = self.spec_mode; self.spec_mode += 1
                    try:
                        vals.append(self.norm_index(iv, arr.shape[k], st, _nm(t.value)))
                    finally:
                        self.spec_mode = save
                else:
                    vals.append(self.norm_index(iv, arr.shape[k], st, _nm(t.value)))
                k += 1
            rest = idx_nodes[k:]
            if any(not (isinstance(n, ast.Slice) and n.lower is None and n.upper is None and n.step is None) for n in rest):
                return self.slice_store(base, arr, idx_nodes, v, st, t)
            if k == arr.rank:
                if k != len(idx_nodes):
                    raise OutsideSubset("store rank")
                st.heap[base.id] = Arr(self.store(arr.data, vals, self.elem_coerce(v, arr.elem)), arr.shape, arr.elem)
                return
            # row store: a[i, :] = (u, v)  or a[i] = (u, v)
            if arr.rank - k == 1 and isinstance(v, tuple):
                self.emit("rowlen@%s" % self.cur_line, st, toz(arr.shape[k]) == len(v), "index")
                data = arr.data
                for j, vv in enumerate(v):
                    data = self.store(data, vals + [z3.IntVal(j)], self.elem_coerce(vv, arr.elem))
                st.heap[base.id] = Arr(data, arr.shape, arr.elem)
                return
            if arr.rank - k == 1 and isinstance(v, (Arr, Ref)):
                src = self.deref(v, st)
                self.emit("rowlen@%s" % self.cur_line, st, toz(arr.shape[k]) == toz(src.shape[0]), "index")
                if src.elem != arr.elem and not (src.elem == "int" and arr.elem == "real"):
                    raise OutsideSubset("row store elem type")
                rowdata = src.data
                if src.elem == "int" and arr.elem == "real":
                    raise OutsideSubset("int row into real array")
                st.heap[base.id] = Arr(self.store(arr.data, vals, rowdata) if vals else rowdata, arr.shape, arr.elem)
                return
            raise OutsideSubset("slice store")
        if isinstance(t, ast.Attribute):
            raise OutsideSubset("attribute store")
        raise OutsideSubset("assign target")

    def slice_store(self, base, arr, idx_nodes, v, st, t):
        """general basic-slice store  a[lo:hi, j] = value  (unit steps; value a scalar or an array whose rank is the number
        of slices): the new contents are a fresh array defined pointwise -- inside the addressed block the stored value,
        elsewhere the old contents"""
        specs = []
        for k, n in enumerate(idx_nodes):
            if isinstance(n, ast.Slice):
                if n.step is not None and self.ev(n.step, st) != 1:
                    raise OutsideSubset("slice step in store")
                lo = to_int_strict(self.ev(n.lower, st)) if n.lower is not None else z3.IntVal(0)
                hi = to_int_strict(self.ev(n.upper, st)) if n.upper is not None else toz(arr.shape[k])
                self.emit("slice:%s@%s" % (_nm(t.value), self.cur_line), st, z3.And(lo >= 0, hi <= toz(arr.shape[k])), "index")
                specs.append(("s", lo, hi))
            else:
                specs.append(("i", self.norm_index(self.ev(n, st), arr.shape[k], st, _nm(t.value))))
        for k in range(len(idx_nodes), arr.rank):
            specs.append(("s", z3.IntVal(0), toz(arr.shape[k])))
        idx = [self.fresh("i", I) for _ in range(arr.rank)]
        inside, src_idx = [], []
        for sp, i in zip(specs, idx):
            if sp[0] == "s":
                inside.append(z3.And(i >= sp[1], i < sp[2]))
                src_idx.append(z3.simplify(i - sp[1]))
            else:
                inside.append(i == sp[1])
        if isinstance(v, (Ref, Arr)):
            src = self.deref(v, st)
            if src.rank != len(src_idx):
                raise OutsideSubset("slice store: rank of the stored array")
            k2 = 0
            for sp in specs:
                if sp[0] == "s":
                    n = z3.If(sp[2] - sp[1] >= 0, sp[2] - sp[1], z3.IntVal(0))
                    self.emit("shape-eq@%s" % self.cur_line, st, toz(src.shape[k2]) == n, "shape")
                    k2 += 1
            val = self.select(src, src_idx)
            if src.elem == "complex":
                val = cpx_unpack(val)
        else:
            val = v
        new = Arr(self.fresh("sstore", arr_sort(arr.elem, arr.rank)), arr.shape, arr.elem)
        nsel = self.select(new, idx)
        st.pc.append(forall_pat(idx, nsel == z3.If(z3.And(inside), self.elem_coerce(val, arr.elem), self.select(arr, idx)), [nsel]))
        st.heap[base.id] = new

    def elem_coerce(self, v, elem):
        if elem == "complex":
            return cpx_pack(v)
        if isinstance(v, Cplx):
            raise OutsideSubset("complex element store into a real array")
        if elem == "real":
            return to_real(v)
        if elem == "int":
            k = sort_kind(v)
            if k == "real":
                raise OutsideSubset("real stored in int array")
            return to_int_strict(v)
        if elem == "bool":
            t = self.truth(v)
            return toz(t)
        raise OutsideSubset("elem")

    def st_Return(self, s, st):
        v = self.ev(s.value, st) if s.value is not None else None
        self.exits.append(Exit("return", st.copy(), v, line=s.lineno))
        return None

    def st_Raise(self, s, st):
        name = "Exception"
        e = s.exc
        if isinstance(e, ast.Call):
            e = e.func
        if isinstance(e, ast.Attribute):
            name = e.attr
        elif isinstance(e, ast.Name):
            name = e.id
        self.exits.append(Exit("raise", st.copy(), None, exc=name, line=s.lineno))
        return None

    def st_Break(self, s, st):
        self.loop_stack[-1].breaks.append(st.copy())
        return None

    def st_Continue(self, s, st):
        self.loop_stack[-1].continues.append(st.copy())
        return None

    def st_If(self, s, st):
        c = self.truth(self.ev(s.test, st))
        if isinstance(c, bool):
            return self.exec_block(s.body if c else s.orelse, st)
        base_len = len(st.pc)
        s1 = st.copy(); s1.pc.append(c)
        s2 = st.copy(); s2.pc.append(z3.Not(c))
        r1 = self._branch(s.body, s1, s)
        r2 = self._branch(s.orelse, s2, s)
        if r1 is None and r2 is None:
            raise OutsideSubset(self._branch_err)
        if r1 is None:
            return r2
        if r2 is None:
            return r1
        if len(r1) == 1 and len(r2) == 1:
            return self.merge(c, r1[0], r2[0], base_len)
        return r1 + r2

    def _branch(self, body, st, s):
        """execute one arm of an `if`; an arm the subset cannot express (e.g. an argument of another rank reaching a callee) is
        not silently dropped: it becomes the obligation `unmodelled-path@line` = "this arm is unreachable under the
        precondition".  Proved: the arm cannot run, nothing is lost.  Not proved: the function is reported UNDECIDED."""
        n0 = len(self.obl)
        try:
            return self.exec_block(body, st)
        except OutsideSubset as e:
            self._branch_err = str(e)
            del self.obl[n0:]
            self.obl.append(Obligation("unmodelled-path@%s" % s.lineno, list(st.pc), z3.BoolVal(False), s.lineno, "reach",
                                       extra={"why": str(e)}))
            return None

    def merge(self, c, r1: State, r2: State, base_len):
        out = State({}, {}, r1.pc[:base_len])
        suf1 = r1.pc[base_len + 1:]
        suf2 = r2.pc[base_len + 1:]
        if suf1:
            out.pc.append(z3.Implies(c, z3.And(suf1)))
        if suf2:
            out.pc.append(z3.Implies(z3.Not(c), z3.And(suf2)))
        for nm in set(r1.env) | set(r2.env):
            in1, in2 = nm in r1.env, nm in r2.env
            if in1 and in2:
                a, b = r1.env[nm], r2.env[nm]
                if isinstance(a, Maybe) or isinstance(b, Maybe):
                    ca = a.cond if isinstance(a, Maybe) else z3.BoolVal(True)
                    cb = b.cond if isinstance(b, Maybe) else z3.BoolVal(True)
                    va = a.value if isinstance(a, Maybe) else a
                    vb = b.value if isinstance(b, Maybe) else b
                    try:
                        out.env[nm] = Maybe(z3.If(c, ca, cb), self.ite(c, va, vb))
                    except OutsideSubset as e:
                        out.env[nm] = Poison(str(e))
                    continue
                if isinstance(a, Poison) or isinstance(b, Poison):
                    out.env[nm] = a if isinstance(a, Poison) else b
                    continue
                try:
                    out.env[nm] = self.ite(c, a, b) if not _same(a, b) else a
                except OutsideSubset as e:
                    out.env[nm] = Poison("merge: " + str(e))
            else:
                v = r1.env[nm] if in1 else r2.env[nm]
                cond = c if in1 else z3.Not(c)
                if isinstance(v, Maybe):
                    out.env[nm] = Maybe(z3.And(cond, v.cond), v.value)
                elif isinstance(v, Poison):
                    out.env[nm] = v
                else:
                    out.env[nm] = Maybe(cond, v)
        for hid in set(r1.heap) | set(r2.heap):
            a, b = r1.heap.get(hid), r2.heap.get(hid)
            if a is None or b is None:
                out.heap[hid] = a or b
            elif a.data is b.data or a.data.eq(b.data):
                out.heap[hid] = a
            else:
                out.heap[hid] = Arr(z3.If(c, a.data, b.data), a.shape, a.elem)
        return out

    def st_For(self, s, st):
        from .loops import do_for
        return do_for(self, s, st)

    def st_While(self, s, st):
        from .loops import do_while
        return do_while(self, s, st)

    def st_Try(self, s, st):
        # only the idiom `try: <use of possibly-unbound locals> except UnboundLocalError: <fallback>`
        raise OutsideSubset("try statement at line %s" % s.lineno)

    def st_Assert(self, s, st):
        c = self.truth(self.ev(s.test, st))
        self.emit("assert@%s" % s.lineno, st, c, "assert")
        st.pc.append(toz(c))
        return st

    # ---- contract-level evaluation
    def evs(self, expr: str, st: State, extra_env=None):
        """evaluate a DSL string in spec mode in (a copy of) st"""
        sub = State(dict(st.env), st.heap, st.pc)
        if extra_env:
            sub.env.update(extra_env)
        self.spec_mode += 1
        try:
            return self.ev(ast.parse(expr, mode="eval").body, sub)
        finally:
            self.spec_mode -= 1


def forall_pat(vs, body, patterns):
    """ForAll with explicit triggers; falls back to z3's own trigger inference when a trigger is not admissible
    (e.g. it contains an if-then-else or misses a variable)"""
    try:
        return z3.ForAll(vs, body, patterns=patterns)
    except z3.Z3Exception:
        return z3.ForAll(vs, body)


def _free_scalars(term, exclude):
    """free 0-ary uninterpreted Int/Real constants of `term` in DFS order of first occurrence"""
    out, seen = [], set()
    ex = exclude.get_id()

    def walk(t):
        i = t.get_id()
        if i in seen:
            return
        seen.add(i)
        if z3.is_quantifier(t):
            walk(t.body())
            return
        if z3.is_app(t):
            if t.num_args() == 0 and t.decl().kind() == z3.Z3_OP_UNINTERPRETED and t.sort() in (I, R) and i != ex:
                out.append(t)
            for c in t.children():
                walk(c)
    walk(term)
    return out


def _occurs(v, term):
    seen = set()
    stack = [term]
    vid = v.get_id()
    while stack:
        t = stack.pop()
        i = t.get_id()
        if i in seen:
            continue
        seen.add(i)
        if i == vid:
            return True
        stack.extend(t.children())
    return False


def _same(a, b):
    if a is b:
        return True
    if is_z3(a) and is_z3(b):
        return a.eq(b)
    if isinstance(a, Ref) and isinstance(b, Ref):
        return a.id == b.id
    if isinstance(a, tuple) and isinstance(b, tuple) and len(a) == len(b):
        return all(_same(x, y) for x, y in zip(a, b))
    if not is_z3(a) and not is_z3(b) and type(a) == type(b) and isinstance(a, (int, Fraction, bool)):
        return a == b
    return False


def _nm(node):
    if isinstance(node, ast.Name):
        return node.id
    if isinstance(node, ast.Attribute):
        return node.attr
    return "expr"
