"""Registry of bounded stand-in checks (engine C).  Each check: a generator of JSON-able inputs and a
`run(inputs)` returning None (held) or a message (violated) when executed against the REAL code."""
from __future__ import annotations
import importlib, os, pkgutil, sys
from typing import Callable, Dict, Optional

CHECKS: Dict[str, "Check"] = {}


class Check:
    def __init__(self, id, prop, fn, gen, nontrivial=None, doc="", twins=False):
        self.id, self.prop, self.fn, self.nontrivial, self.doc = id, prop, fn, nontrivial, doc
        self.name = id
        self.twins = twins
        self.gen = (lambda rng, tier, _g=gen: with_twins(_g(rng, tier), rng, twins)) if twins else gen

    def run(self, inputs) -> Optional[str]:
        return self.fn(**inputs)


def bounded(prop, name, gen, nontrivial=None, twins=False):
    """twins=("mask", "values", ...): the inputs of this check are a 2-D boolean `mask` plus arrays of the mask's shape and shape-independent
    values; the case stream is then interleaved with *reshaped twins* (see with_twins)"""
    def deco(fn):
        cid = "%s:%s" % (prop, name)
        CHECKS[cid] = Check(cid, prop, fn, gen, nontrivial, fn.__doc__ or "", twins)
        return fn
    return deco


def with_twins(cases, rng, keys=("mask",), p=0.25):
    """History-sensitive streams.  Results must not depend on what was computed before (C11, and every property quantifies over
    single calls), so a memo / cached buffer keyed on too little must show up as a wrong answer for SOME sequence of calls.
    Random cases almost never collide on such keys; twins do: before a case with an H x W mask (H != W) the same case is
    evaluated with every H x W array reshaped to W x H -- same bytes, same unmasked count, same scales / origin, other shape.
    Each twin is an ordinary valid input, judged by the check's own oracle."""
    import numpy as np
    for c in cases:
        m = c.get("mask") if isinstance(c, dict) else None
        if isinstance(m, np.ndarray) and m.ndim == 2 and m.shape[0] != m.shape[1] and rng.random() < p:
            H, W = m.shape
            t = {}
            for k, v in c.items():
                if k in keys and isinstance(v, np.ndarray) and v.ndim >= 2 and v.shape[:2] == (H, W):
                    t[k] = np.ascontiguousarray(v.reshape((W, H) + v.shape[2:]))
                else:
                    t[k] = v
            yield t
        yield c


# checks whose inputs are "a 2-D mask + arrays of the mask's shape + shape-independent values": reshaped twins are valid inputs
TWIN_CHECKS = {      # check id -> the inputs that have the mask's shape (reshaped together with it)
    "C01:array2d-native-input": ("values",), "C01:array2d-forms-both-modes": ("values",), "C01:array2d-apply-mask": ("values",),
    "C01:grid2d-forms-both-modes": ("values",), "C01:vectoryx2d-forms-both-modes": ("values", "grid"), "C01:mask2d-derive-indexes": (),
    "C02:grid2d-pixel-centres": (),
    "C09:over-sampled-grid": (), "C09:binned-means": (), "C09:decorator-uniform": (), "C09:decorator-plain-method": (),
    "C09:iterate-stopping-rule": (),
    "C10:blurring-util-footprint-or-raise": (), "C10:blurring-derive-mask-and-grid": (), "C10:edge-set-util": (), "C10:border-set-util": (),
    "C10:edge-border-sets-masked-outer-ring": (), "C10:edge-border-views-agree": (),
    "C12:grid-from-mask-and-derived-grids": (), "C12:mask2d-zoom-mask-unmasked": (), "C12:array2d-zoomed-resized-padded-trimmed": (),
    "C13:dft-class-visibilities": ("image",), "C13:dft-class-image-from": ("image",), "C13:dft-class-mapping-matrix-signed": ("image",),
    "C13:dft-class-native-stored-image": ("image",),
    "C14:zoom-window-contains-unmasked": ("values",), "C14:array2d-resized-centred": ("values",), "C14:mask2d-resized-centred": (),
    "C16:fits-util-2d-roundtrip": ("values",), "C16:fits-array2d-file-roundtrip": ("values",), "C16:fits-array2d-hdu-roundtrip": ("values",),
    "C16:fits-mask2d-roundtrip": ("values",),
    "C08:fit-residual-flux-fraction-map": ("data", "noise_map", "model_data"), "C08:fit-signal-to-noise-map": ("data", "noise_map", "model_data"),
}

_loaded = False


def load_all():
    global _loaded
    if _loaded:
        return
    root = os.path.join(os.path.dirname(os.path.dirname(os.path.abspath(__file__))), "bounded")
    if os.path.dirname(root) not in sys.path:
        sys.path.insert(0, os.path.dirname(root))
    if os.path.isdir(root):
        import bounded as pkg  # noqa
        for m in sorted(pkgutil.iter_modules([root])):
            importlib.import_module("bounded." + m.name)
        for cid, keys in TWIN_CHECKS.items():
            c = CHECKS[cid]                      # KeyError: the table names a check that no longer exists
            if not c.twins:
                CHECKS[cid] = Check(c.id, c.prop, c.fn, c.gen, c.nontrivial, c.doc, ("mask",) + tuple(keys))
    _loaded = True


def for_property(pid):
    load_all()
    return [c for c in CHECKS.values() if c.prop == pid]
